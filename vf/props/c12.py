"""C12 — GCP losses, gradients and their tensor-level evaluation are mutually consistent."""

from __future__ import annotations

import numpy as np
from hypothesis import strategies as st

import pyttb as ttb
from pyttb.gcp import fg, fg_est, fg_setup

from .. import gen, ref
from ..core import cell
from . import _c12_helpers as H

PROPERTY = "C12"
RULE = (
    "handle cells: for each of the ten losses, vectors of (data value in the loss's data domain incl. magnitudes "
    "1e-6..1e6, model value in [lower bound, ...) incl. 0 for bounded losses, extra parameter over its range, also a "
    "Python int for num_trials) drawn by Hypothesis; integer-valued data also held in int64/int32/uint8/uint16 (bool "
    "for the Bernoulli losses) and compared with its float64 image; oracle = complex-step derivative (h=1e-30) of "
    "function_handle for the nine analytic losses, Richardson central differences for Huber (kept 2% of the "
    "threshold away from the kink); a second setup with another parameter leaves the first pair alone and carries "
    "its own parameter.  evaluate cells: loss x Kruskal model (N 2..5, R 1..4, non-cubical, zero entries; fresh or "
    "after copy / weight absorption (C-ordered factor) / permute, and weighted: explicit weights / normalize / "
    "arrange) x dense (constructor F/C input, grown) / sparse (stored order, NumPy-int shape, stored zeros) data in "
    "float or integer dtype x weights none / mask (float, int64, bool, uint8) / positive in C or F order; oracle = "
    "sum of w*f over den(model) and, for unit-weight models, einsum of w*g and <G[k],V> = directional derivative of "
    "the objective recomputed by me (complex step through the Kruskal sum).  mttkrps: == per-mode mttkrp and == "
    "einsum definition (integer data exact; integer-typed tensors and factor lists, mixed with float).  estimate: "
    "all subscripts in generated order / arbitrary sample multisets with weights and correction range, values / "
    "subscripts / sample weights in integer dtypes, lambda_check default/True/False, weighted models with the check "
    "on; oracle = per-sample loop on den(model) incl. weights; gradients w.r.t. the unit-weight factor matrices the "
    "model has after the call.  Model classes: generic entries (exact zeros included), entries next to zero (1e-290 / "
    "1e-200 / 1e-12: not zeros), identity factors exactly and perturbed by 1e-9..1e-4, columns scaled by exactly "
    "balanced powers of two (2^60 .. 2^480 in one mode, the inverse in another), model weights 1 +- 1e-9..1e-5; weight "
    "arrays also mostly missing (0, 1, 2, ... observed entries, at most a quarter) and 1 +- 1e-9..1e-5; data / model "
    "values down to 1e-12 / 1e-15 in the handle cells.  evaluate: what it returns is overwritten (operands must not "
    "change), then data (item assignment) and / or model (ktensor.update) are edited in place and the same objects are "
    "evaluated again (objective and gradients of the operands as they stand).  large cells: a few problems per run "
    "with 60000 cells, 1e4..3e4 non-zero data entries (sparse or dense), mostly-missing weights; estimate on 1e4..3e4 "
    "samples (block edges 10000 / 16384 +-1), expanded deterministically from a seed, same bodies.  Non-trivial: N>=3, R>=2 and non-constant data (tensor cells); data value not 0 and "
    "model value not 0 (handle cells)."
)
ASSUMPTIONS = [
    "factor-matrix gradients are specified for unit-weight models (fg.evaluate takes the model as is: for a weighted "
    "model only its objective is checked; fg_est.estimate documents that its lambda check brings a weighted model to "
    "unit weights - in place - and the returned gradients refer to those factor matrices; with lambda_check=False "
    "only unit-weight models are generated)",
    "after estimate the caller's model must denote the same tensor: either untouched or unit weights with the same "
    "einsum within 64 (N+R+2) eps x the sum of absolute terms",
    "N >= 2: MTTKRP (hence the GCP gradient) is rejected by pyttb for 1-way tensors",
    "the handles' documented 1e-10 shift inside log/division is part of the loss: the derivative is taken of "
    "function_handle as implemented, so model value 0 is inside the domain of the bounded losses",
    "tolerances: 64 eps x (sum of absolute terms of f resp. df/dm) per entry, plus the handle's variation over "
    "the rounding interval of the model value (8 (N+R) eps x Kruskal sum of absolute values, x2..x4 for weighted "
    "models); sums over n entries get 64 n eps x sum of absolute summands.  Huber: rounding of a central difference, "
    "8*err(f)/h.  All tolerances are relative (they scale with the data / model magnitude)",
    "Huber is checked at least 2% of the threshold away from |x-m| = threshold (not differentiable there)",
    "beta loss: b outside [-0.05,0.05] and [0.95,1.05] (the loss divides by b and b-1)",
    "an integer dtype is used only when it holds every data value exactly; the derivative property is judged on the "
    "float64 image and 'independent of data dtype' is a clause of its own (16 eps x term scale); float32 left out",
    "extreme magnitudes are generated so that no product of factor entries is a subnormal number or depends on the "
    "order of the factors (one tiny magnitude class per model; power-of-two column scalings balanced per component; "
    "never a huge entry next to tiny ones); a model with entries below 1e-150 is not sent through normalize() (the "
    "square underflows: column 2-norms are not meaningful) and its directional derivative is not recomputed by "
    "complex step (1e-30 x 1e-290 underflows in my oracle)",
    "setup's domain check (valid_binary / valid_nonneg look at the stored values of a sparse tensor) is not asserted "
    "for sparse data that stores explicit zeros: whether a stored 0 passes it is outside C12",
]

EPS = H.EPS


def _nb_case_has_x_not_1(case):
    """negative-binomial problem in which some entry with non-zero weight has data != 1 (for data == 1 the
    coded gradient (r+1)/(1+m) coincides with the true (r+x)/(1+m))."""
    if case.get("loss") != "negative_binomial":
        return False
    if case.get("large") and "fill" in case:  # evaluate/large: the data the compact case stands for
        case = H.expand_large(case)
    if "vals" in case:  # estimate/samples
        crng = case.get("crng")
        if crng:  # the correction evaluates the gradient at data 0
            return True
        return any(v != 1 and w != 0 for v, w in zip(case["vals"], case["sweights"]))
    data = case["data"]
    w = case.get("weights") or [1.0] * len(data)
    return any(x != 1 and wi != 0 for x, wi in zip(data, w))


def _case_data(case):
    """(dtype name, data values) of a handle / evaluate / estimate case"""
    if "x" in case:
        return case.get("xdtype"), case["x"][:1] if case.get("form") == "scalar" else case["x"]
    if "vals" in case:
        return case.get("vdtype"), case["vals"] or []
    if "order" in case:  # estimate/all-entries: the sample values are the data in dtype 'vdtype'
        return case.get("vdtype"), case.get("data") or []
    return case.get("ddtype"), case.get("data") or []


def _held_in(case, dtypes):
    """the case's data is integer-valued, fits the drawn dtype (so it is really held in it) and that dtype is listed"""
    dt, vals = _case_data(case)
    if dt not in dtypes or not vals:
        return False
    return all(v == int(v) and 0 <= v <= H.DTYPE_MAX.get(dt, 2**53) for v in vals)


def _rayleigh_overflow(case):
    dt, vals = _case_data(case)
    limit = {"uint8": 16, "uint16": 256, "int32": 46341}.get(dt)
    return case.get("loss") == "rayleigh" and limit is not None and _held_in(case, (dt,)) and any(v >= limit for v in vals)


PREDICATES = {
    "nb_int_trials_small_int_data": lambda case: case.get("loss") == "negative_binomial" and isinstance(case.get("param"), int)
    and _held_in(case, ("uint8", "uint16", "int32")),
    "gamma_unsigned_data": lambda case: case.get("loss") == "gamma" and _held_in(case, ("uint8", "uint16")) and any(
        v != 0 for v in _case_data(case)[1]),
    "rayleigh_square_overflows_dtype": _rayleigh_overflow,
    "nb_some_data_not_1": _nb_case_has_x_not_1,
    "ktensor_nonunit_weights": lambda case: case.get("ukind") == "ktensor" and any(w != 1 for w in case["uweights"]),
    "no_samples": lambda case: len(case.get("subs", [0])) == 0,
}


# --------------------------------------------------------------------------
# (a) element-wise handle pairs
# --------------------------------------------------------------------------


def _handle_strategy(name):
    @st.composite
    def s(draw, tier):
        p = draw(H.param_strategy(name))
        n = draw(st.integers(1, 5))
        if name == "huber":
            xs = draw(st.lists(H.data_value("real"), min_size=n, max_size=n))
            rs = draw(st.lists(H.huber_ratio(), min_size=n, max_size=n))
            ms = [x - s_ * r * p for x, (s_, r) in zip(xs, rs)]
        else:
            xs = draw(st.lists(H.data_value(H.LOSSES[name]["data"]), min_size=n, max_size=n))
            ms = draw(st.lists(H.model_value(name), min_size=n, max_size=n))
        form = draw(st.sampled_from(["vector", "vector", "matrix", "scalar"]))
        # integer-valued data is naturally held in an integer (binary data also in a boolean) array
        xdtype = draw(st.sampled_from(H.data_dtypes(name)))
        if name == "negative_binomial" and p == int(p) and draw(st.booleans()):
            p = int(p)  # the number of trials given as a Python int
        other = draw(H.param_strategy(name))
        return dict(loss=name, param=p, x=xs, m=ms, form=form, xdtype=xdtype, other_param=other)

    return s


def _setup(ctx, name, p, data=None):
    with ctx.sut("fg_setup.setup"):
        out = fg_setup.setup(H.objective(name), data, p)
    ctx.require(isinstance(out, tuple) and len(out) == 3 and callable(out[0]) and callable(out[1]),
                "setup-returns-handle-pair-and-bound", type(out).__name__)
    return out


def _handle_body(ctx, case):
    name, p = case["loss"], case["param"]
    fh, gh, lb = _setup(ctx, name, p)
    ctx.check(float(lb) == H.LOSSES[name]["lb"], "lower-bound-is-domain-boundary", f"{lb}")
    x = np.array(case["x"], dtype=float)
    m = np.array(case["m"], dtype=float)
    if case["form"] == "matrix":
        x, m = x.reshape(1, -1), m.reshape(1, -1)
    elif case["form"] == "scalar":
        x, m = x[:1].reshape(()), m[:1].reshape(())
    xf = x  # float64 image of the data
    x = H.typed(xf, case.get("xdtype"))
    if x.dtype == np.bool_ and not np.all(np.isin(xf, [0, 1])):
        x = xf
    x0, m0 = x.copy(), m.copy()
    ctx.label("form-" + case["form"], "x-dtype-" + str(x.dtype), "param-" + type(p).__name__)
    for xv in np.ravel(x):
        ctx.label(H.data_class(float(xv)))
    for mv in np.ravel(m):
        ctx.label("m=0" if mv == 0 else ("m<0" if mv < 0 else "m>0"))
    ctx.nt = bool(np.any((np.ravel(x) != 0) & (np.ravel(m) != 0)))
    with ctx.sut("function_handle"):
        f = fh(x, m)
    with ctx.sut("gradient_handle"):
        g = gh(x, m)
    ctx.check(np.array_equal(x, x0) and x.dtype == x0.dtype and np.array_equal(m, m0), "handles-leave-arguments")
    f, g = np.asarray(f), np.asarray(g)
    ctx.require(f.shape == x.shape and g.shape == x.shape, "handle-result-shape", f"{f.shape} {g.shape} vs {x.shape}")
    ctx.require(bool(np.all(np.isfinite(f)) and np.all(np.isfinite(g))), "handle-finite-on-domain", f"{f} {g}")
    sg = H.scale_g(name, xf, m, p)
    if x.dtype != np.float64:
        # the same data values held in float64 must give the same loss and gradient values
        with ctx.sut("handles-on-float64-image"):
            ff, gf = np.asarray(fh(xf, m)), np.asarray(gh(xf, m))
        ctx.check(H.within(f, ff, 16 * EPS * H.scale_f(name, xf, m, p) + 1e-300), "loss-independent-of-data-dtype",
                  f"{x.dtype}: {H.worst(f, ff, 16 * EPS * H.scale_f(name, xf, m, p))}")
        ctx.check(H.within(g, gf, 16 * EPS * sg + 1e-300), "gradient-independent-of-data-dtype",
                  f"{x.dtype}: {H.worst(g, gf, 16 * EPS * sg)}")
        ctx.require(ff.shape == x.shape and gf.shape == x.shape and bool(np.all(np.isfinite(ff)) and np.all(np.isfinite(gf))),
                    "handle-finite-on-domain", f"{ff} {gf}")
        f, g = ff, gf  # the derivative property is then judged on the float64 image
    if H.LOSSES[name]["param"] is not None and case.get("other_param") is not None:
        # a handle pair obtained earlier keeps its own parameter when setup is called again with another one
        with ctx.sut("function_handle"):
            fh_first, gh_first = fh(xf, m), gh(xf, m)
        p2 = case["other_param"]
        fh2, gh2, _ = _setup(ctx, name, p2)
        with ctx.sut("function_handle"):
            f2 = np.asarray(fh2(xf, m))
        ctx.check(H.within(f2, H.param_loss(name, xf, m, p2), 64 * EPS * H.scale_f(name, xf, m, p2) + 1e-300),
                  "each-setup-carries-its-own-parameter", f"p={p!r} then p={p2!r}")
        with ctx.sut("function_handle"):
            f_again, g_again = np.asarray(fh(xf, m)), np.asarray(gh(xf, m))
        ctx.check(np.array_equal(f_again, np.asarray(fh_first)) and np.array_equal(g_again, np.asarray(gh_first)),
                  "handles-keep-their-parameter-after-a-later-setup")
    x = xf  # the derivative oracle below works on the float64 image
    if name == "huber":
        t = p
        h = np.full(m.shape, 1e-3 * t)
        with ctx.sut("function_handle-shifted"):
            d = H.richardson(lambda mm: fh(xf, mm), m, h)
        a = np.abs(x) + np.abs(m) + t
        ef = 16 * EPS * a * (2 * a)  # |f| <= a^2, df/d(x-m) <= 2a, rounding of x-m <= eps*a
        tol = 8 * ef / h + 64 * EPS * sg
    else:
        with ctx.sut("function_handle-complex"):
            d = H.complex_step(fh, x, m)
        tol = 64 * EPS * sg + 1e-300
    d = np.asarray(d, dtype=float)
    xr, gr, dr, tr, mr = np.ravel(x), np.ravel(g), np.ravel(d), np.ravel(tol), np.ravel(m)
    for i in range(xr.size):
        ok = abs(gr[i] - dr[i]) <= tr[i]
        ctx.check(ok, f"gradient-is-derivative[{H.data_class(float(xr[i]))}]",
                  f"x={xr[i]!r} m={mr[i]!r} p={p!r}: gradient_handle {gr[i]!r} vs d/dm function_handle {dr[i]!r} (tol {tr[i]:.3g})")
    # vectorised evaluation = element-wise evaluation
    if x.size > 1:
        with ctx.sut("handles-elementwise"):
            fe = np.array([float(fh(np.array(a_), np.array(b_))) for a_, b_ in zip(xr, mr)])
            ge = np.array([float(gh(np.array(a_), np.array(b_))) for a_, b_ in zip(xr, mr)])
        # (the vectorised and the scalar code paths of numpy's pow/log/exp may differ in the last bits)
        ctx.check(H.within(fe, np.ravel(f), 16 * EPS * np.ravel(H.scale_f(name, x, m, p)) + 1e-300)
                  and H.within(ge, np.ravel(g), 16 * EPS * np.ravel(sg) + 1e-300), "handles-are-elementwise")


for _name in H.LOSS_NAMES:
    cell(f"C12/handle/{_name}", strategy=_handle_strategy(_name), quick=400, thorough=10000, shards=(1, 2))(_handle_body)


# --------------------------------------------------------------------------
# (b) fg.evaluate
# --------------------------------------------------------------------------


@st.composite
def _evaluate_case(draw, tier, holders):
    c = draw(H.problem(tier, holders=holders))
    r = c["rank"]
    dv = st.one_of(st.integers(-2, 2).map(float), H.sfloats(0.01, 1.0))
    c["dirs"] = [draw(st.lists(st.lists(dv, min_size=r, max_size=r), min_size=n, max_size=n)) for n in c["shape"]]
    # afterwards the operands are changed in place and the evaluation is repeated on the same objects
    c["edit"] = draw(st.sampled_from([None, None, None, "data", "model", "both"]))
    c["edit_pos"] = draw(st.integers(0, 10**6))
    c["edit_val"] = draw(st.sampled_from([0.5, 1.0, 2.0, 3.0]))
    return c


def _labels(ctx, case, X):
    shape = case["shape"]
    ctx.label("loss-" + case["loss"], *gen.shape_classes(shape), f"rank{case['rank']}", "w-" + case["wkind"])
    const = bool(np.all(X == X.flat[0])) if X.size else True
    ctx.nt = len(shape) >= 3 and case["rank"] >= 2 and not const
    if any(0.0 in row for f in case["factors"] for row in f):
        ctx.label("factor-has-zero")
    ctx.label(H.factor_class(case))
    if case.get("mscale") and any(e for _, _, e in case["mscale"]):
        ctx.label("columns-scaled-2^" + str(max(e for _, _, e in case["mscale"])))


def _sum_tol(w, vals, tol_entry):
    """tolerance of a weighted sum of n entry values"""
    n = max(1, vals.size)
    aw = np.abs(w) if w is not None else 1.0
    return float(np.sum(aw * tol_entry) + 64 * n * EPS * np.sum(aw * np.abs(vals))) + 1e-300


def _grad_refs(A, Yg, tolY, w, N, R):
    """reference gradients einsum(w*g, other factors) and entry-wise tolerances"""
    Yw = Yg if w is None else Yg * w
    tw = tolY if w is None else tolY * np.abs(w)
    absA = [np.abs(a) for a in A]
    out = []
    for k in range(N):
        Gk = H.mttkrp_ref(Yw, A, k)
        n = max(1, ref.prod(Yw.shape) // max(1, Yw.shape[k]))
        tk = H.mttkrp_ref(tw + 64 * (n + R + N) * EPS * np.abs(Yw), absA, k)
        out.append((Gk, tk + 1e-300))
    return out


def _model_labels(ctx, case, model, lam):
    ctx.label("model-" + case.get("mprov", "ctor"), "model-weights-unit" if np.all(lam == 1) else (
        "model-weights-near-one" if np.all(np.abs(lam - 1) <= 1e-4) else "model-weights-nonunit"))
    if any(not f.flags["F_CONTIGUOUS"] for f in model.factor_matrices if f.ndim == 2 and min(f.shape) > 1):
        ctx.label("model-has-C-ordered-factor")


def _data_labels(ctx, data):
    if isinstance(data, ttb.sptensor):
        ctx.label("data-dtype-" + str(data.vals.dtype))
        if not all(type(n) is int for n in data.shape):
            ctx.label("data-shape-holds-numpy-ints")
        if data.vals.size and np.any(data.vals == 0):
            ctx.label("data-stores-explicit-zero")
    else:
        ctx.label("data-dtype-" + str(data.data.dtype))
        if gen.is_grown(data):
            ctx.label("data-buffer-not-F-ordered")


def _evaluate_body(ctx, case):
    try:
        _evaluate_main(ctx, case)
    finally:
        ops = ctx.notes.pop("operands", None)
    if ops is not None:
        _edit_phase(ctx, case, *ops)


def _evaluate_main(ctx, case):
    case = H.expand_large(case)
    if case.get("large"):
        ctx.label("large-60000-cells", f"fill={case['fill']}", f"weights-density={case['wdensity'] if case['wkind'].startswith('sparse') else '-'}")
    name, p = case["loss"], case["param"]
    fh, gh, lb = _setup(ctx, name, p)
    model = H.build_model(case)
    lam, A = H.read_model(model)  # the model as it stands (after the operations that produced it)
    unit = bool(np.all(lam == 1))
    N, R = len(A), case["rank"]
    Aw = A if unit else H.absorb(lam, A)
    M = H.kruskal_c(Aw)
    dM = H.model_rounding(Aw) * (1 if unit else 2)
    X = H.data_array(case, M)
    _labels(ctx, case, X)
    ctx.label("holder-" + case["holder"])
    _model_labels(ctx, case, model, lam)
    data = H.build_data(case, X)
    _data_labels(ctx, data)
    w_arr = H.weight_array(case)
    w = None if w_arr is None else w_arr.astype(float)
    if w_arr is not None:
        ctx.label("weights-" + str(w_arr.dtype) + ("-F" if w_arr.flags["F_CONTIGUOUS"] and not w_arr.flags["C_CONTIGUOUS"]
                                                  else ("-C" if not w_arr.flags["F_CONTIGUOUS"] else "-CF")))
    w_in = None if w_arr is None else w_arr.copy(order="K")
    data_before = ref.den(data).copy()

    with ctx.sut("fg.evaluate"):
        out = fg.evaluate(model, data, w_in, fh, gh)
    ctx.require(isinstance(out, tuple) and len(out) == 2, "evaluate-returns-F-and-G", type(out).__name__)
    F, G = out
    ctx.require(isinstance(F, (float, np.floating)) and isinstance(G, list) and len(G) == N
                and all(isinstance(g, np.ndarray) and g.shape == a.shape for g, a in zip(G, A)),
                "evaluate-result-types-and-shapes")
    # operands untouched
    ctx.check(w_arr is None or (np.array_equal(w_in, w_arr) and w_in.dtype == w_arr.dtype), "evaluate-leaves-weights")
    ctx.check(np.array_equal(ref.den(data), data_before), "evaluate-leaves-data")
    lam2, A2 = H.read_model(model)
    ctx.check(len(A2) == N and all(a.shape == b.shape and np.array_equal(a, b) for a, b in zip(A2, A))
              and np.array_equal(lam2, lam), "evaluate-leaves-model")

    pr = H.PointwiseRef(name, p, fh, gh, X, M, dM)
    # --- objective = weighted sum of the loss over all entries
    Yf = pr.f if w is None else pr.f * w
    F_ref = float(np.sum(Yf))
    tolF = _sum_tol(w, pr.f, pr.tol_f)
    ctx.check(abs(F - F_ref) <= tolF, "objective-is-weighted-sum-of-loss", f"{F!r} vs {F_ref!r} tol {tolF:.3g}")
    with ctx.sut("fg.evaluate-function-only"):
        F1 = fg.evaluate(model, data, None if w_arr is None else w_arr.copy(order="K"), fh, None)
    ctx.check(isinstance(F1, (float, np.floating)) and F1 == F, "function-only-call-agrees")
    # --- what evaluate handed back is the caller's: writing into it changes neither operand nor a later evaluation
    G_kept = [g.copy() for g in G]
    for g in G:
        g[...] = 7.25
    lam3, A3 = H.read_model(model)
    ctx.check(all(np.array_equal(a, b) for a, b in zip(A3, A)) and np.array_equal(lam3, lam) and np.array_equal(ref.den(data), data_before),
              "writing-into-returned-gradients-leaves-operands")
    G = G_kept
    ctx.notes["operands"] = (model, data, w_arr, w, fh, gh, name, p, unit)  # (for the edit phase, run last)
    if not unit:
        # (the factor-matrix gradients are specified for unit-weight models only, see ASSUMPTIONS)
        return
    # --- gradients = MTTKRP of the weighted element-wise derivative
    refs = _grad_refs(A, pr.g, pr.tol_g, w, N, R)
    for k, (Gk, tk) in enumerate(refs):
        ctx.check(H.within(G[k], Gk, tk), "gradient-is-mttkrp-of-elementwise-derivative",
                  f"mode {k} of {case['shape']}: {H.worst(G[k], Gk, tk)}")
    # --- gradients = partial derivatives of the objective (recomputed from function_handle only)
    if any(np.any((a != 0) & (np.abs(a) < 1e-180)) for a in A):
        # (my complex step of 1e-30 times an entry of 1e-300 underflows: the directional derivative is not recomputed
        #  for such models; the clause above judges their gradients)
        ctx.label("no-complex-step-for-tiny-entries")
        V = None
    else:
        # directions on the scale of the columns they perturb (exact powers of two), so that the model moves by O(1)
        V = [H.scaled_direction(np.array(d, dtype=float).reshape(a.shape), A, k) for k, (d, a) in enumerate(zip(case["dirs"], A))]
    aw = 1.0 if w is None else np.abs(w)
    for k in range(N if V is not None else 0):
        Ak_dir = list(A)
        Ak_dir[k] = V[k]
        dMk = H.kruskal_c(Ak_dir)  # derivative of the model entries along V[k]
        absdir = [np.abs(a) for a in A]
        absdir[k] = np.abs(V[k])
        dMabs = H.kruskal_c(absdir)
        got = float(np.sum(G[k] * V[k]))
        if name == "huber":
            # central differences of my objective along A_k + s V_k; no entry may cross the kink
            D = np.abs(X - M)
            gap = np.min(np.abs(D - p)) if D.size else p
            hmax = 0.25 * gap / (1.0 + (float(np.max(dMabs)) if dMabs.size else 0.0))
            h = min(1e-3 * p, hmax)

            def obj(s):
                Ms = M + s * dMk
                Y = fh(X, Ms)
                return float(np.sum(Y if w is None else Y * w))

            with ctx.sut("function_handle-shifted"):
                want = float(H.richardson(obj, 0.0, h))
            a = np.abs(X) + np.abs(M) + p
            ef = float(np.sum(aw * (16 * EPS * a * 2 * a))) * (1 + 64 * X.size * EPS)
            tol = 8 * ef / h + float(np.sum(refs[k][1] * np.abs(V[k])))
        else:
            Ac = [a.astype(complex) for a in A]
            Ac[k] = A[k] + 1j * H.CS_H * V[k]
            with ctx.sut("function_handle-complex"):
                Yc = fh(X, H.kruskal_c(Ac))
            want = float(np.sum(np.imag(Yc) if w is None else np.imag(Yc) * w) / H.CS_H)
            tol = float(np.sum(refs[k][1] * np.abs(V[k]))) + float(
                np.sum(aw * (pr.tol_g + 64 * (X.size + N + R) * EPS * H.scale_g(name, X, M, p)) * dMabs))
        ctx.check(abs(got - want) <= tol + 1e-300, "gradient-is-derivative-of-objective",
                  f"mode {k}: <G,V>={got!r} vs dF/ds={want!r} tol {tol:.3g}")
    # --- single-output calls agree with the joint call
    with ctx.sut("fg.evaluate-gradient-only"):
        G1 = fg.evaluate(model, data, None if w_arr is None else w_arr.copy(order="K"), None, gh)
    ctx.check(isinstance(G1, list) and len(G1) == N and all(np.array_equal(a, b) for a, b in zip(G1, G)),
              "gradient-only-call-agrees")
    # --- the domain check of setup accepts this data (only asserted for data pyttb documents as valid:
    #     strictly positive entries for the 'non-negative' losses)
    stores_zero = isinstance(data, ttb.sptensor) and data.vals.size and bool(np.any(data.vals == 0))
    if stores_zero:
        # (setup's domain check looks at the stored values only; whether a stored 0 passes it is not part of C12)
        return
    if not (H.LOSSES[name]["data"] == "nonneg" or name == "negative_binomial") or bool(np.all(X > 0)):
        with ctx.sut("fg_setup.setup-with-data"):
            fg_setup.setup(H.objective(name), data, p)


def _edit_phase(ctx, case, model, data, w_arr, w, fh, gh, name, p, unit):
    """the operands are edited in place - data by item assignment, the model by ktensor.update - and the SAME objects
    are evaluated again: objective and gradients must be those of the operands as they stand now"""
    edit = case.get("edit")
    if not edit or name == "huber" or case.get("large"):  # (Huber data is tied to the model values: kink margin)
        return
    shape = tuple(case["shape"])
    try:
        if edit in ("data", "both"):
            X0 = ref.den(data)
            sub = tuple(int(i) for i in np.unravel_index(case["edit_pos"] % X0.size, shape, order="F"))
            old_v = float(X0[sub])
            new_v = 1.0 - old_v if H.LOSSES[name]["data"] == "binary" else old_v + 1.0
            data[sub] = new_v
            want = X0.copy()
            want[sub] = new_v
            if not np.array_equal(ref.den(data), want):
                ctx.skip("item assignment did not produce the wanted data")
        if edit in ("model", "both"):
            lam0, A0 = H.read_model(model)
            k = case["edit_pos"] % len(A0)
            B = A0[k].copy()
            i, r = (case["edit_pos"] // 7) % B.shape[0], (case["edit_pos"] // 3) % B.shape[1]
            # (the new entry is on the scale of the column it is written into: exact power of two)
            v = float(case["edit_val"])
            if not any(np.any((a != 0) & (np.abs(a) < 1e-180)) for a in A0):  # (never a huge entry next to tiny ones)
                v = float(H.scaled_direction(np.full((1, B.shape[1]), v), A0, k)[0, r])
            B[i, r] = v if B[i, r] != v else 2.0 * v
            model.update([k], B.flatten(order="F"))
            lam1, A1 = H.read_model(model)
            if not (np.array_equal(A1[k], B) and all(np.array_equal(a, b) for j, (a, b) in enumerate(zip(A1, A0)) if j != k)
                    and np.array_equal(lam1, lam0)):
                ctx.skip("ktensor.update did not produce the wanted model")
    except (AssertionError, ValueError, IndexError, TypeError):  # (the editing operations are judged by other properties)
        ctx.skip("editing operation raised")
    ctx.label("edited-in-place-" + edit)
    lam, A = H.read_model(model)
    N, R = len(A), len(lam)
    Aw = A if unit else H.absorb(lam, A)
    M = H.kruskal_c(Aw)
    dM = H.model_rounding(Aw) * (1 if unit else 2)
    X = ref.den(data)
    with ctx.sut("fg.evaluate-after-in-place-edit"):
        out = fg.evaluate(model, data, None if w_arr is None else w_arr.copy(order="K"), fh, gh)
    ctx.require(isinstance(out, tuple) and len(out) == 2 and isinstance(out[1], list) and len(out[1]) == N
                and all(isinstance(g, np.ndarray) and g.shape == a.shape for g, a in zip(out[1], A)), "evaluate-returns-F-and-G")
    F, G = out
    pr = H.PointwiseRef(name, p, fh, gh, X, M, dM)
    F_ref = float(np.sum(pr.f if w is None else pr.f * w))
    tolF = _sum_tol(w, pr.f, pr.tol_f)
    ctx.check(abs(F - F_ref) <= tolF, "objective-follows-in-place-edit", f"{edit}: {F!r} vs {F_ref!r} tol {tolF:.3g}")
    if unit:
        for k, (Gk, tk) in enumerate(_grad_refs(A, pr.g, pr.tol_g, w, N, R)):
            ctx.check(H.within(G[k], Gk, tk), "gradient-follows-in-place-edit", f"{edit}, mode {k}: {H.worst(G[k], Gk, tk)}")


cell("C12/evaluate/dense", strategy=lambda tier: _evaluate_case(tier, ("dense",)), quick=500, thorough=10000,
     shards=(2, 8))(_evaluate_body)
cell("C12/evaluate/sparse", strategy=lambda tier: _evaluate_case(tier, ("sparse",)), quick=300, thorough=6000,
     shards=(2, 8))(_evaluate_body)
# a few large problems per run: 60000 cells, 1e4..3e4 stored nonzeros, mostly-missing weight arrays
cell("C12/evaluate/large", strategy=lambda tier: H.large_problem(), quick=3, thorough=30, shards=(1, 4))(_evaluate_body)


# --------------------------------------------------------------------------
# (c) tensor.mttkrps == per-mode mttkrp == definition
# --------------------------------------------------------------------------


@st.composite
def _mttkrps_case(draw, tier):
    c = draw(gen.dense_case(tier, min_order=2, max_order=5, max_cells=64 if tier == "quick" else 400))
    r = draw(st.integers(1, 4))
    vk = c["vkind"]
    c["rank"] = r
    c["factors"] = [draw(st.lists(st.lists(gen.values(vk), min_size=r, max_size=r), min_size=n, max_size=n))
                    for n in c["shape"]]
    c["ukind"] = draw(st.sampled_from(["list", "tuple", "ktensor", "ktensor"]))
    if c["ukind"] == "ktensor":
        unit = draw(st.booleans())
        c["uweights"] = [1.0] * r if unit else draw(st.lists(gen.values(vk, nonzero=True), min_size=r, max_size=r))
    else:
        c["uweights"] = [1.0] * r
    # integer-valued operands held in integer arrays, also mixed with float ones (a ktensor holds float factors)
    c["tdtype"] = draw(st.sampled_from(["float64", "float64", "int64", "int32", "uint8"])) if vk == "int" else "float64"
    c["udtype"] = (draw(st.sampled_from(["float64", "int64", "int32"]))
                   if vk == "int" and c["ukind"] != "ktensor" else "float64")
    return c


@cell("C12/mttkrps", strategy=_mttkrps_case, quick=600, thorough=12000, shards=(2, 8))
def mttkrps(ctx, case):
    shape, r = case["shape"], case["rank"]
    N = len(shape)
    A = H.build_factors(case)
    Xa = gen.arr_F(shape, case["data"])
    T = gen.build_tensor(case)
    Xt = H.typed(Xa, case.get("tdtype"))
    if Xt.dtype != np.float64 and not gen.is_grown(T):  # (a grown tensor holds float64 data whatever it started from)
        T = ttb.tensor(Xt.copy(order="F"), tuple(shape))
    lam = np.array(case["uweights"], dtype=float)
    if case["ukind"] == "ktensor":
        U = ttb.ktensor([a.copy() for a in A], lam.copy())
    elif case["ukind"] == "tuple":
        U = tuple(H.typed(a, case.get("udtype")).copy() for a in A)
    else:
        U = [H.typed(a, case.get("udtype")).copy() for a in A]
    ctx.label("tensor-" + str(T.data.dtype), "factors-" + str((U.factor_matrices if case["ukind"] == "ktensor" else U)[0].dtype),
              "tensor-buffer-not-F-ordered" if gen.is_grown(T) else "tensor-buffer-F-ordered")
    unit = bool(np.all(lam == 1))
    ctx.label(*gen.shape_classes(shape), "U-" + case["ukind"], "unit-weights" if unit else "nonunit-weights",
              case["vkind"], f"rank{r}")
    ctx.nt = N >= 3 and r >= 2 and len(set(shape)) >= 2
    with ctx.sut("tensor.mttkrps"):
        V = T.mttkrps(U)
    ctx.require(isinstance(V, list) and len(V) == N and all(isinstance(v, np.ndarray) for v in V),
                "mttkrps-returns-one-matrix-per-mode")
    ctx.check(np.array_equal(ref.den(T), Xa), "mttkrps-leaves-tensor")
    if case["ukind"] == "ktensor":
        ctx.check(all(np.array_equal(a, b) for a, b in zip(U.factor_matrices, A)) and np.array_equal(U.weights, lam),
                  "mttkrps-leaves-factors")
    exact = ref.is_intvalued(Xa, lam, *A)
    absA = [np.abs(a) for a in A]
    for k in range(N):
        want = H.mttkrp_ref(Xa, A, k) * lam[None, :]
        bound = H.mttkrp_ref(np.abs(Xa), absA, k) * np.abs(lam)[None, :]
        n = ref.prod(shape) // shape[k]
        with ctx.sut("tensor.mttkrp"):
            one = T.mttkrp(U, k)
        ctx.require(V[k].shape == (shape[k], r), "mttkrps-shape", f"mode {k}: {V[k].shape}")
        if exact:
            ok_def, ok_one = ref.same_exact(V[k], want), ref.same_exact(V[k], one)
        else:
            ok_def = ref.same_bound(V[k], want, bound, n * N)
            ok_one = ref.same_bound(V[k], one, bound, 2 * n * N)
        ctx.check(ok_one, "mttkrps-equals-per-mode-mttkrp", f"mode {k} of {shape}: {ref.diff_info(V[k], one)}")
        if unit:  # (for a ktensor with non-unit weights only the documented equivalence with mttkrp is asserted)
            ctx.check(ok_def, "mttkrps-equals-definition", f"mode {k} of {shape}: {ref.diff_info(V[k], want)}")


# --------------------------------------------------------------------------
# (d) fg_est.estimate
# --------------------------------------------------------------------------


@st.composite
def _estimate_full_case(draw, tier):
    c = draw(H.problem(tier, holders=("dense",), with_weights=False, max_order=4))
    n = ref.prod(c["shape"])
    c["order"] = list(draw(st.permutations(range(n)))) if draw(st.booleans()) else list(range(n))
    c.update(draw(_sample_forms()))
    return c


@st.composite
def _sample_forms(draw):
    """array forms of a sample: dtype of the values (when integer-valued), of the subscripts, of the sample weights"""
    return dict(vdtype=draw(st.sampled_from(H.DATA_DTYPES[:-1])), sdtype=draw(st.sampled_from(["int64", "int64", "int32", "uint32"])),
                swdtype=draw(st.sampled_from(["float64", "float64", "int64"])))


def _estimate_refs(case, model):
    """the model as it stands before the call, and the reference factor matrices of its unit-weight form"""
    lam, A = H.read_model(model)
    unit = bool(np.all(lam == 1))
    Aref = A if unit else H.normalize0_ref(lam, A)
    return lam, A, unit, Aref


def _check_model_after(ctx, model, lam, A, unit, Aref):
    """what estimate may do to the caller's model: leave it alone (always so for unit weights), or - as the
    lambda check announces - bring it to unit weights; it must denote the same tensor afterwards.  Returns the
    factor matrices the returned gradients refer to."""
    lam2, A2 = H.read_model(model)
    same = len(A2) == len(A) and all(a.shape == b.shape and np.array_equal(a, b) for a, b in zip(A2, A)) and np.array_equal(lam2, lam)
    if unit:
        ctx.check(same, "estimate-leaves-model")
        return A
    if same:
        ctx.label("weighted-model-left-alone")
        return Aref
    ctx.label("weighted-model-normalised-in-place")
    ok = (len(A2) == len(A) and all(a.shape == b.shape for a, b in zip(A2, A)) and bool(np.all(lam2 == 1)))
    if ok:
        M_before = H.kruskal_c(H.absorb(lam, A))
        bound = 64 * (len(A) + len(lam) + 2) * EPS * H.kruskal_c([np.abs(a) for a in H.absorb(lam, A)])
        ok = H.within(H.kruskal_c(A2), M_before, bound + 1e-300)
    ctx.check(ok, "normalised-model-has-unit-weights-and-denotes-the-same-tensor")
    return A2 if ok else Aref


@cell("C12/estimate/all-entries", strategy=_estimate_full_case, quick=400, thorough=8000, shards=(2, 8))
def estimate_all(ctx, case):
    """the sampled estimator on every subscript (any order) with unit weights equals the exact evaluation"""
    name, p = case["loss"], case["param"]
    fh, gh, lb = _setup(ctx, name, p)
    model = H.build_model(case)
    lam, A, unit, Aref = _estimate_refs(case, model)
    N, R = len(A), case["rank"]
    Aw = A if unit else H.absorb(lam, A)
    M = H.kruskal_c(Aw)
    dM = H.model_rounding(Aw) * (1 if unit else 4)
    X = H.data_array(case, M)
    _labels(ctx, case, X)
    _model_labels(ctx, case, model, lam)
    ctx.label("order-identity" if case["order"] == sorted(case["order"]) else "order-permuted")
    allsubs = ref.all_subs_F(case["shape"])
    subs = np.array([allsubs[i] for i in case["order"]], dtype=case.get("sdtype", "int64")).reshape(len(case["order"]), N)
    vals = H.typed([X[tuple(s)] for s in subs], case.get("vdtype"))
    wts = np.ones(len(subs), dtype=case.get("swdtype", "float64"))
    ctx.label("vals-" + str(vals.dtype), "subs-" + str(subs.dtype), "sample-weights-" + str(wts.dtype))
    subs0, vals0, wts0 = subs.copy(), vals.copy(), wts.copy()
    ev_model = model.copy()  # (for the exact evaluation below)
    with ctx.sut("fg_est.estimate"):
        out = fg_est.estimate(model, subs, vals, wts, fh, gh)
    ctx.require(isinstance(out, tuple) and len(out) == 2, "estimate-returns-F-and-G")
    Fe, Ge = out
    ctx.require(np.ndim(Fe) == 0 and isinstance(Ge, list) and len(Ge) == N
                and all(isinstance(g, np.ndarray) and g.shape == a.shape for g, a in zip(Ge, A)),
                "estimate-result-types-and-shapes")
    ctx.check(np.array_equal(subs, subs0) and np.array_equal(vals, vals0) and np.array_equal(wts, wts0)
              and vals.dtype == vals0.dtype, "estimate-leaves-samples")
    Ag = _check_model_after(ctx, model, lam, A, unit, Aref)
    with ctx.sut("fg.evaluate"):
        Fx, Gx = fg.evaluate(ev_model, ttb.tensor(X.copy(order="F"), tuple(case["shape"])), None, fh, gh)
    pr = H.PointwiseRef(name, p, fh, gh, X, M, dM)
    tolF = _sum_tol(None, pr.f, pr.tol_f)
    ctx.check(abs(float(Fe) - float(Fx)) <= 2 * tolF, "estimate-on-all-entries-equals-evaluate[F]",
              f"{Fe!r} vs {Fx!r} tol {2 * tolF:.3g}")
    ctx.check(abs(float(Fe) - float(np.sum(pr.f))) <= tolF, "estimate-objective-is-definition",
              f"{Fe!r} vs {float(np.sum(pr.f))!r} tol {tolF:.3g}")
    refs = _grad_refs(Ag, pr.g, pr.tol_g, None, N, R)
    for k, (Gk, tk) in enumerate(refs):
        if unit:  # (the exact evaluation specifies gradients for unit-weight models only)
            ctx.check(H.within(Ge[k], Gx[k], 2 * tk), "estimate-on-all-entries-equals-evaluate[G]",
                      f"mode {k} of {case['shape']}: {H.worst(Ge[k], Gx[k], 2 * tk)}")
        ctx.check(H.within(Ge[k], Gk, tk * (1 if unit else 4)), "estimate-gradient-is-definition",
                  f"mode {k} of {case['shape']}: {H.worst(Ge[k], Gk, tk)}")


@st.composite
def _estimate_samples_case(draw, tier):
    name = draw(st.sampled_from(H.LOSS_NAMES))
    p = draw(H.param_strategy(name))
    shape = draw(H.model_shape(tier, max_order=4))
    rank = draw(st.integers(1, 4))
    factors = draw(H.factors_for(name, shape, rank))
    ncells = ref.prod(shape)
    size = draw(st.sampled_from(["empty"] + ["one"] * 2 + ["few"] * 5 + ["many"] * 4))
    ns = {"empty": 0, "one": 1}.get(size)
    if ns is None:
        ns = draw(st.integers(2, max(2, ncells))) if size == "few" else draw(st.integers(ncells, 3 * ncells))
    idx = draw(st.lists(st.integers(0, ncells - 1), min_size=ns, max_size=ns))  # with repeats
    c = dict(loss=name, param=p, shape=shape, rank=rank, factors=factors, size=size)
    allsubs = ref.all_subs_F(shape)
    c["subs"] = [list(allsubs[i]) for i in idx]
    if name == "huber":
        c["offsets"] = draw(st.lists(H.huber_ratio(), min_size=ns, max_size=ns))
        c["vals"] = None
    else:
        c["vals"] = draw(st.lists(H.data_value(H.LOSSES[name]["data"], small=True), min_size=ns, max_size=ns))
    c["sweights"] = draw(st.lists(st.one_of(st.just(1.0), st.floats(0.1, 50.0)), min_size=ns, max_size=ns))
    ck = draw(st.sampled_from(["none", "empty", "prefix"]))
    if name == "huber":
        ck = draw(st.sampled_from(["none", "empty"]))  # the correction evaluates the loss at data 0: may hit the kink
    c["crng"] = None if ck == "none" else ([] if ck == "empty" else list(range(draw(st.integers(0, ns)))))
    c["outputs"] = draw(st.sampled_from(["both", "both", "F", "G"]))
    # the model: unit weights with the check off or on, or - with the (default) lambda check on - a weighted model,
    # which estimate documents it brings to unit weights
    c["lambda_check"] = draw(st.sampled_from(["default", True, False]))
    c.update(draw(H.model_state(name, shape, rank, allow_weighted=c["lambda_check"] is not False)))
    c.update(draw(_sample_forms()))
    return c


@cell("C12/estimate/samples", strategy=_estimate_samples_case, quick=500, thorough=10000, shards=(2, 8))
def estimate_samples(ctx, case):
    """arbitrary sample multisets, weights and correction range against a per-sample loop"""
    case = H.expand_large_samples(case)
    name, p = case["loss"], case["param"]
    fh, gh, lb = _setup(ctx, name, p)
    model = H.build_model(case)
    lam, A, unit, Aref = _estimate_refs(case, model)
    N, R = len(A), case["rank"]
    shape = case["shape"]
    ns = len(case["subs"])
    subs = np.array(case["subs"], dtype=case.get("sdtype", "int64")).reshape(ns, N)
    isubs = subs.astype(int)

    def rows_of(F):
        return [F[k][isubs[:, k], :] for k in range(N)]  # ns x R each

    rows_w = rows_of(A if unit else H.absorb(lam, A))
    mv = np.sum(np.prod(np.stack(rows_w, axis=0), axis=0), axis=1) if ns else np.zeros(0)
    dmv = (8 if unit else 32) * (N + R) * EPS * np.sum(np.prod(np.abs(np.stack(rows_w, axis=0)), axis=0), axis=1) if ns else np.zeros(0)
    if name == "huber":
        vals = mv + np.array([s_ * r for s_, r in case["offsets"]], dtype=float).reshape(ns) * p
    else:
        vals = np.array(case["vals"], dtype=float).reshape(ns)
    wts = np.array(case["sweights"], dtype=float).reshape(ns)
    crng = None if case["crng"] is None else np.array(case["crng"], dtype=int)
    lc = case.get("lambda_check", False)
    ctx.label("loss-" + name, "samples-" + case["size"], *gen.shape_classes(shape),
              "crng-" + ("none" if crng is None else ("empty" if crng.size == 0 else "prefix")), "out-" + case["outputs"],
              f"lambda_check-{lc}")
    _model_labels(ctx, case, model, lam)
    ctx.label(H.factor_class(case))
    if case.get("mscale") and any(e for _, _, e in case["mscale"]):
        ctx.label("columns-scaled-2^" + str(max(e for _, _, e in case["mscale"])))
    if ns and len({tuple(s) for s in case["subs"]}) < ns:
        ctx.label("repeated-subscripts")
    ctx.nt = N >= 3 and R >= 2 and ns >= 2 and len(set(case["vals"] or [0, 1])) >= 2
    want_f = case["outputs"] in ("both", "F")
    want_g = case["outputs"] in ("both", "G")
    a_subs = subs.copy()
    a_vals = H.typed(vals, case.get("vdtype"))
    a_wts = H.typed(wts, case.get("swdtype")) if case.get("swdtype") == "int64" else wts.copy()
    ctx.label("vals-" + str(a_vals.dtype), "subs-" + str(a_subs.dtype), "sample-weights-" + str(a_wts.dtype))
    vals_in, wts_in = a_vals.copy(), a_wts.copy()
    a_crng = None if crng is None else crng.copy()
    with ctx.sut("fg_est.estimate"):
        if lc == "default":
            if a_crng is None:
                out = fg_est.estimate(model, a_subs, a_vals, a_wts, fh if want_f else None, gh if want_g else None)
            else:
                out = fg_est.estimate(model, a_subs, a_vals, a_wts, fh if want_f else None, gh if want_g else None,
                                      crng=a_crng)
        else:
            out = fg_est.estimate(model, a_subs, a_vals, a_wts, fh if want_f else None, gh if want_g else None,
                                  lc, a_crng)
    if want_f and want_g:
        ctx.require(isinstance(out, tuple) and len(out) == 2, "estimate-returns-F-and-G")
        Fe, Ge = out
    elif want_f:
        Fe, Ge = out, None
    else:
        Fe, Ge = None, out
    ctx.check(np.array_equal(a_subs, subs) and np.array_equal(a_vals, vals_in) and a_vals.dtype == vals_in.dtype
              and np.array_equal(a_wts, wts_in) and (crng is None or np.array_equal(a_crng, crng)), "estimate-leaves-samples")
    Ag = _check_model_after(ctx, model, lam, A, unit, Aref)
    rows = rows_of(Ag)
    slack = 1 if unit else 4
    inc = np.zeros(ns, dtype=bool)
    if crng is not None and crng.size:
        inc[crng] = True
    zero = np.zeros(ns)
    if want_f:
        ctx.require(np.ndim(Fe) == 0, "estimate-objective-is-scalar", type(Fe).__name__)
        pf = H.PointwiseRef(name, p, fh, None, vals, mv, dmv)
        y, ty = pf.f.copy(), pf.tol_f.copy()
        if inc.any():
            pz = H.PointwiseRef(name, p, fh, None, zero, mv, dmv)
            y = y - inc * pz.f
            ty = ty + inc * (pz.tol_f + 4 * EPS * (np.abs(pf.f) + np.abs(pz.f)))
        F_ref = float(np.sum(wts * y))
        tolF = float(np.sum(wts * ty) + 64 * max(1, ns) * EPS * np.sum(wts * (np.abs(pf.f) + (inc * np.abs(pz.f) if inc.any() else 0)))) + 1e-300
        ctx.check(abs(float(Fe) - F_ref) <= tolF, "estimate-objective-is-weighted-sample-sum",
                  f"{Fe!r} vs {F_ref!r} tol {tolF:.3g}")
    if want_g:
        ctx.require(isinstance(Ge, list) and len(Ge) == N and all(
            isinstance(g, np.ndarray) and g.shape == a.shape for g, a in zip(Ge, A)), "estimate-gradient-shapes",
            [getattr(g, "shape", None) for g in Ge] if isinstance(Ge, list) else type(Ge).__name__)
        pg = H.PointwiseRef(name, p, None, gh, vals, mv, dmv)
        y, ty = pg.g.copy(), pg.tol_g.copy()
        if inc.any():
            pz = H.PointwiseRef(name, p, None, gh, zero, mv, dmv)
            y = y - inc * pz.g
            ty = ty + inc * (pz.tol_g + 4 * EPS * (np.abs(pg.g) + np.abs(pz.g)))
            ay = np.abs(pg.g) + inc * np.abs(pz.g)
        else:
            ay = np.abs(pg.g)
        for k in range(N):
            others = [rows[j] for j in range(N) if j != k]
            Z = np.prod(np.stack(others, axis=0), axis=0) if ns else np.zeros((0, R))
            Gk = np.zeros(A[k].shape)
            Tk = np.zeros(A[k].shape)
            if ns:  # per-sample accumulation in sample order (unbuffered, repeats add up): no sparse matrix
                np.add.at(Gk, isubs[:, k], (wts * y)[:, None] * Z)
                np.add.at(Tk, isubs[:, k], (wts * (ty + slack * 64 * (ns + N) * EPS * ay))[:, None] * np.abs(Z))
            ctx.check(H.within(Ge[k], Gk, Tk + 1e-300), "estimate-gradient-is-weighted-sample-sum",
                      f"mode {k} of {shape}: {H.worst(Ge[k], Gk, Tk)}")


cell("C12/estimate/large", strategy=lambda tier: H.large_samples(), quick=3, thorough=30, shards=(1, 4))(estimate_samples)
