"""Helpers for C08 (Kruskal re-parameterisations): NumPy-only reference computations and case builders."""

from __future__ import annotations

import numpy as np
from hypothesis import strategies as st

import pyttb as ttb

from .. import gen, ref

NORMS = {"1": 1, "2": 2, "inf": np.inf}


def fms_of(case):
    """Factor matrices of a ktensor case dict as fresh float arrays."""
    return [np.array(f, dtype=float).reshape(n, case["rank"]) for f, n in zip(case["factors"], case["shape"])]


def w_of(case):
    return np.array(case["weights"], dtype=float)


def den_case(case):
    return ref.den_kruskal(w_of(case), fms_of(case))


def bound_case(case):
    return ref.abs_kruskal(w_of(case), fms_of(case))


def colnorms(F, ord_):
    F = np.asarray(F, dtype=float)
    return np.array([np.linalg.norm(F[:, r], ord=ord_) for r in range(F.shape[1])])


def kt_ok(K, shape, rank=None):
    """Structural sanity of a returned ktensor (list of problems)."""
    out = []
    w = getattr(K, "weights", None)
    f = getattr(K, "factor_matrices", None)
    if not isinstance(w, np.ndarray) or w.ndim != 1:
        return [f"weights-not-1d-array:{type(w).__name__}:{getattr(w, 'shape', None)}"]
    if not isinstance(f, (list, tuple)) or len(f) != len(shape):
        return [f"factor-list-length:{None if f is None else len(f)}"]
    r = len(w) if rank is None else rank
    if len(w) != r:
        out.append(f"weights-length-{len(w)}-vs-{r}")
    for k, (F, n) in enumerate(zip(f, shape)):
        if not isinstance(F, np.ndarray) or F.shape != (n, r):
            out.append(f"factor-{k}-shape-{getattr(F, 'shape', None)}-vs-{(n, r)}")
    return out


def sign_scores(Af, wa, Bf, wb):
    """Per component r < RB and mode n: cosine between the columns as `normalize()` leaves them.

    `normalize()` (2-norm) divides every column by its norm and, when the resulting weight is negative, negates the
    mode-0 column.  Returns (scores[N, RB], exact_zero[N, RB]) where exact_zero marks scores that are zero because
    a column is entirely zero (no rounding ambiguity)."""
    N = len(Af)
    RB = Bf[0].shape[1]
    S = np.zeros((N, RB))
    Z = np.zeros((N, RB), dtype=bool)

    def flips(F, w, r):
        norms = [np.linalg.norm(G[:, r]) for G in F]
        return bool(w[r] < 0 and all(x > 0 for x in norms))

    for r in range(RB):
        fa, fb = flips(Af, wa, r), flips(Bf, wb, r)
        for n in range(N):
            a, b = Af[n][:, r], Bf[n][:, r]
            na, nb = np.linalg.norm(a), np.linalg.norm(b)
            if na == 0 or nb == 0:
                Z[n, r] = True
                continue
            d = float(a @ b) / (na * nb)
            if n == 0 and (fa != fb):
                d = -d
            S[n, r] = d
    return S, Z


AMBIG = 1e-12


def odd_or_ambiguous(S, Z):
    """True when some component has an odd number of negative scores, or a score whose sign rounding may decide."""
    for r in range(S.shape[1]):
        neg = int(np.sum(S[:, r] < -AMBIG))
        amb = int(np.sum((np.abs(S[:, r]) <= AMBIG) & ~Z[:, r]))
        if neg % 2 == 1 or amb > 0:
            return True
    return False


# ----------------------------------------------------------------------------------------------------------------
# strategies
# ----------------------------------------------------------------------------------------------------------------


PRESERVING = ["ctor", "ctor", "ctor", "sum", "extract", "permute", "ttv"]
CHANGING = ["unit", "unit", "absorbed", "scaled", "balanced", "balanced", "near"]

# round 3, extreme dynamic range: a component whose magnitude sits in the wrong place - one factor column scaled by
# 2**-e and the weight (or another factor's column of the same component) by 2**+e.  Powers of two: the denoted array
# is bit-for-bit that of the well-scaled case.  |e| <= 480 keeps every square of an entry (|x| in [1e-3, 1e3]) and
# every sum of up to six of them inside the normal float64 range, so 2-norms are computable the plain way; the
# exponents beyond (squares under- / overflow) are used by the cell C08/extreme-range only.
BALANCED_EXP = [30, 40, 60, 60, 100, 400, 480, -30, -60, -100, -480]
# round 3, near-special values: relative noise put on exactly unit columns / exactly unit weights
NEAR_DELTA = [1e-14, 1e-12, 1e-10, 1e-8, 1e-6, 1e-5]


@st.composite
def kt(draw, tier, min_order=1, max_order=4, max_rank=4, kinds=("int", "float"), weights="any", shape=None,
       prov="any"):
    """gen.ktensor_case plus an explicit zero-weight / negative-weight / equal-magnitude class so that none is rare,
    plus the provenance of the operand (see ``operand``): prov = 'any' | 'preserving' | None."""
    c = draw(gen.ktensor_case(tier, kinds=kinds, min_order=min_order, max_order=max_order, max_rank=max_rank,
                              shape=shape, weights=weights))
    r = c["rank"]
    if weights == "any":
        cls = draw(st.sampled_from(["asdrawn", "asdrawn", "one-zero", "one-negative", "all-negative", "equal-magnitudes"]))
        if cls == "one-zero":
            c["weights"][draw(st.integers(0, r - 1))] = 0.0
        elif cls == "one-negative":
            k = draw(st.integers(0, r - 1))
            c["weights"][k] = -abs(c["weights"][k]) if c["weights"][k] != 0 else -2.0
        elif cls == "all-negative":
            c["weights"] = [-abs(x) if x != 0 else -3.0 for x in c["weights"]]
        elif cls == "equal-magnitudes":
            # exact ties for every sort by weight: the same magnitude everywhere, signs drawn; half of the time the
            # columns of two components are equal up to sign too, so that the norm products tie as well
            m = abs(c["weights"][0]) or 2.0
            c["weights"] = [m if draw(st.booleans()) else -m for _ in range(r)]
            if r >= 2 and draw(st.booleans()):
                a, b = draw(st.permutations(range(r)))[:2]
                for f in c["factors"]:
                    sg = -1.0 if draw(st.booleans()) else 1.0
                    for row in f:
                        row[b] = sg * row[a]
    if prov is not None:
        c["prov"] = draw(_prov(c, prov))
    return c


def inv(p):
    q = [0] * len(p)
    for i, v in enumerate(p):
        q[v] = i
    return q


@st.composite
def _prov(draw, c, which):
    N, R = len(c["shape"]), c["rank"]
    kind = draw(st.sampled_from(PRESERVING + (CHANGING if which == "any" else [])))
    if kind == "sum" and R >= 2:
        return dict(kind="sum", split=draw(st.integers(1, R - 1)))
    if kind == "extract":
        rbig = R + draw(st.integers(1, 2))
        pos = list(draw(st.permutations(range(rbig))))[:R]
        return dict(kind="extract", rbig=rbig, pos=pos)
    if kind == "permute" and N >= 2:
        return dict(kind="permute", q=list(draw(st.permutations(range(N)))))
    if kind == "ttv":
        nv = draw(st.integers(1, 3))
        return dict(kind="ttv", m=draw(st.integers(0, N)), nv=nv, j=draw(st.integers(0, nv - 1)))
    if kind == "unit":
        return dict(kind="unit", normtype=draw(st.sampled_from(["2", "2", "1", "inf"])),
                    sign=draw(st.sampled_from(["none", "neg", "neg", "times-minus-2"])))
    if kind == "absorbed":
        return dict(kind="absorbed", wf=draw(st.sampled_from(["all"] + list(range(N)))))
    if kind == "scaled":
        return dict(kind="scaled", s=draw(st.sampled_from([1e6, 1e-6, 1e-10, 1e-13, 1e10])),
                    where=draw(st.sampled_from(["weights", "factor"])), k=draw(st.integers(0, N - 1)))
    if kind == "balanced":
        return draw(balanced_prov(N, R, BALANCED_EXP))
    if kind == "near":
        return dict(kind="near", delta=draw(st.sampled_from(NEAR_DELTA)), phase=draw(st.integers(0, 1000)),
                    weights=draw(st.sampled_from(["kept", "near-one", "near-one", "tiny"])),
                    normtype=draw(st.sampled_from(["2", "2", "1", "inf"])))
    return dict(kind="ctor")


@st.composite
def balanced_prov(draw, N, R, exps):
    """one or all components: column r of mode k times 2**-e, balanced by the weight or by mode k2's column"""
    k = draw(st.integers(0, N - 1))
    into = draw(st.sampled_from(["weight", "weight", "factor"])) if N >= 2 else "weight"
    k2 = (k + draw(st.integers(1, N - 1))) % N if into == "factor" else None
    comps = list(range(R)) if draw(st.integers(0, 3)) == 0 else [draw(st.integers(0, R - 1))]
    return dict(kind="balanced", e=draw(st.sampled_from(list(exps))), k=k, k2=k2, comps=comps)


def apply_balanced(F, w, prov):
    """(factors, weights) of the badly balanced but identical Kruskal tensor (exact: powers of two)"""
    F2, w2 = [f.copy() for f in F], w.copy()
    e = prov["e"]
    for r in prov["comps"]:
        F2[prov["k"]][:, r] = F2[prov["k"]][:, r] * 2.0 ** (-e)
        if prov["k2"] is None:
            w2[r] = w2[r] * 2.0 ** e
        else:
            F2[prov["k2"]][:, r] = F2[prov["k2"]][:, r] * 2.0 ** e
    return F2, w2


def noise(n, phase):
    """deterministic pseudo-noise in [-1, 1] (no random number generator: the case fixes it)"""
    return np.cos(phase + 1.7 * np.arange(n) + 0.3 * np.arange(n) ** 2)


def operand(ctx, case):
    """(K, effective case): the Kruskal tensor of the case reached through its provenance (public API only).

    attribute-preserving provenances - the object has exactly the weights / factor matrices of the case but is the
    result of an operation: 'sum' (A + B of two groups of components), 'extract' (components selected from a larger
    tensor), 'permute' (mode permutation of the suitably pre-permuted tensor), 'ttv' (a tensor with one more mode, all
    ones, contracted with a unit vector);
    attribute-changing provenances - the effective case is read back from the object: 'unit' (normalize(): exactly
    unit-norm columns, then optionally negated / multiplied by -2: negative weights on unit columns), 'absorbed'
    (normalize(weight_factor=...): weights all one, C-ordered factor matrices), 'scaled' (weights or one factor times
    1e+6 / 1e-6).
    When the preparing call fails or does not give the expected attributes, the constructor is used (the preparing
    operation is judged in its own cell) and the case is labelled 'prov-fallback'."""
    F, w = fms_of(case), w_of(case)
    R, N = case["rank"], len(case["shape"])
    prov = case.get("prov") or dict(kind="ctor")
    kind = prov["kind"]
    K = None
    changed = False
    try:
        if kind == "sum":
            r1 = prov["split"]
            K = (ttb.ktensor([f[:, :r1].copy() for f in F], w[:r1].copy())
                 + ttb.ktensor([f[:, r1:].copy() for f in F], w[r1:].copy()))
        elif kind == "extract":
            rbig, pos = prov["rbig"], prov["pos"]
            bigF = [np.full((f.shape[0], rbig), 1.5) for f in F]
            bigw = np.full(rbig, -2.5)
            for g, f in zip(bigF, F):
                g[:, pos] = f
            bigw[pos] = w
            K = ttb.ktensor(bigF, bigw).extract(np.array(pos))
        elif kind == "permute":
            iq = inv(prov["q"])
            K = ttb.ktensor([F[iq[j]].copy() for j in range(N)], w.copy()).permute(np.array(prov["q"]))
        elif kind == "ttv":
            m, nv = prov["m"], prov["nv"]
            v = np.zeros(nv)
            v[prov["j"]] = 1.0
            F1 = [f.copy() for f in F[:m]] + [np.ones((nv, R))] + [f.copy() for f in F[m:]]
            K = ttb.ktensor(F1, w.copy()).ttv(v, m)
        elif kind == "unit":
            K = ttb.ktensor([f.copy() for f in F], w.copy()).normalize(normtype=NORMS[prov["normtype"]])
            if prov["sign"] == "neg":
                K = -K
            elif prov["sign"] == "times-minus-2":
                K = K * -2.0
            changed = True
        elif kind == "absorbed":
            K = ttb.ktensor([f.copy() for f in F], w.copy()).normalize(weight_factor=prov["wf"])
            changed = True
        elif kind == "balanced":
            F2, w2 = apply_balanced(F, w, prov)
            K = ttb.ktensor(F2, w2)
            changed = True
        elif kind == "near":
            # exactly unit columns (normalize), then relative noise of size delta on every factor entry; weights kept,
            # or one up to noise, or tiny (1e-10: below every absolute tolerance)
            K0 = ttb.ktensor([f.copy() for f in F], w.copy()).normalize(normtype=NORMS[prov["normtype"]])
            F2 = [np.array(f) * (1.0 + prov["delta"] * noise(f.size, prov["phase"] + i).reshape(f.shape))
                  for i, f in enumerate(K0.factor_matrices)]
            w2 = np.array(K0.weights)
            if prov["weights"] == "near-one":
                w2 = 1.0 + prov["delta"] * noise(R, prov["phase"] + 7)
            elif prov["weights"] == "tiny":
                w2 = w2 * 1e-10
            K = ttb.ktensor(F2, w2)
            changed = True
        elif kind == "scaled":
            F2, w2 = [f.copy() for f in F], w.copy()
            if prov["where"] == "weights":
                w2 = w2 * prov["s"]
            else:
                F2[prov["k"]] = F2[prov["k"]] * prov["s"]
            K = ttb.ktensor(F2, w2)
            changed = True
    except Exception:  # noqa: BLE001
        K = None
    ok = isinstance(K, ttb.ktensor) and not kt_ok(K, case["shape"], R) and all(
        np.all(np.isfinite(f)) for f in K.factor_matrices) and np.all(np.isfinite(K.weights))
    if ok and not changed:
        ok = np.array_equal(K.weights, w) and all(np.array_equal(a, b) for a, b in zip(K.factor_matrices, F))
    if not ok:
        if kind != "ctor":
            ctx.label("prov-fallback")
        return ttb.ktensor([f.copy() for f in F], w.copy()), case
    ctx.label("prov:" + kind + (":" + prov["sign"] if kind == "unit" else ""))
    if kind == "balanced":
        ctx.label("balanced:column-" + ("tiny" if prov["e"] > 0 else "huge") + ("-vs-weight" if prov["k2"] is None else "-vs-factor"),
                  f"balanced:2^{-prov['e']}")
    if kind == "near":
        ctx.label("near:weights-" + prov["weights"], f"near:delta-{prov['delta']:g}")
    if any(not f.flags["F_CONTIGUOUS"] for f in K.factor_matrices):
        ctx.label("operand:C-ordered-factors")
    if not changed:
        return K, case
    cv = dict(case)
    cv["weights"] = [float(x) for x in K.weights]
    cv["factors"] = [[[float(x) for x in row] for row in np.asarray(f)] for f in K.factor_matrices]
    if not ref.is_intvalued(K.weights, *K.factor_matrices) or max(
            [np.abs(K.weights).max()] + [np.abs(f).max() for f in K.factor_matrices]) > 1e4:
        cv["vkind"] = "float"
    return K, cv


def np_int(x, flag):
    """an integer argument as numpy.int64 when flag is set (where pyttb accepts numpy integer scalars)"""
    return np.int64(x) if (flag and isinstance(x, int)) else x


def kt_labels(case):
    w = case["weights"]
    out = [f"order{len(case['shape'])}", f"rank{case['rank']}", case["vkind"]]
    if any(x < 0 for x in w):
        out.append("neg-weight")
    if any(x == 0 for x in w):
        out.append("zero-weight")
    F = fms_of(case)
    if any((G[:, r] == 0).all() for G in F for r in range(case["rank"])):
        out.append("zero-column")
    if any(s == 1 for s in case["shape"]):
        out.append("has-singleton")
    return out


def kt_nt(case):
    """Non-trivial by the C08 rule: a negative or zero weight, rank >= 2, order >= 3."""
    return any(x <= 0 for x in case["weights"]) and case["rank"] >= 2 and len(case["shape"]) >= 3


# ----------------------------------------------------------------------------------------------------------------
# (round 4, class 12) requests the unchanged tree rejects, and the state they must leave behind
# ----------------------------------------------------------------------------------------------------------------
# Only requests that raise on the unchanged tree are listed (probed: e.g. normalize(weight_factor=<out of range>),
# arrange(permutation=<duplicates>), redistribute(-1) / redistribute(True) are *accepted* and therefore absent).
# group 'early': the unchanged tree rejects before it touches the object -> attributes bit-identical afterwards.
# group 'late': the unchanged tree normalises (and sorts) the receiver first and raises afterwards (known finding
# C08-K4): the array denoted must still be the same; bit-identity is demanded under a clause of its own.
REJECTED = {
    "redistribute-mode": ("early", ["N", "N+1", "-N-1", "all", "none", "float", "npfloat", "list", "tuple", "array1"]),
    "normalize-mode": ("early", ["N", "-1", "all", "frac", "float", "list", "tuple", "N-with-wf"]),
    "normalize-normtype": ("early", ["fro", "x"]),
    "arrange-perm": ("early", ["short", "long", "oor", "neg-oor", "with-wf", "2d-row", "strs"]),
    "fixsigns-other": ("early", ["int", "ndarray", "tensor", "list"]),
    "update": ("early", ["mode-N", "mode--2", "unsorted", "short", "short-after-weights", "str-mode", "float-mode"]),
    # operations that return a new object: a rejected request leaves the receiver (and the other operand) alone
    "extract": ("early", ["oor", "negative", "too-many", "str", "numpy-int", "empty"]),
    "permute": ("early", ["short", "duplicate", "oor"]),
    "tolist": ("early", ["N", "str", "numpy-int"]),
    "algebra": ("early", ["add-int", "add-other-shape", "sub-other-shape", "mul-str", "mul-ktensor", "mul-array"]),
    "score": ("early", ["int", "other-shape", "more-components", "threshold", "not-greedy"]),
    "arrange-wf": ("late", ["N", "-N-1", "all", "float", "list"]),
    "normalize-wf-float": ("late", ["float", "npfloat"]),
    "fixsigns-other-mismatch": ("late", ["size", "more-components", "fewer-modes"]),
}
REJECTED_PAIRS = [(c, v) for c, (_, vs) in REJECTED.items() for v in vs]


@st.composite
def rejected_request(draw, N, late=True):
    """JSON-able description of a rejected request; concrete arguments are built from the receiver's current shape
    and rank when the step is carried out (``rejected_apply``).  k, j: a valid mode / a free integer."""
    pairs = [p for p in REJECTED_PAIRS if late or REJECTED[p[0]][0] == "early"]
    # two levels, so that no (call, variant) pair is rare: the call first, then its variant
    calls = sorted({p[0] for p in pairs})
    c = draw(st.sampled_from(calls))
    v = draw(st.sampled_from(REJECTED[c][1]))
    return dict(call=c, v=v, k=draw(st.integers(0, N - 1)), j=draw(st.integers(0, 7)))


def _rejected_thunk(req, K, shape, R):
    """(thunk performing the request on K, other operands that must stay untouched)"""
    N = len(shape)
    c, v, k, j = req["call"], req["v"], req["k"] % N, req["j"]
    ident = list(range(R))
    if c == "redistribute-mode":
        arg = {"N": N, "N+1": N + 1, "-N-1": -N - 1, "all": "all", "none": None, "float": float(k),
               "npfloat": np.float64(k), "list": [k], "tuple": (k,), "array1": np.array([k])}[v]
        return (lambda: K.redistribute(arg)), []
    if c == "normalize-mode":
        arg = {"N": N, "-1": -1, "all": "all", "frac": k + 0.5, "float": float(k), "list": [k], "tuple": (k,),
               "N-with-wf": N}[v]
        if v == "N-with-wf":
            return (lambda: K.normalize(weight_factor=k, mode=arg)), []
        return (lambda: K.normalize(mode=arg, normtype=[1, 2, np.inf][j % 3])), []
    if c == "normalize-normtype":
        wf = [None, k, "all"][j % 3]
        return (lambda: K.normalize(weight_factor=wf, sort=bool(j & 4), normtype=v)), []
    if c == "arrange-perm":
        if v == "2d-row" and R == 1:
            v = "short"  # a 1 x 1 array has the right length and is accepted
        p = {"short": ident[:-1], "long": ident + [j % R], "oor": ident[:j % R] + [R] + ident[j % R + 1:],
             "neg-oor": ident[:j % R] + [-R - 1] + ident[j % R + 1:], "with-wf": ident[::-1],
             "2d-row": np.array([ident[::-1]]), "strs": ["a"] * R}[v]
        if v == "with-wf":
            return (lambda: K.arrange(weight_factor=k, permutation=p)), []
        if j & 1 and v in ("short", "long", "oor", "neg-oor"):
            p = np.array(p, dtype=int)
        return (lambda: K.arrange(permutation=p)), []
    if c == "fixsigns-other":
        if v == "int":
            other = 3
        elif v == "ndarray":
            other = np.ones(tuple(shape))
        elif v == "tensor":
            other = ttb.tensor(np.ones(tuple(shape)))
        else:
            other = [np.ones((n, R)) for n in shape]
        return (lambda: K.fixsigns(other)), []
    if c == "update":
        sz = [n * R for n in shape]
        if v == "unsorted" and N < 2:
            v = "mode-N"
        if v == "mode-N":
            modes, ln = [k, N], sz[k] + max(sz) + R
        elif v == "mode--2":
            modes, ln = [-2, k], sz[k] + max(sz) + R
        elif v == "unsorted":
            a, b = (k + 1) % N, k
            a, b = max(a, b), min(a, b)
            modes, ln = [a, b], sz[a] + sz[b]
        elif v == "short":
            modes, ln = [k], sz[k] - 1
        elif v == "short-after-weights":
            modes, ln = [-1, k], R + sz[k] - 1
        elif v == "str-mode":
            modes, ln = "a", sz[k]
        else:
            modes, ln = k + 0.5, sz[k]
        if isinstance(modes, list) and j & 1:
            modes = np.array(modes)
        data = 1.0 + np.arange(ln, dtype=float)
        return (lambda: K.update(modes, data)), []
    if c == "extract":
        arg = {"oor": ident[:-1] + [R], "negative": [-1], "too-many": ident + [0], "str": "a", "numpy-int": np.int64(0),
               "empty": []}[v]
        return (lambda: K.extract(arg)), []
    if c == "permute":
        md = list(range(N))
        arg = {"short": md[:-1], "duplicate": md[:-1] + [md[0]] if N >= 2 else [0, 0], "oor": md[:-1] + [N]}[v]
        return (lambda: K.permute(np.array(arg, dtype=int))), []
    if c == "tolist":
        arg = {"N": N, "str": "a", "numpy-int": np.int64(k)}[v]
        return (lambda: K.tolist(arg)), []
    if c == "algebra":
        if v == "add-int":
            return (lambda: K + 1), []
        if v in ("add-other-shape", "sub-other-shape"):
            sh = list(shape)
            sh[k] += 1
            other = ttb.ktensor([1.0 + np.arange(n * R, dtype=float).reshape(n, R) % 5 for n in sh], 2.0 - np.arange(R, dtype=float))
            return ((lambda: K + other) if v[0] == "a" else (lambda: K - other)), [other]
        if v == "mul-str":
            return (lambda: K * "a"), []
        if v == "mul-ktensor":
            return (lambda: K * K), []
        return (lambda: K * np.array([2.0, 3.0])), []
    if c == "score":
        sh, RB = list(shape), R
        if v == "other-shape":
            sh[k] += 1
        elif v == "more-components":
            RB = R + 1
        other = ttb.ktensor([1.0 + np.arange(n * RB, dtype=float).reshape(n, RB) % 5 for n in sh], 2.0 - np.arange(RB, dtype=float))
        if v == "int":
            return (lambda: K.score(3)), []
        if v == "threshold":
            return (lambda: K.score(other, threshold=[1.5, -0.25][j % 2])), [other]
        if v == "not-greedy":
            return (lambda: K.score(other, greedy=False)), [other]
        return (lambda: K.score(other)), [other]
    if c == "arrange-wf":
        arg = {"N": N, "-N-1": -N - 1, "all": "all", "float": float(k), "list": [k]}[v]
        return (lambda: K.arrange(weight_factor=arg)), []
    if c == "normalize-wf-float":
        arg = float(k) if v == "float" else np.float64(k)
        return (lambda: K.normalize(weight_factor=arg, sort=bool(j & 1), normtype=[1, 2, np.inf][j % 3])), []
    if c == "fixsigns-other-mismatch":
        if v == "fewer-modes" and N < 2:
            v = "size"
        sh, RB = list(shape), R
        if v == "size":
            sh[k] += 1
        elif v == "more-components":
            RB = R + 1
        else:
            sh = sh[:-1]
        other = ttb.ktensor([1.0 + np.arange(n * RB, dtype=float).reshape(n, RB) % 5 for n in sh],
                            2.0 - np.arange(RB, dtype=float))
        return (lambda: K.fixsigns(other)), [other]
    raise KeyError(c)


def attrs(K):
    return np.array(K.weights, dtype=float), [np.array(f, dtype=float) for f in K.factor_matrices]


def attrs_equal(K, snap):
    w, F = snap
    return (isinstance(K.weights, np.ndarray) and K.weights.dtype == float and K.weights.shape == w.shape
            and np.array_equal(K.weights, w) and isinstance(K.factor_matrices, list) and len(K.factor_matrices) == len(F)
            and all(isinstance(a, np.ndarray) and a.dtype == float and a.shape == b.shape and np.array_equal(a, b)
                    for a, b in zip(K.factor_matrices, F)))


def rejected_apply(ctx, K, req, shape, R, tag="rejected"):
    """Carry out a request the unchanged tree rejects on the live object K (current shape / rank given by the model).

    raised   -> 'early' requests: K must be bit-for-bit what it was (weights, factor matrices, dtypes, shapes);
                'late' requests: the same under a clause of its own (known finding C08-K4); the caller goes on to
                demand a well-formed K that denotes the same array in either case;
    returned -> (a tree that accepts the request) nothing more is demanded here: the caller's well-formedness and
                same-array clauses still apply, for whatever was done is a re-parameterisation.
    Other operands (a reference tensor) must be bit-identical in every case.  Returns True when K is bit-identical."""
    group = REJECTED[req["call"]][0]
    name = req["call"]
    thunk, others = _rejected_thunk(req, K, shape, R)
    before = attrs(K)
    obefore = [attrs(o) for o in others]
    ctx.label(f"{tag}:{name}", f"{tag}:{name}:{req['v']}", f"{tag}:group-{group}")
    try:
        thunk()
        raised = False
    except Exception:  # noqa: BLE001  (any exception type: the property does not say which)
        raised = True
    ctx.label(f"{tag}:raised" if raised else f"{tag}:accepted")
    same = attrs_equal(K, before)
    if raised:
        clause = "attributes-bit-identical" if group == "early" else "late-attributes-bit-identical"
        ctx.check(same, f"{tag}:{name}:{clause}", req["v"])
    for o, ob in zip(others, obefore):
        ctx.check(attrs_equal(o, ob), f"{tag}:{name}:operand-untouched", req["v"])
    return same


# ----------------------------------------------------------------------------------------------------------------
# (round 4, class 11) the same valid argument in the forms ordinary callers use
# ----------------------------------------------------------------------------------------------------------------
# probed on the unchanged tree: accepted by normalize(weight_factor / mode / positional), arrange(weight_factor),
# redistribute(mode), update(modes) and scalar * K; tolist(mode), extract(int) and K * scalar document a python int /
# scalar and reject numpy scalars (left out)
INT_SCALARS = {"int64": np.int64, "int32": np.int32, "int16": np.int16, "int8": np.int8, "uint8": np.uint8,
               "uint16": np.uint16, "uint32": np.uint32, "uint64": np.uint64, "intp": np.intp,
               "0d-array": lambda x: np.array(x), "0d-int32": lambda x: np.array(x, dtype=np.int32)}


def _ro(a):
    a = np.array(a)
    a.setflags(write=False)
    return a


def _strided(a):
    a = np.asarray(a)
    b = np.zeros(2 * a.size + 1, dtype=a.dtype)
    b[1::2] = a
    return b[1::2]


INDEX_COLLECTIONS = {
    "tuple": tuple,
    "int64": lambda p: np.array(p, dtype=np.int64), "int32": lambda p: np.array(p, dtype=np.int32),
    "int8": lambda p: np.array(p, dtype=np.int8), "uint8": lambda p: np.array(p, dtype=np.uint8),
    "uint16": lambda p: np.array(p, dtype=np.uint16), "uint64": lambda p: np.array(p, dtype=np.uint64),
    "list-of-int64": lambda p: [np.int64(i) for i in p], "list-of-uint8": lambda p: [np.uint8(i) for i in p],
    "tuple-of-uint64": lambda p: tuple(np.uint64(i) for i in p), "list-of-int32": lambda p: [np.int32(i) for i in p],
    "read-only": lambda p: _ro(np.array(p, dtype=int)), "strided": lambda p: _strided(np.array(p, dtype=int)),
    "strided-int32": lambda p: _strided(np.array(p, dtype=np.int32)),
}
UNSIGNED = ("uint8", "uint16", "uint64", "list-of-uint8", "tuple-of-uint64")


def present_matrix(f, form):
    """the same float64 matrix as a caller may hold it"""
    f = np.array(f, dtype=float)
    if form == "C":
        return np.ascontiguousarray(f)
    if form == "F":
        return np.asfortranarray(f)
    if form == "read-only-F":
        return _ro(np.asfortranarray(f))
    if form == "read-only-C":
        return _ro(np.ascontiguousarray(f))
    if form == "transposed-view":
        return np.ascontiguousarray(f.T).T
    if form == "strided":
        big = np.zeros((2 * f.shape[0] + 1, 2 * f.shape[1] + 1))
        big[1::2, 1::2] = f
        return big[1::2, 1::2]
    if form == "reversed-view":
        return np.ascontiguousarray(f[::-1, ::-1])[::-1, ::-1]
    raise KeyError(form)


MATRIX_FORMS = ["C", "F", "F", "read-only-F", "read-only-F", "read-only-C", "transposed-view", "strided", "reversed-view"]


def present_vector(w, form):
    w = np.array(w, dtype=float)
    if form in ("read-only-F", "read-only-C"):
        return _ro(w)
    if form in ("strided", "transposed-view"):
        return _strided(w)
    if form == "reversed-view":
        return np.ascontiguousarray(w[::-1])[::-1]
    return w
