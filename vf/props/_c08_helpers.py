"""Helpers for C08 (Kruskal re-parameterisations): NumPy-only reference computations and case builders."""

from __future__ import annotations

import numpy as np
from hypothesis import strategies as st

from .. import gen, ref

NORMS = {"1": 1, "2": 2, "inf": np.inf}


def fms_of(case):
    """Factor matrices of a ktensor case dict as fresh float arrays."""
    return [np.array(f, dtype=float).reshape(n, case["rank"]) for f, n in zip(case["factors"], case["shape"])]


def w_of(case):
    return np.array(case["weights"], dtype=float)


def den_case(case):
    return ref.den_kruskal(w_of(case), fms_of(case))


def bound_case(case):
    return ref.abs_kruskal(w_of(case), fms_of(case))


def colnorms(F, ord_):
    F = np.asarray(F, dtype=float)
    return np.array([np.linalg.norm(F[:, r], ord=ord_) for r in range(F.shape[1])])


def kt_ok(K, shape, rank=None):
    """Structural sanity of a returned ktensor (list of problems)."""
    out = []
    w = getattr(K, "weights", None)
    f = getattr(K, "factor_matrices", None)
    if not isinstance(w, np.ndarray) or w.ndim != 1:
        return [f"weights-not-1d-array:{type(w).__name__}:{getattr(w, 'shape', None)}"]
    if not isinstance(f, (list, tuple)) or len(f) != len(shape):
        return [f"factor-list-length:{None if f is None else len(f)}"]
    r = len(w) if rank is None else rank
    if len(w) != r:
        out.append(f"weights-length-{len(w)}-vs-{r}")
    for k, (F, n) in enumerate(zip(f, shape)):
        if not isinstance(F, np.ndarray) or F.shape != (n, r):
            out.append(f"factor-{k}-shape-{getattr(F, 'shape', None)}-vs-{(n, r)}")
    return out


def sign_scores(Af, wa, Bf, wb):
    """Per component r < RB and mode n: cosine between the columns as `normalize()` leaves them.

    `normalize()` (2-norm) divides every column by its norm and, when the resulting weight is negative, negates the
    mode-0 column.  Returns (scores[N, RB], exact_zero[N, RB]) where exact_zero marks scores that are zero because
    a column is entirely zero (no rounding ambiguity)."""
    N = len(Af)
    RB = Bf[0].shape[1]
    S = np.zeros((N, RB))
    Z = np.zeros((N, RB), dtype=bool)

    def flips(F, w, r):
        norms = [np.linalg.norm(G[:, r]) for G in F]
        return bool(w[r] < 0 and all(x > 0 for x in norms))

    for r in range(RB):
        fa, fb = flips(Af, wa, r), flips(Bf, wb, r)
        for n in range(N):
            a, b = Af[n][:, r], Bf[n][:, r]
            na, nb = np.linalg.norm(a), np.linalg.norm(b)
            if na == 0 or nb == 0:
                Z[n, r] = True
                continue
            d = float(a @ b) / (na * nb)
            if n == 0 and (fa != fb):
                d = -d
            S[n, r] = d
    return S, Z


AMBIG = 1e-12


def odd_or_ambiguous(S, Z):
    """True when some component has an odd number of negative scores, or a score whose sign rounding may decide."""
    for r in range(S.shape[1]):
        neg = int(np.sum(S[:, r] < -AMBIG))
        amb = int(np.sum((np.abs(S[:, r]) <= AMBIG) & ~Z[:, r]))
        if neg % 2 == 1 or amb > 0:
            return True
    return False


# ----------------------------------------------------------------------------------------------------------------
# strategies
# ----------------------------------------------------------------------------------------------------------------


@st.composite
def kt(draw, tier, min_order=1, max_order=4, max_rank=4, kinds=("int", "float"), weights="any", shape=None):
    """gen.ktensor_case plus an explicit zero-weight / negative-weight class so that neither is rare."""
    c = draw(gen.ktensor_case(tier, kinds=kinds, min_order=min_order, max_order=max_order, max_rank=max_rank,
                              shape=shape, weights=weights))
    if weights == "any":
        cls = draw(st.sampled_from(["asdrawn", "asdrawn", "one-zero", "one-negative", "all-negative"]))
        r = c["rank"]
        if cls == "one-zero":
            c["weights"][draw(st.integers(0, r - 1))] = 0.0
        elif cls == "one-negative":
            k = draw(st.integers(0, r - 1))
            c["weights"][k] = -abs(c["weights"][k]) if c["weights"][k] != 0 else -2.0
        elif cls == "all-negative":
            c["weights"] = [-abs(x) if x != 0 else -3.0 for x in c["weights"]]
    return c


def kt_labels(case):
    w = case["weights"]
    out = [f"order{len(case['shape'])}", f"rank{case['rank']}", case["vkind"]]
    if any(x < 0 for x in w):
        out.append("neg-weight")
    if any(x == 0 for x in w):
        out.append("zero-weight")
    F = fms_of(case)
    if any((G[:, r] == 0).all() for G in F for r in range(case["rank"])):
        out.append("zero-column")
    if any(s == 1 for s in case["shape"]):
        out.append("has-singleton")
    return out


def kt_nt(case):
    """Non-trivial by the C08 rule: a negative or zero weight, rank >= 2, order >= 3."""
    return any(x <= 0 for x in case["weights"]) and case["rank"] >= 2 and len(case["shape"]) >= 3
