"""Helpers for C08 (Kruskal re-parameterisations): NumPy-only reference computations and case builders."""

from __future__ import annotations

import numpy as np
from hypothesis import strategies as st

import pyttb as ttb

from .. import gen, ref

NORMS = {"1": 1, "2": 2, "inf": np.inf}


def fms_of(case):
    """Factor matrices of a ktensor case dict as fresh float arrays."""
    return [np.array(f, dtype=float).reshape(n, case["rank"]) for f, n in zip(case["factors"], case["shape"])]


def w_of(case):
    return np.array(case["weights"], dtype=float)


def den_case(case):
    return ref.den_kruskal(w_of(case), fms_of(case))


def bound_case(case):
    return ref.abs_kruskal(w_of(case), fms_of(case))


def colnorms(F, ord_):
    F = np.asarray(F, dtype=float)
    return np.array([np.linalg.norm(F[:, r], ord=ord_) for r in range(F.shape[1])])


def kt_ok(K, shape, rank=None):
    """Structural sanity of a returned ktensor (list of problems)."""
    out = []
    w = getattr(K, "weights", None)
    f = getattr(K, "factor_matrices", None)
    if not isinstance(w, np.ndarray) or w.ndim != 1:
        return [f"weights-not-1d-array:{type(w).__name__}:{getattr(w, 'shape', None)}"]
    if not isinstance(f, (list, tuple)) or len(f) != len(shape):
        return [f"factor-list-length:{None if f is None else len(f)}"]
    r = len(w) if rank is None else rank
    if len(w) != r:
        out.append(f"weights-length-{len(w)}-vs-{r}")
    for k, (F, n) in enumerate(zip(f, shape)):
        if not isinstance(F, np.ndarray) or F.shape != (n, r):
            out.append(f"factor-{k}-shape-{getattr(F, 'shape', None)}-vs-{(n, r)}")
    return out


def sign_scores(Af, wa, Bf, wb):
    """Per component r < RB and mode n: cosine between the columns as `normalize()` leaves them.

    `normalize()` (2-norm) divides every column by its norm and, when the resulting weight is negative, negates the
    mode-0 column.  Returns (scores[N, RB], exact_zero[N, RB]) where exact_zero marks scores that are zero because
    a column is entirely zero (no rounding ambiguity)."""
    N = len(Af)
    RB = Bf[0].shape[1]
    S = np.zeros((N, RB))
    Z = np.zeros((N, RB), dtype=bool)

    def flips(F, w, r):
        norms = [np.linalg.norm(G[:, r]) for G in F]
        return bool(w[r] < 0 and all(x > 0 for x in norms))

    for r in range(RB):
        fa, fb = flips(Af, wa, r), flips(Bf, wb, r)
        for n in range(N):
            a, b = Af[n][:, r], Bf[n][:, r]
            na, nb = np.linalg.norm(a), np.linalg.norm(b)
            if na == 0 or nb == 0:
                Z[n, r] = True
                continue
            d = float(a @ b) / (na * nb)
            if n == 0 and (fa != fb):
                d = -d
            S[n, r] = d
    return S, Z


AMBIG = 1e-12


def odd_or_ambiguous(S, Z):
    """True when some component has an odd number of negative scores, or a score whose sign rounding may decide."""
    for r in range(S.shape[1]):
        neg = int(np.sum(S[:, r] < -AMBIG))
        amb = int(np.sum((np.abs(S[:, r]) <= AMBIG) & ~Z[:, r]))
        if neg % 2 == 1 or amb > 0:
            return True
    return False


# ----------------------------------------------------------------------------------------------------------------
# strategies
# ----------------------------------------------------------------------------------------------------------------


PRESERVING = ["ctor", "ctor", "ctor", "sum", "extract", "permute", "ttv"]
CHANGING = ["unit", "unit", "absorbed", "scaled", "balanced", "balanced", "near"]

# round 3, extreme dynamic range: a component whose magnitude sits in the wrong place - one factor column scaled by
# 2**-e and the weight (or another factor's column of the same component) by 2**+e.  Powers of two: the denoted array
# is bit-for-bit that of the well-scaled case.  |e| <= 480 keeps every square of an entry (|x| in [1e-3, 1e3]) and
# every sum of up to six of them inside the normal float64 range, so 2-norms are computable the plain way; the
# exponents beyond (squares under- / overflow) are used by the cell C08/extreme-range only.
BALANCED_EXP = [30, 40, 60, 60, 100, 400, 480, -30, -60, -100, -480]
# round 3, near-special values: relative noise put on exactly unit columns / exactly unit weights
NEAR_DELTA = [1e-14, 1e-12, 1e-10, 1e-8, 1e-6, 1e-5]


@st.composite
def kt(draw, tier, min_order=1, max_order=4, max_rank=4, kinds=("int", "float"), weights="any", shape=None,
       prov="any"):
    """gen.ktensor_case plus an explicit zero-weight / negative-weight / equal-magnitude class so that none is rare,
    plus the provenance of the operand (see ``operand``): prov = 'any' | 'preserving' | None."""
    c = draw(gen.ktensor_case(tier, kinds=kinds, min_order=min_order, max_order=max_order, max_rank=max_rank,
                              shape=shape, weights=weights))
    r = c["rank"]
    if weights == "any":
        cls = draw(st.sampled_from(["asdrawn", "asdrawn", "one-zero", "one-negative", "all-negative", "equal-magnitudes"]))
        if cls == "one-zero":
            c["weights"][draw(st.integers(0, r - 1))] = 0.0
        elif cls == "one-negative":
            k = draw(st.integers(0, r - 1))
            c["weights"][k] = -abs(c["weights"][k]) if c["weights"][k] != 0 else -2.0
        elif cls == "all-negative":
            c["weights"] = [-abs(x) if x != 0 else -3.0 for x in c["weights"]]
        elif cls == "equal-magnitudes":
            # exact ties for every sort by weight: the same magnitude everywhere, signs drawn; half of the time the
            # columns of two components are equal up to sign too, so that the norm products tie as well
            m = abs(c["weights"][0]) or 2.0
            c["weights"] = [m if draw(st.booleans()) else -m for _ in range(r)]
            if r >= 2 and draw(st.booleans()):
                a, b = draw(st.permutations(range(r)))[:2]
                for f in c["factors"]:
                    sg = -1.0 if draw(st.booleans()) else 1.0
                    for row in f:
                        row[b] = sg * row[a]
    if prov is not None:
        c["prov"] = draw(_prov(c, prov))
    return c


def inv(p):
    q = [0] * len(p)
    for i, v in enumerate(p):
        q[v] = i
    return q


@st.composite
def _prov(draw, c, which):
    N, R = len(c["shape"]), c["rank"]
    kind = draw(st.sampled_from(PRESERVING + (CHANGING if which == "any" else [])))
    if kind == "sum" and R >= 2:
        return dict(kind="sum", split=draw(st.integers(1, R - 1)))
    if kind == "extract":
        rbig = R + draw(st.integers(1, 2))
        pos = list(draw(st.permutations(range(rbig))))[:R]
        return dict(kind="extract", rbig=rbig, pos=pos)
    if kind == "permute" and N >= 2:
        return dict(kind="permute", q=list(draw(st.permutations(range(N)))))
    if kind == "ttv":
        nv = draw(st.integers(1, 3))
        return dict(kind="ttv", m=draw(st.integers(0, N)), nv=nv, j=draw(st.integers(0, nv - 1)))
    if kind == "unit":
        return dict(kind="unit", normtype=draw(st.sampled_from(["2", "2", "1", "inf"])),
                    sign=draw(st.sampled_from(["none", "neg", "neg", "times-minus-2"])))
    if kind == "absorbed":
        return dict(kind="absorbed", wf=draw(st.sampled_from(["all"] + list(range(N)))))
    if kind == "scaled":
        return dict(kind="scaled", s=draw(st.sampled_from([1e6, 1e-6, 1e-10, 1e-13, 1e10])),
                    where=draw(st.sampled_from(["weights", "factor"])), k=draw(st.integers(0, N - 1)))
    if kind == "balanced":
        return draw(balanced_prov(N, R, BALANCED_EXP))
    if kind == "near":
        return dict(kind="near", delta=draw(st.sampled_from(NEAR_DELTA)), phase=draw(st.integers(0, 1000)),
                    weights=draw(st.sampled_from(["kept", "near-one", "near-one", "tiny"])),
                    normtype=draw(st.sampled_from(["2", "2", "1", "inf"])))
    return dict(kind="ctor")


@st.composite
def balanced_prov(draw, N, R, exps):
    """one or all components: column r of mode k times 2**-e, balanced by the weight or by mode k2's column"""
    k = draw(st.integers(0, N - 1))
    into = draw(st.sampled_from(["weight", "weight", "factor"])) if N >= 2 else "weight"
    k2 = (k + draw(st.integers(1, N - 1))) % N if into == "factor" else None
    comps = list(range(R)) if draw(st.integers(0, 3)) == 0 else [draw(st.integers(0, R - 1))]
    return dict(kind="balanced", e=draw(st.sampled_from(list(exps))), k=k, k2=k2, comps=comps)


def apply_balanced(F, w, prov):
    """(factors, weights) of the badly balanced but identical Kruskal tensor (exact: powers of two)"""
    F2, w2 = [f.copy() for f in F], w.copy()
    e = prov["e"]
    for r in prov["comps"]:
        F2[prov["k"]][:, r] = F2[prov["k"]][:, r] * 2.0 ** (-e)
        if prov["k2"] is None:
            w2[r] = w2[r] * 2.0 ** e
        else:
            F2[prov["k2"]][:, r] = F2[prov["k2"]][:, r] * 2.0 ** e
    return F2, w2


def noise(n, phase):
    """deterministic pseudo-noise in [-1, 1] (no random number generator: the case fixes it)"""
    return np.cos(phase + 1.7 * np.arange(n) + 0.3 * np.arange(n) ** 2)


def operand(ctx, case):
    """(K, effective case): the Kruskal tensor of the case reached through its provenance (public API only).

    attribute-preserving provenances - the object has exactly the weights / factor matrices of the case but is the
    result of an operation: 'sum' (A + B of two groups of components), 'extract' (components selected from a larger
    tensor), 'permute' (mode permutation of the suitably pre-permuted tensor), 'ttv' (a tensor with one more mode, all
    ones, contracted with a unit vector);
    attribute-changing provenances - the effective case is read back from the object: 'unit' (normalize(): exactly
    unit-norm columns, then optionally negated / multiplied by -2: negative weights on unit columns), 'absorbed'
    (normalize(weight_factor=...): weights all one, C-ordered factor matrices), 'scaled' (weights or one factor times
    1e+6 / 1e-6).
    When the preparing call fails or does not give the expected attributes, the constructor is used (the preparing
    operation is judged in its own cell) and the case is labelled 'prov-fallback'."""
    F, w = fms_of(case), w_of(case)
    R, N = case["rank"], len(case["shape"])
    prov = case.get("prov") or dict(kind="ctor")
    kind = prov["kind"]
    K = None
    changed = False
    try:
        if kind == "sum":
            r1 = prov["split"]
            K = (ttb.ktensor([f[:, :r1].copy() for f in F], w[:r1].copy())
                 + ttb.ktensor([f[:, r1:].copy() for f in F], w[r1:].copy()))
        elif kind == "extract":
            rbig, pos = prov["rbig"], prov["pos"]
            bigF = [np.full((f.shape[0], rbig), 1.5) for f in F]
            bigw = np.full(rbig, -2.5)
            for g, f in zip(bigF, F):
                g[:, pos] = f
            bigw[pos] = w
            K = ttb.ktensor(bigF, bigw).extract(np.array(pos))
        elif kind == "permute":
            iq = inv(prov["q"])
            K = ttb.ktensor([F[iq[j]].copy() for j in range(N)], w.copy()).permute(np.array(prov["q"]))
        elif kind == "ttv":
            m, nv = prov["m"], prov["nv"]
            v = np.zeros(nv)
            v[prov["j"]] = 1.0
            F1 = [f.copy() for f in F[:m]] + [np.ones((nv, R))] + [f.copy() for f in F[m:]]
            K = ttb.ktensor(F1, w.copy()).ttv(v, m)
        elif kind == "unit":
            K = ttb.ktensor([f.copy() for f in F], w.copy()).normalize(normtype=NORMS[prov["normtype"]])
            if prov["sign"] == "neg":
                K = -K
            elif prov["sign"] == "times-minus-2":
                K = K * -2.0
            changed = True
        elif kind == "absorbed":
            K = ttb.ktensor([f.copy() for f in F], w.copy()).normalize(weight_factor=prov["wf"])
            changed = True
        elif kind == "balanced":
            F2, w2 = apply_balanced(F, w, prov)
            K = ttb.ktensor(F2, w2)
            changed = True
        elif kind == "near":
            # exactly unit columns (normalize), then relative noise of size delta on every factor entry; weights kept,
            # or one up to noise, or tiny (1e-10: below every absolute tolerance)
            K0 = ttb.ktensor([f.copy() for f in F], w.copy()).normalize(normtype=NORMS[prov["normtype"]])
            F2 = [np.array(f) * (1.0 + prov["delta"] * noise(f.size, prov["phase"] + i).reshape(f.shape))
                  for i, f in enumerate(K0.factor_matrices)]
            w2 = np.array(K0.weights)
            if prov["weights"] == "near-one":
                w2 = 1.0 + prov["delta"] * noise(R, prov["phase"] + 7)
            elif prov["weights"] == "tiny":
                w2 = w2 * 1e-10
            K = ttb.ktensor(F2, w2)
            changed = True
        elif kind == "scaled":
            F2, w2 = [f.copy() for f in F], w.copy()
            if prov["where"] == "weights":
                w2 = w2 * prov["s"]
            else:
                F2[prov["k"]] = F2[prov["k"]] * prov["s"]
            K = ttb.ktensor(F2, w2)
            changed = True
    except Exception:  # noqa: BLE001
        K = None
    ok = isinstance(K, ttb.ktensor) and not kt_ok(K, case["shape"], R) and all(
        np.all(np.isfinite(f)) for f in K.factor_matrices) and np.all(np.isfinite(K.weights))
    if ok and not changed:
        ok = np.array_equal(K.weights, w) and all(np.array_equal(a, b) for a, b in zip(K.factor_matrices, F))
    if not ok:
        if kind != "ctor":
            ctx.label("prov-fallback")
        return ttb.ktensor([f.copy() for f in F], w.copy()), case
    ctx.label("prov:" + kind + (":" + prov["sign"] if kind == "unit" else ""))
    if kind == "balanced":
        ctx.label("balanced:column-" + ("tiny" if prov["e"] > 0 else "huge") + ("-vs-weight" if prov["k2"] is None else "-vs-factor"),
                  f"balanced:2^{-prov['e']}")
    if kind == "near":
        ctx.label("near:weights-" + prov["weights"], f"near:delta-{prov['delta']:g}")
    if any(not f.flags["F_CONTIGUOUS"] for f in K.factor_matrices):
        ctx.label("operand:C-ordered-factors")
    if not changed:
        return K, case
    cv = dict(case)
    cv["weights"] = [float(x) for x in K.weights]
    cv["factors"] = [[[float(x) for x in row] for row in np.asarray(f)] for f in K.factor_matrices]
    if not ref.is_intvalued(K.weights, *K.factor_matrices) or max(
            [np.abs(K.weights).max()] + [np.abs(f).max() for f in K.factor_matrices]) > 1e4:
        cv["vkind"] = "float"
    return K, cv


def np_int(x, flag):
    """an integer argument as numpy.int64 when flag is set (where pyttb accepts numpy integer scalars)"""
    return np.int64(x) if (flag and isinstance(x, int)) else x


def kt_labels(case):
    w = case["weights"]
    out = [f"order{len(case['shape'])}", f"rank{case['rank']}", case["vkind"]]
    if any(x < 0 for x in w):
        out.append("neg-weight")
    if any(x == 0 for x in w):
        out.append("zero-weight")
    F = fms_of(case)
    if any((G[:, r] == 0).all() for G in F for r in range(case["rank"])):
        out.append("zero-column")
    if any(s == 1 for s in case["shape"]):
        out.append("has-singleton")
    return out


def kt_nt(case):
    """Non-trivial by the C08 rule: a negative or zero weight, rank >= 2, order >= 3."""
    return any(x <= 0 for x in case["weights"]) and case["rank"] >= 2 and len(case["shape"]) >= 3
