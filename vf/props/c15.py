"""C15 — symmetrisation averages over mode permutations and the symmetry test is exact."""

from __future__ import annotations

import itertools
import logging

import numpy as np
from hypothesis import strategies as st

import pyttb as ttb

from .. import gen, ref
from ..core import cell
from . import _c15_helpers as H
from . import _c08_helpers as H8

PROPERTY = "C15"
RULE = (
    "cases = dense tensor of order 1..4 with mode groups drawn as a structure first (all modes / one proper subset / "
    "several disjoint groups / singleton groups; modes of a group listed in any order and sharing a size, other modes "
    "of any size) x data class (random / exactly symmetric in all groups / in the first group only / symmetric but for "
    "one entry) x grps given as None, 1-D or 2-D array x version x with/without details; Kruskal tensors with cubical "
    "shape (random / equal factors / equal up to sign pairs).  Oracle: mean of np.transpose over the product of "
    "within-group permutations (exact for integer-valued data, rounding bound otherwise), exact invariance test under "
    "adjacent within-group swaps.  Non-trivial: a group that is a proper subset of the modes (or several groups), "
    "with at least two modes in it, on data that is not symmetric.  Round 2: operands are constructed, grown by "
    "assignment, held as int64, or the result of an earlier symmetrize (new or old version) over the first / all but "
    "the last / the last / all groups; two groups of two modes ('pairs') and data exactly symmetric in all but the "
    "last group / in the last group only are drawn on purpose (label symmetric-in-earlier-group-not-in-later); group "
    "arrays are int64 / int32 / uint8; float data also scaled by 1e+6 / 1e-6; every call is repeated on the same "
    "object and the symmetry test is put to the result object of symmetrize itself, through both implementations; "
    "Kruskal operands come through the C08 provenances (sum, extract, permute, ttv, unit columns, absorbed weights, "
    "scaled) with tied weights and zero columns.  Round 3 (near-special values): data class 'near-symmetric' - exactly "
    "symmetric in every group, then relative noise of size 2.3e-16 .. 1e-5 on the classes of one, some or all groups "
    "(symmetric to within any tolerance, never exactly; the exact groups stay exact); float data also scaled by 1e-9 / "
    "1e-10 / 1e-12 (whole tensor below every absolute tolerance); Kruskal class 'near-equal-factors' (factors equal up "
    "to relative noise 2.3e-16 .. 1e-5) and the C08 provenances 'balanced' / 'near'.  Several live objects: the "
    "results of symmetrize (both versions, first / second call, result of the result) are assigned to and the operand "
    "and the other results judged again; a symmetrised Kruskal tensor is re-parameterised in place.  Round 4 "
    "(C15/presentation/*, C15/rejected): orders 2..6 with one group, a proper subset, two or three groups of 2..3 modes; "
    "data also exactly symmetric in a sub-group only (the first two listed modes of a group, the last two, its first "
    "and last) with the other groups symmetric or generic; data handed over as float64 / int64 / int32 / uint8 / float32 "
    "/ read-only (copy=False) / strided view / C-ordered / grown.  The same request is put in every presentation pyttb "
    "accepts - group array 1-D / 2-D / None, int8..uint64 / intp, F-ordered, read-only, strided and negative-stride "
    "views, groups listed in reversed / drawn order, modes of a group reversed / ascending / descending / drawn / "
    "rotated; the older implementation requested positionally or by keyword with 1, numpy integers, 0, True, 1.0, a "
    "string; return_details on / off, positionally / by keyword - and must give the same boolean (the truth), a "
    "details triple that is consistent with its own permutations, and for symmetrize the same tensor bit for bit "
    "(same listing) or the same average to the rounding bound (another listing of the same groups); the same under "
    "a root logger at DEBUG; receiver and group argument unchanged.  Rejected requests: mode sizes differing inside "
    "a group at any listed position (also against extents of 1 and constant data), groups sharing a mode (adjacent "
    "or not in the listing, all extents equal or 1), a mode that does not exist must be rejected by both versions "
    "of symmetrize; list / tuple / float array / empty group are rejected or answered correctly; afterwards the "
    "receiver is bit for bit what it was and the next valid request is judged against the model."
)
ASSUMPTIONS = [
    "symmetrisation reference: sum of np.transpose(A, p) over all p permuting modes within groups, divided by the count",
    "integer-valued data compared exactly (sum exact, one correctly rounded division on both sides); general floats "
    "within 64*count*eps*mean(|A|)",
    "symmetry reference: A equals np.transpose(A, swap) exactly for every adjacent swap inside a group; groups with "
    "unequal mode sizes are not symmetric",
    "groups are passed as a rectangular integer array (all groups of one call have the same length); lists and "
    "tuples are rejected by pyttb (AttributeError: the parameter is documented as np.ndarray) and are not used",
    "round 4: lists and tuples are not demanded to work (rejected-or-correct); float32 data is judged exactly where "
    "nothing is rounded (booleans, same listing bit for bit) and with a single-precision bound where the result is held "
    "in float32; differences reported for uint8 data are not compared (pyttb subtracts in the data's own dtype); "
    "issymmetric may answer False for a specification with a non-existent mode when an earlier listed group is "
    "already not symmetric; symmetrize must reject mismatching sizes, overlapping groups and non-existent modes "
    "(the pinned tests expect the first two)",
    "Kruskal: symmetric means all factor matrices equal (the Kruskal test); the denoted array is compared within the "
    "C08 rounding bound, never with the exact dense test",
]

EPS = ref.EPS

# pyttb logs a WARNING through the root logger on every internal `tensor(..., copy=False)` of a C-ordered array
# (old symmetrize does it once per call); it would flood stderr of the check.  Local to the worker processes.
logging.disable(logging.WARNING)


def _A(case):
    return gen.arr_F(case["shape"], case["data"])


def _operand(ctx, case):
    """(X, A, effective case): the dense operand in the state the case asks for - constructed, grown by assignment
    (gen.build_tensor, prov), held as int64, or the result of an earlier symmetrize ('pre'); A is the array it denotes.
    For 'pre' A is read back from the object after the earlier result was compared with the reference average; when
    that call fails or is wrong (judged in its own cell) the freshly constructed operand is used."""
    A = _A(case)
    if case.get("dt") == "int64":
        X = ttb.tensor(A.astype(np.int64).copy(order="F"), tuple(case["shape"]))
        ctx.label("operand:int64")
    else:
        X = gen.build_tensor(case)
    if gen.is_grown(X):
        ctx.label("operand:grown")
    pre = case.get("pre")
    if not pre:
        return X, A, case
    pg = H.pre_groups(case)
    Y = None
    try:
        Y = X.symmetrize(H.grps_array(pg, "2d"), version=pre["version"])
    except Exception:  # noqa: BLE001
        pass
    expect, nperm = H.sym_mean(A, pg)
    bound, _ = H.sym_mean(np.abs(A), pg)
    if not (isinstance(Y, ttb.tensor) and tuple(Y.shape) == A.shape and ref.same_bound(ref.den(Y), expect, bound, nperm)
            and H.invariant(ref.den(Y), pg)):
        ctx.label("pre-fallback")
        return X, A, case
    A2 = ref.den(Y)
    eff = dict(case, data=[float(v) for v in A2.flatten(order="F")], data_class="result-of-symmetrize",
               vkind="int" if ref.is_intvalued(A2) else "float")
    ctx.label("operand:result-of-symmetrize-" + ("old" if pre["version"] else "new"), "pre-" + pre["which"])
    if not np.asarray(Y.data).flags["F_CONTIGUOUS"]:
        ctx.label("operand:not-F-contiguous")
    return Y, A2, eff


def _nt(case, A):
    g = case["groups"]
    return (not H.is_single_full_group(len(case["shape"]), g)) and any(len(x) >= 2 for x in g) and not H.invariant(A, g)


# --------------------------------------------------------------------------
# the symmetry test
# --------------------------------------------------------------------------


@st.composite
def _issym_case(draw, tier):
    c = draw(H.sym_case(tier, allow_mismatch=True))
    c["version"] = draw(st.sampled_from([None, None, 1]))
    c["details"] = draw(st.sampled_from([False, False, True]))
    return c


def _uses_old_path(case):
    return case.get("version") is not None or bool(case.get("details"))


@cell("C15/issymmetric/sampled", strategy=_issym_case, quick=1500, thorough=20000, shards=(2, 12))
def issymmetric(ctx, case):
    _issym_body(ctx, case)


def _issym_body(ctx, case):
    X, A, case = _operand(ctx, case)
    N, groups = len(case["shape"]), case["groups"]
    truth = H.invariant(A, groups)
    ctx.nt = _nt(case, A) or (not H.is_single_full_group(N, groups) and any(len(x) >= 2 for x in groups)
                               and case["data_class"] != "random")
    ctx.label(*H.sym_labels(case), "truth-" + str(truth), "old-path" if _uses_old_path(case) else "new-path",
              "details" if case["details"] else "plain")
    if case["size_mismatch"]:
        ctx.label("size-mismatch")
    if H.symmetric_early_not_later(A, groups):
        ctx.label("symmetric-in-earlier-group-not-in-later")
    with ctx.sut("tensor.issymmetric"):
        out = X.issymmetric(H.grps_arg(case), version=case["version"], return_details=case["details"])
    if case["details"] and not case["size_mismatch"]:
        ctx.require(isinstance(out, tuple) and len(out) == 3, "issymmetric-details-returns-triple", type(out).__name__)
        ans, diffs, perms = out
    else:
        ans, diffs, perms = (out[0], None, None) if isinstance(out, tuple) else (out, None, None)
    ctx.require(isinstance(ans, (bool, np.bool_)), "issymmetric-returns-bool", type(ans).__name__)
    ctx.check(bool(ans) == truth, "issymmetric-answer-equals-invariance-test", f"got {ans} truth {truth}")
    ctx.check(ref.same_exact(ref.den(X), A), "issymmetric-leaves-operand")
    # the same question again on the same object, through the other implementation and through the same one
    with ctx.sut("tensor.issymmetric-again"):
        again = X.issymmetric(H.grps_arg(case), version=case["version"], return_details=case["details"])
        other = X.issymmetric(H.grps_arg(case), version=None if case["version"] else 1)
    again = again[0] if isinstance(again, tuple) else again
    ctx.check(isinstance(again, (bool, np.bool_)) and bool(again) == bool(ans), "issymmetric-second-call-same-answer",
              f"{ans} then {again}")
    ctx.check(isinstance(other, (bool, np.bool_)) and bool(other) == truth, "issymmetric-two-implementations-agree",
              f"other version {other} truth {truth}")
    if diffs is not None:
        diffs, perms = np.asarray(diffs, dtype=float), np.asarray(perms)
        ctx.check(bool((diffs.reshape(-1) == 0).all()) == bool(ans), "issymmetric-details-consistent-with-answer", diffs.tolist())
        if H.is_single_full_group(N, groups):
            want_p = [list(p) for p in itertools.permutations(groups[0])]
            ctx.require(perms.shape == (len(want_p), N) and diffs.reshape(-1).shape == (len(want_p),),
                        "issymmetric-details-shapes", (perms.shape, diffs.shape))
            ctx.check(np.array_equal(perms, np.array(want_p)), "issymmetric-details-list-every-permutation", perms.tolist())
            want_d = [float(np.max(np.abs(A - np.transpose(A, p)))) if A.size else 0.0 for p in want_p]
            ctx.check(np.array_equal(diffs.reshape(-1), np.array(want_d)), "issymmetric-details-max-differences",
                      (diffs.reshape(-1).tolist(), want_d))


# --------------------------------------------------------------------------
# symmetrize
# --------------------------------------------------------------------------


def _check_symmetrize(ctx, X, A, case, version, tag):
    groups = case["groups"]
    garg = H.grps_arg(case)
    expect, nperm = H.sym_mean(A, groups)
    bound, _ = H.sym_mean(np.abs(A), groups)
    with ctx.sut(f"tensor.symmetrize-{tag}"):
        R = X.symmetrize(garg, version=version)
    ctx.require(isinstance(R, ttb.tensor) and tuple(R.shape) == A.shape, f"symmetrize-{tag}-returns-tensor-of-same-shape",
                type(R).__name__)
    got = ref.den(R)
    if case["vkind"] == "int":
        ok = ref.same_exact(got, expect)
    else:
        ok = ref.same_bound(got, expect, bound, nperm)
    ctx.check(ok, f"symmetrize-{tag}-is-permutation-average", ref.diff_info(got, expect))
    ctx.check(ref.same_exact(ref.den(X), A), f"symmetrize-{tag}-leaves-operand")
    ctx.check(H.invariant(got, groups), f"symmetrize-{tag}-result-exactly-symmetric")
    if case["data_class"] == "symmetric":
        keep = ref.same_exact(got, A) if case["vkind"] == "int" else ref.same_bound(got, A, np.abs(A), nperm)
        ctx.check(keep, f"symmetrize-{tag}-symmetric-input-keeps-value", ref.diff_info(got, A))
    # the result object itself passes the symmetry test (both implementations) whenever it is exactly symmetric
    if H.invariant(got, groups):
        with ctx.sut(f"tensor.issymmetric-on-{tag}-result"):
            a_new = R.issymmetric(garg)
            a_old = R.issymmetric(garg, version=1)
        ctx.check(bool(a_new) is True and bool(a_old) is True, f"symmetrize-{tag}-result-passes-issymmetric", (a_new, a_old))
    # the same call again on the same operand gives the same tensor; the first result is not disturbed
    with ctx.sut(f"tensor.symmetrize-{tag}-second-call"):
        Rb = X.symmetrize(garg, version=version)
    ctx.check(isinstance(Rb, ttb.tensor) and ref.same_exact(ref.den(Rb), got), f"symmetrize-{tag}-second-call-same",
              ref.diff_info(ref.den(Rb), got) if isinstance(Rb, ttb.tensor) else type(Rb).__name__)
    ctx.check(ref.same_exact(ref.den(R), got), f"symmetrize-{tag}-result-stable")
    with ctx.sut(f"tensor.symmetrize-{tag}-again"):
        R2 = R.symmetrize(garg, version=version)
    got2 = ref.den(R2)
    # (the first result is in general not integer-valued any more: averaging equal values may round in the last bit)
    same = ref.same_exact(got2, got) if ref.is_intvalued(got) else ref.same_bound(got2, got, np.abs(got), nperm)
    ctx.check(same, f"symmetrize-{tag}-idempotent", ref.diff_info(got2, got))
    # (round 3) the results are objects of their own, also where nothing had to be averaged: assigning into them
    # reaches neither the operand nor each other
    if A.size:
        first = tuple(0 for _ in A.shape)
        with ctx.sut(f"tensor.setitem-on-{tag}-result"):
            R2[first] = 987654.0
            R[first] = 123456.0
        ctx.check(ref.same_exact(ref.den(X), A), f"symmetrize-{tag}-result-does-not-alias-operand")
        ctx.check(ref.den(R)[first] == 123456.0 and ref.den(R2)[first] == 987654.0 and (
            not isinstance(Rb, ttb.tensor) or ref.same_exact(ref.den(Rb), got)), f"symmetrize-{tag}-results-do-not-alias-each-other")
    return R, got


@cell("C15/symmetrize/sampled", strategy=lambda tier: H.sym_case(tier), quick=1200, thorough=16000, shards=(2, 12))
def symmetrize(ctx, case):
    _symmetrize_body(ctx, case)


def _symmetrize_body(ctx, case):
    X, A, case = _operand(ctx, case)
    groups = case["groups"]
    ctx.nt = _nt(case, A)
    ctx.label(*H.sym_labels(case))
    if H.symmetric_early_not_later(A, groups):
        ctx.label("symmetric-in-earlier-group-not-in-later")
    Rn, gn = _check_symmetrize(ctx, X, A, case, None, "new")
    Ro, go = _check_symmetrize(ctx, X, A, case, 1, "old")
    bound, nperm = H.sym_mean(np.abs(A), groups)
    agree = ref.same_exact(gn, go) if case["vkind"] == "int" else ref.same_bound(gn, go, bound, 2 * nperm)
    ctx.check(agree, "symmetrize-new-and-old-agree", ref.diff_info(gn, go))
    # "the result passes the symmetry test": judged on the reference symmetrisation when it is exactly symmetric
    expect, _ = H.sym_mean(A, groups)
    if H.invariant(expect, groups):
        S = ttb.tensor(expect.copy(order="F"), tuple(case["shape"]))
        with ctx.sut("tensor.issymmetric-new-on-result"):
            a1 = S.issymmetric(H.grps_arg(case))
        ctx.check(bool(a1) is True, "symmetrized-passes-issymmetric-new", a1)
        with ctx.sut("tensor.issymmetric-old-on-result"):
            a2 = S.issymmetric(H.grps_arg(case), version=1)
        ctx.check(bool(a2) is True, "symmetrized-passes-issymmetric-old", a2)


# --------------------------------------------------------------------------
# enumeration: every set of disjoint equal-length groups x every small shape compatible with it
# --------------------------------------------------------------------------


def _enum_base(tier):
    plan = [(1, (1, 2, 3)), (2, (1, 2, 3)), (3, (1, 2, 3)), (4, (1, 2) if tier == "quick" else (1, 2, 3))]
    for N, sizes in plan:
        for groups in H.groupings(N):
            variants = [groups]
            if any(len(g) >= 2 for g in groups):
                variants.append([list(reversed(g)) for g in groups])
            free = [m for m in range(N) if not any(m in g for g in groups)]
            for gv in variants:
                for gs in itertools.product(sizes, repeat=len(groups)):
                    for fs in itertools.product(sizes, repeat=len(free)):
                        shape = [0] * N
                        for g, sz in zip(gv, gs):
                            for m in g:
                                shape[m] = sz
                        for m, sz in zip(free, fs):
                            shape[m] = sz
                        for dclass in ("asymmetric", "symmetric"):
                            yield dict(shape=shape, groups=[list(g) for g in gv], data_class=dclass,
                                       grps_form="2d" if len(gv) > 1 or N % 2 else "1d", vkind="int",
                                       structure="enumerated", size_mismatch=False)


def _enum_data(case):
    n = ref.prod(case["shape"])
    A = gen.arr_F(case["shape"], [float(((i * 7) % 11) - 3) for i in range(n)])
    if case["data_class"] == "symmetric":
        A = H.make_symmetric(A, case["groups"])
    return [float(x) for x in A.flatten(order="F")]


def _enum_issym(tier):
    for c in _enum_base(tier):
        for version, details in ((None, False), (1, False), (None, True)):
            yield dict(c, version=version, details=details)


@cell("C15/issymmetric/enumerated", enum=_enum_issym, shards=(4, 16))
def issymmetric_enumerated(ctx, case):
    """all groupings of orders 1..4 x all shapes with sizes 1..3 (order 4: 1..2 in the quick tier) x 3 call forms"""
    _issym_body(ctx, dict(case, data=_enum_data(case)))


@cell("C15/symmetrize/enumerated", enum=_enum_base, shards=(4, 16))
def symmetrize_enumerated(ctx, case):
    _symmetrize_body(ctx, dict(case, data=_enum_data(case)))


# --------------------------------------------------------------------------
# Kruskal tensors
# --------------------------------------------------------------------------


@st.composite
def _ksym_case(draw, tier):
    N = draw(st.sampled_from([1, 2, 2, 3, 3, 4]))
    I = draw(st.integers(1, 3 if tier == "quick" else 4))
    cls = draw(st.sampled_from(["random", "random", "equal-factors", "equal-up-to-sign-pairs", "non-cubical",
                                "near-equal-factors"]))
    shape = [I] * N
    if cls == "non-cubical" and N >= 2:
        shape[draw(st.integers(0, N - 1))] = I % 4 + 1
    c = draw(H8.kt(tier, shape=shape, max_rank=3))
    if cls in ("equal-factors", "equal-up-to-sign-pairs"):
        c["factors"] = [[list(r) for r in c["factors"][0]] for _ in range(N)]
        if cls == "equal-up-to-sign-pairs" and N >= 2:
            for r in range(c["rank"]):
                if draw(st.booleans()):
                    a, b = draw(st.permutations(range(N)))[:2]
                    for k in (a, b):
                        for row in c["factors"][k]:
                            row[r] = -row[r]
    if cls == "near-equal-factors":
        # (round 3) equal factors up to relative noise 1e-16 .. 1e-5 in the modes after the first: not symmetric by the
        # Kruskal test (exact equality of the factor matrices), whatever a tolerant comparison would say
        delta = draw(st.sampled_from([2.3e-16, 1e-14, 1e-12, 1e-10, 1e-8, 1e-6, 1e-5]))
        phase = draw(st.integers(0, 1000))
        base = [[(x if x != 0 else 1.5) for x in r] for r in c["factors"][0]]
        c["factors"] = [[[x * (1.0 + (delta * float(np.cos(phase + 1.7 * (i * c["rank"] + j) + 2.9 * k)) if k else 0.0))
                          for j, x in enumerate(r)] for i, r in enumerate(base)] for k in range(N)]
        c["vkind"] = "float"
        c["near_delta"] = delta
    c["class"] = cls if not (cls == "non-cubical" and N < 2) else "random"
    return c


def _den_symmetric(D, tol):
    N = D.ndim
    for a in range(N - 1):
        p = list(range(N))
        p[a], p[a + 1] = a + 1, a
        if D.shape != np.transpose(D, p).shape:
            return False
        if not bool((np.abs(D - np.transpose(D, p)) <= tol + np.transpose(tol, p)).all()):
            return False
    return True


@cell("C15/ktensor", strategy=_ksym_case, quick=1200, thorough=16000, shards=(2, 12))
def ktensor_sym(ctx, case):
    K, case = H8.operand(ctx, case)
    F0, w0 = H8.fms_of(case), H8.w_of(case)
    N, R = len(case["shape"]), case["rank"]
    cubical = len(set(case["shape"])) == 1
    equal = cubical and all(np.array_equal(F0[0], F) for F in F0)
    D0 = H8.den_case(case)
    B0 = H8.bound_case(case)
    nterm = R * (N + 4)
    ctx.nt = N >= 3 and R >= 2 and not equal
    ctx.label(f"order{N}", f"rank{R}", "class-" + case["class"], case["vkind"], "equal-factors" if equal else "unequal-factors",
              "neg-weight" if (w0 < 0).any() else "nonneg-weights")
    if case.get("near_delta"):
        ctx.label(f"near-delta-{case['near_delta']:g}")
    # ---- the Kruskal symmetry test
    with ctx.sut("ktensor.issymmetric"):
        ans = K.issymmetric()
    ctx.require(isinstance(ans, (bool, np.bool_)), "kt-issymmetric-returns-bool", type(ans).__name__)
    ctx.check(bool(ans) == equal, "kt-issymmetric-true-iff-all-factors-equal", (ans, equal))
    with ctx.sut("ktensor.issymmetric-again"):
        ans_b = K.issymmetric()
    ctx.check(isinstance(ans_b, (bool, np.bool_)) and bool(ans_b) == bool(ans), "kt-issymmetric-second-call-same-answer")
    if ans:
        ctx.check(_den_symmetric(D0, 64 * nterm * EPS * B0), "kt-issymmetric-true-implies-symmetric-array")
    with ctx.sut("ktensor.issymmetric-diffs"):
        out = K.issymmetric(return_diffs=True)
    ctx.require(isinstance(out, tuple) and len(out) == 2, "kt-issymmetric-diffs-returns-pair", type(out).__name__)
    ans2, diffs = out
    diffs = np.asarray(diffs, dtype=float)
    ctx.require(diffs.shape == (N, N), "kt-issymmetric-diffs-shape", diffs.shape)
    want = np.zeros((N, N))
    for i in range(N):
        for j in range(i + 1, N):
            want[i, j] = np.inf if F0[i].shape != F0[j].shape else float(np.linalg.norm(F0[i] - F0[j]))
    ctx.check(bool(ans2) == bool(ans), "kt-issymmetric-diffs-same-answer")
    fin = np.isfinite(want)
    ctx.check(bool((np.isfinite(diffs) == fin).all()) and np.allclose(diffs[fin], want[fin], rtol=1e-12, atol=0),
              "kt-issymmetric-diffs-are-factor-distances", (diffs.tolist(), want.tolist()))
    if not cubical:
        return
    # ---- symmetrize
    with ctx.sut("ktensor.symmetrize"):
        S = K.symmetrize()
    ctx.require(isinstance(S, ttb.ktensor), "kt-symmetrize-returns-ktensor", type(S).__name__)
    probs = H8.kt_ok(S, case["shape"], R)
    ctx.require(not probs, "kt-symmetrize-result-wellformed", probs)
    ctx.check(S is not K and np.array_equal(K.weights, w0) and all(np.array_equal(a, b) for a, b in zip(K.factor_matrices, F0)),
              "kt-symmetrize-leaves-operand")
    with ctx.sut("ktensor.issymmetric-on-result"):
        a3 = S.issymmetric()
    ctx.check(bool(a3) is True, "kt-symmetrized-passes-issymmetric", a3)
    DS = ref.den(S)
    BS = ref.abs_kruskal(S.weights, S.factor_matrices)
    ctx.check(_den_symmetric(DS, 64 * nterm * EPS * BS), "kt-symmetrized-array-is-symmetric")
    # an already symmetric tensor keeps its value: equal factors, or equal up to pairs of sign flips
    # (the latter denote the same array as the equal-factor tensor)
    # (the provenance 'near' puts different noise on every factor: the operand is then only nearly symmetric)
    if case["class"] in ("equal-factors", "equal-up-to-sign-pairs") and (case.get("prov") or {}).get("kind") != "near":
        ctx.check(ref.same_bound(DS, D0, B0, 4 * nterm), "kt-symmetrize-symmetric-input-keeps-value", ref.diff_info(DS, D0))
    # the same call again on the same operand: the same answer, the first result untouched
    snapS = (S.weights.copy(), [f.copy() for f in S.factor_matrices])
    with ctx.sut("ktensor.symmetrize-second-call"):
        Sb = K.symmetrize()
    ctx.check(isinstance(Sb, ttb.ktensor) and np.array_equal(Sb.weights, snapS[0]) and all(
        np.array_equal(a, b) for a, b in zip(Sb.factor_matrices, snapS[1])), "kt-symmetrize-second-call-same")
    ctx.check(np.array_equal(S.weights, snapS[0]) and all(np.array_equal(a, b) for a, b in zip(S.factor_matrices, snapS[1])),
              "kt-symmetrize-result-stable")
    # symmetrising again changes nothing
    with ctx.sut("ktensor.symmetrize-again"):
        S2 = S.symmetrize()
    D2 = ref.den(S2)
    ctx.check(ref.same_bound(D2, DS, BS, 4 * nterm), "kt-symmetrize-idempotent", ref.diff_info(D2, DS))
    # (round 3) the result is an object of its own, and its factor matrices are separate arrays: re-parameterising it
    # in place leaves the operand alone and the result symmetric
    with ctx.sut("ktensor.symmetrize-result-then-normalize-in-place"):
        S.normalize(weight_factor=0, normtype=1)
    ctx.check(np.array_equal(K.weights, w0) and all(np.array_equal(a, b) for a, b in zip(K.factor_matrices, F0)),
              "kt-symmetrize-result-does-not-alias-operand")
    DS2 = ref.den(S)
    ctx.check(ref.same_bound(DS2, DS, BS, 4 * nterm), "kt-symmetrize-result-factors-are-separate-arrays", ref.diff_info(DS2, DS))


# --------------------------------------------------------------------------
# round 4: the same request in several presentations; reporting options and environment; rejected specifications
# --------------------------------------------------------------------------


def _snap(X):
    d = np.asarray(X.data)
    return (d.copy(order="K"), d.dtype, tuple(d.shape), tuple(int(x) for x in X.shape), bool(d.flags["F_CONTIGUOUS"]))


def _same_state(X, snap):
    d = np.asarray(X.data)
    return (d.dtype == snap[1] and tuple(d.shape) == snap[2] and tuple(int(x) for x in X.shape) == snap[3]
            and bool(d.flags["F_CONTIGUOUS"]) == snap[4] and np.array_equal(d, snap[0]))


def _arg_snap(arg):
    return None if not isinstance(arg, np.ndarray) else (arg.copy(), arg.dtype, arg.shape)


def _arg_same(arg, snap):
    return snap is None or (isinstance(arg, np.ndarray) and arg.dtype == snap[1] and arg.shape == snap[2]
                            and np.array_equal(arg, snap[0]))


def _call_old(fn, arg, vform, *more):
    """the older implementation requested the way vform = (positional | keyword, value) says"""
    how, v = vform
    v = H.version_value(v)
    return fn(arg, v, *more) if how == "pos" else fn(arg, version=v, **({"return_details": more[0]} if more else {}))


def _check_details(ctx, A, listed, out, tag, dform):
    """(answer, differences, permutations): one row per permutation of every listed group, each a mode order that moves
    only the modes of that group; the reported difference of a row is max |A - transpose(A, row)|; the answer is true
    exactly when every reported difference is zero."""
    ctx.require(isinstance(out, tuple) and len(out) == 3, f"issymmetric-details-returns-triple-{tag}", type(out).__name__)
    ans, diffs, perms = out
    ctx.require(isinstance(ans, (bool, np.bool_)), f"issymmetric-returns-bool-{tag}", type(ans).__name__)
    N = A.ndim
    want_rows = []
    for g in listed:
        want_rows += [tuple(p) for p in H.full_perms(N, [sorted(g)])]
    diffs, perms = np.asarray(diffs, dtype=float).reshape(-1), np.asarray(perms)
    ctx.require(perms.shape == (len(want_rows), N) and diffs.shape == (len(want_rows),), "issymmetric-details-shapes",
                (perms.shape, diffs.shape))
    rows = [tuple(int(x) for x in r) for r in perms]
    ctx.check(sorted(rows) == sorted(want_rows) and np.array_equal(perms, np.array(rows)),
              "issymmetric-details-list-every-permutation-of-every-group", perms.tolist())
    ctx.check(bool((diffs == 0).all()) == bool(ans), "issymmetric-details-consistent-with-answer", diffs.tolist())
    if all(sorted(r) == list(range(N)) for r in rows) and dform != "uint8":
        want_d = np.array([float(np.max(np.abs(A - np.transpose(A, r)))) if A.size else 0.0 for r in rows])
        ok = np.array_equal(diffs, want_d) if dform != "float32" else bool(
            (np.abs(diffs - want_d) <= 2.0 ** -22 * np.maximum(want_d, np.max(np.abs(A)) if A.size else 0.0)).all())
        ctx.check(ok, "issymmetric-details-differences-belong-to-listed-permutations", (diffs.tolist(), want_d.tolist()))
    return bool(ans)


@cell("C15/presentation/issymmetric", strategy=lambda tier: H.pres_case(tier), quick=60, thorough=500, shards=(2, 12))
def pres_issymmetric(ctx, case):
    """the symmetry test put in every presentation of the same group specification x both implementations requested in
    every accepted way x details on / off (positionally and by keyword) x logging at DEBUG: one answer, the truth"""
    X, A = H.build_form(case)
    groups, dform = case["groups"], case["dform"]
    truth = H.invariant(A, groups)
    ctx.nt = any(len(g) >= 2 for g in groups) and (len(groups) > 1 or len(A.shape) >= 3) and case["data_class"] != "symmetric"
    ctx.label(*H.pres_labels(case), "truth-" + str(truth))
    snap = _snap(X)
    pres = [("2d-int64", np.array(groups, dtype=np.int64), True)] + H.grps_presentations(case)
    if sum(H.nperms([g]) for g in groups) > 24:
        # (the older implementation permutes the tensor once per listed permutation: a drawn subset of the presentations)
        pres = pres[:1] + [pres[1 + i % (len(pres) - 1)] for i in sorted(set(case["psel"]))]
        ctx.label("presentations-subset")
    k = case["psel"][0]
    for name, arg, _same in pres:
        asnap = _arg_snap(arg)
        listed = groups if arg is None else [list(int(x) for x in r) for r in np.atleast_2d(arg)]
        vform = H.OLD_VERSION_FORMS[k % len(H.OLD_VERSION_FORMS)]
        k += 1
        with ctx.sut("tensor.issymmetric-presentation"):
            a_new = X.issymmetric(arg) if k % 3 else X.issymmetric(arg, None, False)
            a_old = _call_old(X.issymmetric, arg, vform)
            d_new = X.issymmetric(arg, return_details=True) if k % 2 else X.issymmetric(arg, None, True)
            d_old = _call_old(X.issymmetric, arg, vform, True)
        ctx.label("grps-" + name, f"version-{vform[0]}-{vform[1]}")
        ok = all(isinstance(a, (bool, np.bool_)) for a in (a_new, a_old))
        ctx.check(ok, "issymmetric-returns-bool", (type(a_new).__name__, type(a_old).__name__, name, list(vform)))
        ctx.check(ok and bool(a_new) == truth, "issymmetric-presentation-answer-equals-invariance-test", (name, a_new, truth))
        ctx.check(ok and bool(a_old) == truth, "issymmetric-presentation-old-answer-equals-invariance-test",
                  (name, list(vform), a_old, truth))
        b1 = _check_details(ctx, A, listed, d_new, "default-version", dform)
        b2 = _check_details(ctx, A, listed, d_old, "old-version", dform)
        ctx.check(b1 == truth and b2 == truth, "issymmetric-details-do-not-change-the-answer", (name, b1, b2, truth))
        ctx.check(_arg_same(arg, asnap), "issymmetric-leaves-group-argument", name)
    ctx.check(_same_state(X, snap), "issymmetric-leaves-operand")
    # reporting environment: the root logger at DEBUG changes nothing
    arg = np.array(groups, dtype=np.int64)
    with H.debug_logging():
        with ctx.sut("tensor.issymmetric-debug-logging"):
            e_new = X.issymmetric(arg)
            e_old = X.issymmetric(arg, version=1)
            e_det = X.issymmetric(arg, return_details=True)
    ctx.check(isinstance(e_new, (bool, np.bool_)) and isinstance(e_old, (bool, np.bool_)) and bool(e_new) == truth
              and bool(e_old) == truth, "issymmetric-same-answer-under-debug-logging", (e_new, e_old, truth))
    _check_details(ctx, A, groups, e_det, "debug-logging", dform)
    ctx.check(_same_state(X, snap) and np.array_equal(arg, np.array(groups)), "issymmetric-leaves-operands-under-debug-logging")


@st.composite
def _pres_sym_case(draw, tier):
    c = draw(H.pres_case(tier))
    c["version"] = draw(st.sampled_from([None, None, 1]))
    return c


def _near(R, expect, bound, nperm, exact, single=False):
    """single: the operand holds float32 data - pyttb may sum it in single precision whatever the dtype of the result
    (the default version does), so the bound is the single-precision one and nothing is demanded exactly"""
    got = ref.den(R)
    single = single or np.asarray(R.data).dtype == np.float32
    if exact and not single:
        return ref.same_exact(got, expect)
    return ref.same_bound(got, expect, bound * (2.0 ** 29 if single else 1.0), nperm)


@cell("C15/presentation/symmetrize", strategy=_pres_sym_case, quick=60, thorough=500, shards=(2, 12))
def pres_symmetrize(ctx, case):
    """symmetrize with the group specification in every presentation: the same listing gives the same tensor bit for bit,
    another listing of the same groups the same average to the rounding bound, always exactly symmetric"""
    X, A = H.build_form(case)
    groups, version = case["groups"], case["version"]
    expect, nperm = H.sym_mean(A, groups)
    bound, _ = H.sym_mean(np.abs(A), groups)
    ctx.nt = any(len(g) >= 2 for g in groups) and not H.invariant(A, groups)
    ctx.label(*H.pres_labels(case), "old-version" if version else "default-version")
    if case.get("sub") and not H.invariant(A, groups):
        ctx.label("symmetric-in-sub-pair-only")
    snap = _snap(X)
    base = np.array(groups, dtype=np.int64)
    with ctx.sut("tensor.symmetrize-baseline"):
        R0 = X.symmetrize(base) if version is None else X.symmetrize(base, version=1)
    ctx.require(isinstance(R0, ttb.tensor) and tuple(R0.shape) == A.shape, "symmetrize-returns-tensor-of-same-shape",
                type(R0).__name__)
    got0 = ref.den(R0)
    # integer data: the old version divides an exact sum once; the default version averages group after group, exact
    # when every division is by a power of two or there is one group
    exact = case["vkind"] == "int" and (bool(version) or len(groups) == 1 or all(len(g) <= 2 for g in groups))
    single = case["dform"] == "float32"
    ctx.check(_near(R0, expect, bound, nperm, exact, single), "symmetrize-is-permutation-average", ref.diff_info(got0, expect))
    ctx.check(H.invariant(got0, groups), "symmetrize-result-exactly-symmetric")
    pres = H.grps_presentations(case)
    if nperm * A.size > 4000 and version:
        pres = [pres[i % len(pres)] for i in sorted(set(case["psel"]))]
        ctx.label("presentations-subset")
    k = case["psel"][1]
    for name, arg, same in pres:
        asnap = _arg_snap(arg)
        vform = H.OLD_VERSION_FORMS[k % len(H.OLD_VERSION_FORMS)]
        k += 1
        with ctx.sut("tensor.symmetrize-presentation"):
            if version is None:
                R = X.symmetrize(arg) if k % 3 else (X.symmetrize(arg, None) if k % 2 else X.symmetrize(grps=arg, version=None))
            else:
                R = _call_old(X.symmetrize, arg, vform)
        ctx.label("grps-" + name, "same-listing" if same else "other-listing")
        ctx.require(isinstance(R, ttb.tensor) and tuple(R.shape) == A.shape, "symmetrize-returns-tensor-of-same-shape",
                    (name, type(R).__name__))
        got = ref.den(R)
        if same:
            ctx.check(ref.same_exact(got, got0), "symmetrize-presentation-same-answer",
                      (name, list(vform) if version else None, ref.diff_info(got, got0)))
        else:
            ctx.check(_near(R, expect, bound, 2 * nperm, False, single), "symmetrize-presentation-is-permutation-average",
                      (name, ref.diff_info(got, expect)))
        ctx.check(H.invariant(got, groups), "symmetrize-presentation-result-exactly-symmetric", name)
        ctx.check(_arg_same(arg, asnap), "symmetrize-leaves-group-argument", name)
    ctx.check(_same_state(X, snap), "symmetrize-leaves-operand")
    with H.debug_logging():
        with ctx.sut("tensor.symmetrize-debug-logging"):
            Re = X.symmetrize(base) if version is None else X.symmetrize(base, version=1)
    ctx.check(isinstance(Re, ttb.tensor) and ref.same_exact(ref.den(Re), got0), "symmetrize-same-answer-under-debug-logging")
    ctx.check(_same_state(X, snap) and np.array_equal(base, np.array(groups)), "symmetrize-leaves-operands-under-debug-logging")
    ctx.check(ref.same_exact(ref.den(R0), got0), "symmetrize-result-stable")


MUST_REJECT = ("mismatch", "overlap", "out-of-range")


@cell("C15/rejected", strategy=lambda tier: H.bad_case(tier), quick=80, thorough=800, shards=(2, 12))
def rejected(ctx, case):
    """an ill-formed group specification (mode sizes differing inside a group - at any position, against extents of 1;
    groups sharing a mode - adjacent or not; a mode that does not exist) is rejected by both versions of symmetrize; a
    specification pyttb may or may not accept (list, tuple, float array, empty group) is rejected or answered
    correctly; in every case the receiver and the argument are what they were, and the next valid request is answered
    as if nothing had happened"""
    X, A = H.build_form(case)
    kind, valid, bad = case["kind"], case["groups"], case["bad"]
    N = len(case["shape"])
    one_d = case["form"] == "1d" and len(bad) == 1
    if kind == "list-of-lists":
        arg = list(valid[0]) if one_d else [list(g) for g in valid]
    elif kind == "tuple":
        arg = tuple(valid[0]) if one_d else tuple(tuple(g) for g in valid)
    elif kind == "float-array":
        arg = np.array(valid[0] if one_d else valid, dtype=float)
    elif kind == "empty-group":
        arg = np.zeros((0,) if one_d else (1, 0), dtype=np.int64)
    else:
        arg = H.grps_array(bad, "1d" if one_d else "2d", case["gdtype"])
    must = kind in MUST_REJECT
    ctx.nt = must
    ctx.label(f"order{N}", "kind-" + kind, "dform-" + case["dform"], "grps-" + ("1d" if one_d else "2d"),
              "all-extents-1" if set(case["shape"]) == {1} else ("all-extents-equal" if len(set(case["shape"])) == 1 else "mixed-extents"),
              "grp-" + case["structure"])
    if kind == "mismatch":
        ctx.label(f"mismatch-at-position-{min(case['note']['pos'], 2)}", "mismatch-in-group-%d" % min(case["note"]["group"], 1))
    if kind == "overlap" and case.get("note") and case["note"]["pair"][1] - case["note"]["pair"][0] > 1:
        ctx.label("overlap-of-non-adjacent-groups")
    snap, asnap = _snap(X), _arg_snap(arg)
    eff = valid if kind in ("list-of-lists", "tuple", "float-array") else ([] if kind == "empty-group" else None)
    for tag, version in (("new", None), ("old", 1)):
        R, raised = None, False
        try:
            R = X.symmetrize(arg, version=version)
        except Exception:  # noqa: BLE001
            raised = True
        ctx.label(f"symmetrize-{tag}-" + ("raised" if raised else "returned"))
        if must:
            ctx.check(raised, f"symmetrize-{tag}-rejects-{kind}", type(R).__name__)
        elif not raised and eff is not None:
            expect, nperm = H.sym_mean(A, eff)
            bound, _ = H.sym_mean(np.abs(A), eff)
            ctx.check(isinstance(R, ttb.tensor) and tuple(R.shape) == A.shape and ref.same_bound(ref.den(R), expect, bound, nperm),
                      f"symmetrize-{tag}-rejected-or-correct", kind)
        ctx.check(_same_state(X, snap), f"symmetrize-{tag}-receiver-unchanged-after-rejected-request", kind)
        ctx.check(_arg_same(arg, asnap), f"symmetrize-{tag}-group-argument-unchanged-after-rejected-request", kind)
    for tag, kw in (("new", {}), ("old", {"version": 1}), ("details", {"return_details": True})):
        out, raised = None, False
        try:
            out = X.issymmetric(arg, **kw)
        except Exception:  # noqa: BLE001
            raised = True
        ans = out[0] if isinstance(out, tuple) and out else out
        if kind == "out-of-range":
            # (the test may stop at an earlier group that is already not symmetric: False is then the answer)
            good = [g for g in bad if all(m < N for m in g)]
            ctx.check(raised or (isinstance(ans, (bool, np.bool_)) and not bool(ans) and not H.invariant(A, good)),
                      f"issymmetric-{tag}-rejects-out-of-range", ans)
        elif kind in ("mismatch", "overlap"):
            truth = False if kind == "mismatch" else H.invariant(A, bad)
            ctx.check(not raised and isinstance(ans, (bool, np.bool_)) and bool(ans) == truth,
                      f"issymmetric-{tag}-answer-on-{kind}", (raised, ans, truth))
        elif not raised and eff is not None:
            truth = H.invariant(A, eff)
            ctx.check(isinstance(ans, (bool, np.bool_)) and bool(ans) == truth, f"issymmetric-{tag}-rejected-or-correct", (kind, ans))
        ctx.check(_same_state(X, snap), f"issymmetric-{tag}-receiver-unchanged-after-rejected-request", kind)
        ctx.check(_arg_same(arg, asnap), f"issymmetric-{tag}-group-argument-unchanged-after-rejected-request", kind)
    # the next valid request is answered as if the rejected ones had not been made
    if kind == "mismatch":
        vg = [g for i, g in enumerate(valid) if H.sizes_match(case["shape"], [g])] or [[valid[0][0]]]
    else:
        vg = valid
    garg = np.array(vg, dtype=np.int64)
    expect, nperm = H.sym_mean(A, vg)
    bound, _ = H.sym_mean(np.abs(A), vg)
    with ctx.sut("tensor.symmetrize-after-rejected-request"):
        Rn = X.symmetrize(garg)
        Ro = X.symmetrize(garg, version=1)
        a1 = X.issymmetric(garg)
        a2 = X.issymmetric(garg, version=1)
    for tag, R in (("new", Rn), ("old", Ro)):
        ctx.check(isinstance(R, ttb.tensor) and tuple(R.shape) == A.shape and ref.same_bound(ref.den(R), expect, bound, nperm)
                  and H.invariant(ref.den(R), vg), f"symmetrize-{tag}-after-rejected-request-is-permutation-average")
    truth = H.invariant(A, vg)
    ctx.check(bool(a1) == truth and bool(a2) == truth, "issymmetric-after-rejected-request-answer-equals-invariance-test",
              (a1, a2, truth))
    ctx.check(_same_state(X, snap), "receiver-unchanged-at-the-end")


# --------------------------------------------------------------------------
# predicates for known findings
# --------------------------------------------------------------------------


def _cf(case):
    return H.cf_classes_differ(case["shape"], case["groups"])


PREDICATES = {
    # new algorithm (version None, no details) on inputs where C-order and F-order enumeration disagree on classes
    "new_path_cf_classes_differ": lambda case: (not _uses_old_path(case)) and _cf(case),
    "cf_classes_differ": _cf,
    # old algorithm on anything but one group holding every mode
    "old_path_not_single_full_group": lambda case: _uses_old_path(case) and not case.get("size_mismatch")
    and not H.is_single_full_group(len(case["shape"]), case["groups"]),
    "not_single_full_group": lambda case: not H.is_single_full_group(len(case["shape"]), case["groups"]),
}
