"""C13 — GCP solvers keep the best model, respect bounds, sample validly and are reusable."""

from __future__ import annotations

import logging

import numpy as np
from hypothesis import strategies as st

import pyttb as ttb
from pyttb.gcp import fg_setup, samplers
from pyttb.gcp.optimizers import LBFGSB, SGD, Adagrad, Adam
from pyttb.gcp.samplers import GCPSampler, Samplers, StratifiedCount

from .. import gen, ref
from ..core import cell
from . import _c12_helpers as H

PROPERTY = "C13"
RULE = (
    "samplers: sparse/dense data with a drawn fill class (one nonzero / some / nearly full / full), stored order, "
    "magnitude (1e-6..1e6), integer dtype for counts and provenance state (constructor / NumPy-int shape / grown by "
    "assignment / converted from dense; dense: grown, integer and boolean dtypes); requested counts 0..3x the "
    "available zeros / nonzeros incl. avail-1, avail, avail+1; np_seed; direct calls of uniform/stratified/semistrat "
    "and GCPSampler configurations (incl. over_sample_rate); oracle = subscripts inside the shape, values = data "
    "there (drawn zeros are true zeros; semistrat: nonzero part only), one weight per sample, weight totals = "
    "stratum sizes.  sampler reuse: sequences of 2..4 draws from one GCPSampler, each equal to the draw of a freshly "
    "built sampler (fresh data object) from the same random state and to a repeated draw; direct samplers twice.  "
    "solvers: SGD/Adam/Adagrad through gcp_opt on tiny problems (6 losses, dense/sparse, data in float or integer "
    "dtype / grown / C-order input, Gaussian data scaled 1e-3..1e3, guess as factor list / ktensor fresh, normalised, "
    "arranged or weighted / random; epoch_iters 1..4, max_iters 0..6, max_fails 0..2, f_est_tol, printitn, Adam "
    "beta/epsilon, rates that make failed epochs common) with a recording sampler wrapper; oracle = trace length "
    "1+completed epochs, trace[0] = my estimate of the initial model on the recorded function sample, my estimate "
    "of the returned model = min(trace) <= trace[0], entries >= lower bound; L-BFGS-B (masks as float/int/bool "
    "tensors, maxls): final_f = my weighted objective of the returned model <= objective of the guess, bounds.  "
    "reuse: sequences of 2..4 solves on one optimizer object (optionally the same data and GCPSampler objects), each "
    "compared bit-for-bit with a fresh object given the same arguments and np seed.  "
    "sampler/large: a few sparse tensors per run with 60000 cells and 1e4..3e4 stored nonzeros in row-major / "
    "column-major / reversed / random stored order (also 1-way and 5-way), sample counts at block edges (1024 .. 32768 "
    "+-1) up to 2 x nnz, every sampler kind, dense NumPy oracle.  sampler/edited: the data object is sampled, edited in "
    "place by item assignment (stored values changed / entries added or removed) and sampled again - by the same "
    "GCPSampler when the pattern is unchanged, by a new one otherwise, and by the direct samplers: samples describe the "
    "data as it stands and equal the draw from a freshly constructed tensor.  L-BFGS-B options over their whole range "
    "incl. early exits (maxiter / maxfun 1..3, maxls 1..3, factr 0 .. 1e15, pgtol 0 .. 1e3) and starts 30x / 300x off "
    "scale: 'never returns a higher objective than it started from' holds for every termination reason.  Guesses "
    "with entries exactly at the lower bound 0 or next to it (1e-300, 1e-12).  reuse also with ONE data object edited "
    "in place between the solves (same-size problems).  "
    "round 4 - solve/* also with every function_sampler x gradient_sampler pair of GCPSampler on sparse data (counts as int / "
    "StratifiedCount / default).  report/*: one request run quiet (printitn 0 / -1 / False) and verbose (solver printitn 1..7, "
    "gcp_opt printitn, SciPy's silent disp / iprint, root logger at DEBUG / INFO with a NullHandler and logging.disable lifted) "
    "from the same np seed: guess, model, traces and counters identical bit for bit; the verbose run judged by the solve clauses.  "
    "present/*: one request in two presentations (NumPy int scalars as counts / rank / limits, int32 / uint8 / uint16 / uint64 "
    "subscripts, float32 values that are exactly representable, read-only buffers handed over with copy=False, guess as tuple / "
    "read-only arrays, mask as ndarray): same sample / same result bit for bit (Adam: first epoch to 1e-9, float32 data: "
    "single-precision bound) and the second presentation satisfies the property's clauses; sampler/huge also with NumPy counts and "
    "int32 subscripts.  rejected/*: histories on one optimizer / sampler object in which valid requests are preceded by rejected ones "
    "(gcp_opt argument checks, model not fitting the data, the caller's objective / gradient / sampler / callback raising in "
    "mid-solve; ill-formed GCPSampler configurations, draws from a tensor of the wrong kind, direct sampler calls that cannot be "
    "served): operands bit for bit unchanged, every later valid request equals that of a fresh object.  "
    "Non-trivial: sampler case with both strata non-empty and >= 2 samples; solve with >= 1 failed epoch; "
    "sequence with >= 2 solves of different size."
)
ASSUMPTIONS = [
    "the data tensor has at least one nonzero (an all-zero tensor is not a GCP problem)",
    "a request for k > 0 samples from an EMPTY stratum (zeros of a full tensor, nonzeros of ... ) cannot be served; "
    "it may raise, and if it returns the sample must still be consistent",
    "values are compared as np.ravel(vals): a sampler may return a column or a 0-d array as long as there is one "
    "value per sample (the shape matters to the solver cells, where the estimate on the sample is recomputed)",
    "semistrat 'zero' samples are unconfirmed by design: only subscripts-in-range, value 0 and weights are checked",
    "SGD may legitimately stop with ValueError('Infinite gradient encountered') when the step size diverges",
    "estimates on a sample are compared with the C12 tolerances (64 eps x term scale + model rounding, x n)",
    "reuse: 'equal' = identical factor matrices, weights and f_est_trace / final_f (bitwise); sampler reuse: identical "
    "subscripts, values and weights (a draw that raises must raise in the fresh sampler too)",
    "a GCPSampler precomputes the nonzero pattern of the tensor it was built for: after an edit that changes the "
    "pattern a new sampler is built (on the same, edited object); after a value-only edit the old sampler is kept",
    "L-BFGS-B: a start whose objective is not finite (exp overflow for bernoulli_logit far off scale) is skipped; when "
    "SciPy reports an abnormal termination, final_f is SciPy's value of the last trial point and is not compared",
    "rejected/*: whether an ill-formed request is rejected is not demanded (the property does not say); demanded is only that "
    "after a request that raised, operands and the optimizer / sampler object behave as before",
    "present/solve: Adam computes beta ** iterations - with epoch_iters a NumPy integer NumPy's pow replaces Python's (last-bit "
    "differences), so Adam runs are compared bit for bit only up to the starting value; float32 data: single-precision bounds "
    "(tolerances x eps32/eps64), no bitwise agreement demanded",
    "SciPy's iprint >= 0 / disp > 0 print from Fortran to the process's stdout and are not exercised",
    "sparse data with explicitly stored zeros is not generated for the samplers: whether a stored zero belongs to "
    "the 'nonzero' stratum (stratification is by stored entries) is not settled by the property",
]

EPS = H.EPS
logging.getLogger().setLevel(logging.ERROR)  # pyttb logs a warning per ktensor copy / short zero sample

# --------------------------------------------------------------------------
# data for samplers
# --------------------------------------------------------------------------


@st.composite
def _sp_data(draw, tier, min_order=1, max_order=3, fills=("one", "some", "some", "some", "nearly-full", "nearly-full", "full")):
    shape = draw(gen.shapes(tier, min_order=min_order, max_order=max_order, max_cells=24 if tier == "quick" else 60))
    n = ref.prod(shape)
    fill = draw(st.sampled_from(list(fills)))
    vk = draw(st.sampled_from(["count", "float"]))
    val = st.integers(1, 9).map(float) if vk == "count" else gen.NZ_GEN_VALUES
    if fill == "one":
        mask = [False] * n
        mask[draw(st.integers(0, n - 1))] = True
    elif fill == "some":
        mask = draw(st.lists(st.booleans(), min_size=n, max_size=n))
        if not any(mask):
            mask[draw(st.integers(0, n - 1))] = True
    elif fill == "nearly-full":
        mask = [True] * n
        if n > 1:
            mask[draw(st.integers(0, n - 1))] = False
    else:
        mask = [True] * n
    vals = draw(st.lists(val, min_size=n, max_size=n))
    flat = [v if m else 0.0 for m, v in zip(mask, vals)]
    allsubs = ref.all_subs_F(shape)
    entries = [(list(s), v) for s, v in zip(allsubs, flat) if v != 0.0]
    order = draw(st.sampled_from(["sorted", "reverse", "random"]))
    if order == "reverse":
        entries = entries[::-1]
    elif order == "random" and len(entries) > 1:
        p = draw(st.permutations(range(len(entries))))
        entries = [entries[i] for i in p]
    nnz = len(entries)
    fill = "full" if nnz == n else fill
    # data magnitude (floats: 1e-6 .. 1e+6) / integer dtype (counts) / state the tensor object is in
    vscale = draw(st.sampled_from([1.0, 1.0, 1.0, 1e-6, 1e6])) if vk == "float" else 1.0
    vdtype = draw(st.sampled_from(["float64", "float64", "int64", "int32", "uint8"])) if vk == "count" else "float64"
    dprov = draw(st.sampled_from(["ctor", "ctor", "ctor", "np-shape", "grown", "from-dense"]))
    return dict(shape=shape, subs=[e[0] for e in entries], vals=[e[1] * vscale for e in entries], fill=fill, stored=order,
                nnz=nnz, nzeros=n - nnz, vdtype=vdtype, dprov=dprov, vscale=vscale)


def _build_sp(case):
    """the sparse data tensor in the drawn dtype and provenance state (public API only; when a route does not lead to
    the wanted tensor - those routes are judged by other properties - the constructor is used)"""
    shape = tuple(case["shape"])
    n = len(case["subs"])
    if n == 0:
        return ttb.sptensor(shape=shape)
    subs = np.array(case["subs"], dtype=int).reshape(n, len(shape))
    vals = H.typed(case["vals"], case.get("vdtype")).reshape(n, 1)
    prov = case.get("dprov", "ctor")
    S = None
    try:
        if prov == "np-shape":
            S = ttb.sptensor(subs, vals, tuple(np.array(shape, dtype=np.int64)))
        elif prov == "from-dense":
            A = np.zeros(shape, dtype=vals.dtype)
            A[tuple(subs.T)] = vals[:, 0]
            S = ttb.tensor(A).to_sptensor()
        elif prov == "grown":
            cand = [m for m in range(len(shape)) if shape[m] >= 2 and np.any(subs[:, m] == shape[m] - 1)]
            if cand:
                m = cand[-1]
                small = list(shape)
                small[m] -= 1
                inside = subs[:, m] < shape[m] - 1
                S = ttb.sptensor(subs[inside], vals[inside], tuple(small)) if inside.any() else ttb.sptensor(shape=tuple(small))
                for sub, v in zip(subs[~inside], vals[~inside]):
                    S[tuple(int(i) for i in sub)] = v[0].item()
    except Exception:  # noqa: BLE001
        S = None
    if S is not None and not (tuple(int(x) for x in S.shape) == shape and np.array_equal(ref.den(S), gen.dense_of_sparse_case(case))):
        S = None
    return ttb.sptensor(subs, vals, shape) if S is None else S


def _sp_labels(ctx, case, S):
    ctx.label("data-" + case.get("dprov", "ctor"), "vals-" + str(S.vals.dtype), f"scale-{case.get('vscale', 1.0)}")
    if not all(type(x) is int for x in S.shape):
        ctx.label("shape-holds-numpy-ints")


def _count(avail):
    """requested sample count for a stratum with `avail` entries: 0 .. 3x"""
    return st.one_of(st.sampled_from([0, 1, 1, 2]), st.integers(1, max(1, avail)), st.integers(1, max(1, avail)),
                     st.integers(avail + 1, 3 * avail + 2), st.sampled_from([max(0, avail - 1), avail, avail + 1]))


def _dense_of(case):
    return gen.dense_of_sparse_case(case)


def _nz_idx(case):
    """sorted linear indices (first subscript fastest) of the stored nonzeros — my own index arithmetic"""
    return np.array(sorted(ref.lin_index(s, case["shape"]) for s in case["subs"]), dtype=int)


# --------------------------------------------------------------------------
# sample validation
# --------------------------------------------------------------------------


def _check_triple(ctx, out, N):
    ctx.require(isinstance(out, tuple) and len(out) == 3, "sample-is-(subs,vals,weights)", type(out).__name__)
    subs, vals, wts = out
    ctx.require(isinstance(subs, np.ndarray), "subscripts-are-an-array", type(subs).__name__)
    vals, wts = np.asarray(vals), np.asarray(wts)  # (a single value may come back as a scalar)
    n = subs.shape[0] if subs.ndim == 2 else -1
    ctx.require(subs.ndim == 2 and (subs.shape[1] == N or n == 0), "subscripts-are-n-by-order", subs.shape)
    ctx.require(np.size(vals) == n and np.size(wts) == n, "one-value-and-weight-per-subscript",
                f"{n} subscripts, {np.size(vals)} values, {np.size(wts)} weights")
    ctx.require(n == 0 or np.issubdtype(subs.dtype, np.integer), "subscripts-are-integers", subs.dtype)
    return subs, np.ravel(vals).astype(float), np.ravel(wts).astype(float), n


def _in_range(subs, shape):
    return bool(np.all(subs >= 0) and np.all(subs < np.array(shape)[None, :])) if subs.size else True


def _total_ok(w, expect):
    return abs(float(np.sum(w)) - expect) <= 16 * max(1, len(w)) * EPS * expect


def _check_stratified(ctx, A, subs, vals, wts, k, confirm_zeros=True):
    """first k samples = nonzeros of A with their values, the rest zeros; weight totals per stratum"""
    shape = A.shape
    ctx.check(_in_range(subs, shape), "subscripts-inside-tensor")
    if not _in_range(subs, shape):
        return
    at = np.asarray(A[tuple(subs.T)], dtype=float) if len(subs) else np.zeros(0)
    nnz = int(np.count_nonzero(A))
    nz, zz = slice(0, k), slice(k, None)
    ctx.check(bool(np.all(at[nz] != 0)) and np.array_equal(vals[nz], at[nz]), "nonzero-samples-carry-data-values")
    ctx.check(bool(np.all(vals[zz] == 0)), "zero-samples-have-value-zero")
    if confirm_zeros:
        ctx.check(bool(np.all(at[zz] == 0)), "zero-samples-are-true-zeros",
                  f"{int(np.count_nonzero(at[zz]))} of {len(at[zz])} 'zero' samples sit on nonzeros")
    if k > 0:
        ctx.check(_total_ok(wts[nz], nnz), "nonzero-weights-total-nnz", f"{np.sum(wts[nz])} vs {nnz}")
    if len(wts[zz]) > 0:
        expect = A.size - nnz if confirm_zeros else A.size
        ctx.check(_total_ok(wts[zz], expect), "zero-weights-total-stratum-size", f"{np.sum(wts[zz])} vs {expect}")
    ctx.check(bool(np.all(wts > 0)) if len(wts) else True, "weights-positive")


# --------------------------------------------------------------------------
# samplers called directly
# --------------------------------------------------------------------------


@st.composite
def _uniform_case(draw, tier):
    c = draw(gen.dense_case(tier, min_order=1, max_order=3, max_cells=24))
    n = ref.prod(c["shape"])
    c["samples"] = draw(_count(n))
    c["np_seed"] = draw(st.integers(0, 2**31 - 1))
    c["ddtype"] = draw(st.sampled_from(["float64", "float64", "int64", "int32", "uint8", "bool"])) if c["vkind"] == "int" else "float64"
    return c


def _build_dense(case):
    """dense data tensor: gen.build_tensor (constructor or grown), in an integer dtype where that is exact"""
    T = gen.build_tensor(case)
    A = gen.arr_F(case["shape"], case["data"])
    At = H.typed(A, case.get("ddtype"))
    if At.dtype != np.float64 and not gen.is_grown(T):
        T = ttb.tensor(At.copy(order="F"), tuple(case["shape"]))
    return T


@cell("C13/sampler/uniform", strategy=_uniform_case, quick=400, thorough=8000, shards=(1, 4))
def sampler_uniform(ctx, case):
    T = _build_dense(case)
    A = gen.arr_F(case["shape"], case["data"])
    k = case["samples"]
    ctx.label("data-" + str(T.data.dtype), "buffer-not-F-ordered" if gen.is_grown(T) else "buffer-F-ordered")
    ctx.label(*gen.shape_classes(case["shape"]), "samples-0" if k == 0 else ("samples>cells" if k > A.size else "samples<=cells"))
    ctx.nt = k >= 2 and A.size >= 2
    np.random.seed(case["np_seed"])
    with ctx.sut("samplers.uniform"):
        out = samplers.uniform(T, k)
    subs, vals, wts, n = _check_triple(ctx, out, A.ndim)
    ctx.check(n == k, "number-of-samples-as-requested", f"{n} vs {k}")
    ctx.check(_in_range(subs, A.shape), "subscripts-inside-tensor")
    if _in_range(subs, A.shape):
        at = np.array([A[tuple(s)] for s in subs], dtype=float)
        ctx.check(np.array_equal(at, vals), "values-equal-data")
    if n:
        ctx.check(_total_ok(wts, A.size), "weights-total-number-of-entries", f"{np.sum(wts)} vs {A.size}")
    ctx.check(np.array_equal(ref.den(T), A), "sampler-leaves-data")


@st.composite
def _stratified_case(draw, tier):
    c = draw(_sp_data(tier))
    c["num_nonzeros"] = draw(_count(c["nnz"]))
    c["num_zeros"] = draw(_count(c["nzeros"]))
    c["over_sample_rate"] = draw(st.sampled_from([1.1, 1.1, 1.5, 3.0]))
    c["np_seed"] = draw(st.integers(0, 2**31 - 1))
    return c


@cell("C13/sampler/stratified", strategy=_stratified_case, quick=600, thorough=12000, shards=(1, 4))
def sampler_stratified(ctx, case):
    S = _build_sp(case)
    A = _dense_of(case)
    _sp_labels(ctx, case, S)
    knz, kz = case["num_nonzeros"], case["num_zeros"]
    impossible = kz > 0 and case["nzeros"] == 0
    ctx.label("fill-" + case["fill"], "stored-" + case["stored"], "kz=0" if kz == 0 else (
        "kz>avail" if kz > case["nzeros"] else "kz<=avail"), "knz=0" if knz == 0 else (
        "knz>avail" if knz > case["nnz"] else "knz<=avail"))
    ctx.nt = knz >= 1 and kz >= 1 and knz + kz >= 2 and not impossible
    np.random.seed(case["np_seed"])
    if impossible:
        ctx.label("zeros-requested-none-exist")
        try:
            out = samplers.stratified(S, _nz_idx(case), knz, kz, case["over_sample_rate"])
        except Exception:  # noqa: BLE001   (cannot be served: rejecting is fine)
            return
    else:
        with ctx.sut("samplers.stratified"):
            out = samplers.stratified(S, _nz_idx(case), knz, kz, case["over_sample_rate"])
    subs, vals, wts, n = _check_triple(ctx, out, A.ndim)
    if not impossible:
        # (the zero rejection sampler documents that it may obtain fewer zeros than requested)
        ctx.check(knz <= n <= knz + kz, "number-of-samples-at-most-as-requested", f"{n} vs {knz}+{kz}")
    _check_stratified(ctx, A, subs, vals, wts, knz)
    ctx.check(np.array_equal(ref.den(S), A), "sampler-leaves-data")


@st.composite
def _semistrat_case(draw, tier):
    c = draw(_sp_data(tier))
    c["num_nonzeros"] = draw(_count(c["nnz"]))
    c["num_zeros"] = draw(_count(ref.prod(c["shape"])))
    c["np_seed"] = draw(st.integers(0, 2**31 - 1))
    return c


@cell("C13/sampler/semistrat", strategy=_semistrat_case, quick=400, thorough=8000, shards=(1, 4))
def sampler_semistrat(ctx, case):
    S = _build_sp(case)
    A = _dense_of(case)
    _sp_labels(ctx, case, S)
    knz, kz = case["num_nonzeros"], case["num_zeros"]
    ctx.label("fill-" + case["fill"], "kz=0" if kz == 0 else "kz>0", "knz=0" if knz == 0 else "knz>0")
    ctx.nt = knz >= 1 and kz >= 1
    np.random.seed(case["np_seed"])
    with ctx.sut("samplers.semistrat"):
        out = samplers.semistrat(S, knz, kz)
    subs, vals, wts, n = _check_triple(ctx, out, A.ndim)
    ctx.check(n == knz + kz, "number-of-samples-as-requested", f"{n} vs {knz}+{kz}")
    _check_stratified(ctx, A, subs, vals, wts, knz, confirm_zeros=False)


# --------------------------------------------------------------------------
# GCPSampler configurations
# --------------------------------------------------------------------------


def _samples_arg(draw, nnz, nzeros, stratified):
    kind = draw(st.sampled_from(["default", "int", "count"] if stratified else ["default", "int"]))
    if kind == "default":
        return None
    if kind == "int":  # (a request for no samples at all is a degenerate but well-formed request)
        return draw(st.one_of(st.just(0), st.integers(1, 2 * (nnz + nzeros) + 2), st.integers(1, 2 * (nnz + nzeros) + 2),
                              st.integers(1, 2 * (nnz + nzeros) + 2)))
    return [draw(st.one_of(st.just(0), st.integers(1, 2 * nnz + 1), st.integers(1, 2 * nnz + 1), st.integers(1, 2 * nnz + 1))),
            draw(st.integers(0 if nzeros == 0 else 1, 2 * nzeros + 1))]


@st.composite
def _gcpsampler_case(draw, tier):
    holder = draw(st.sampled_from(["sparse", "sparse", "dense"]))
    c = draw(_sp_data(tier))
    c["holder"] = holder
    if holder == "dense":
        c["fs"], c["gs"] = draw(st.sampled_from([None, "UNIFORM"])), draw(st.sampled_from([None, "UNIFORM"]))
        c["fn"] = _samples_arg(draw, c["nnz"], c["nzeros"], False)
        c["gn"] = _samples_arg(draw, c["nnz"], c["nzeros"], False)
    else:
        c["fs"] = draw(st.sampled_from([None, "STRATIFIED", "UNIFORM"]))
        c["gs"] = draw(st.sampled_from([None, "STRATIFIED", "SEMISTRATIFIED", "UNIFORM"]))
        c["fn"] = _samples_arg(draw, c["nnz"], c["nzeros"], c["fs"] != "UNIFORM")
        c["gn"] = _samples_arg(draw, c["nnz"], c["nzeros"], c["gs"] != "UNIFORM")
    c["max_iters"] = draw(st.sampled_from([1000, 1000, 1, 7]))
    c["over_sample_rate"] = draw(st.sampled_from([None, None, 1.1, 1.5, 3.0, 10.0]))
    c["np_seed"] = draw(st.integers(0, 2**31 - 1))
    return c


def _mk_count(x):
    if isinstance(x, list):
        return StratifiedCount(num_nonzeros=x[0], num_zeros=x[1])
    return x


def _asks_zeros(case, which):
    """does the configuration ask for > 0 zero samples? (int n => n zeros; default => min(.., nzeros))"""
    n = case[which]
    if isinstance(n, list):
        return n[1] > 0
    if n is None:
        return case["nzeros"] > 0
    return n > 0


def _check_gcp_sample(ctx, case, A, out, kind, k_nonzero, tag):
    subs, vals, wts, n = _check_triple(ctx, out, A.ndim)
    if kind == "uniform":
        ctx.check(_in_range(subs, A.shape), f"{tag}:subscripts-inside-tensor")
        if _in_range(subs, A.shape):
            at = np.array([A[tuple(s)] for s in subs], dtype=float)
            ctx.check(np.array_equal(at, vals), f"{tag}:values-equal-data")
        if n:
            ctx.check(_total_ok(wts, A.size), f"{tag}:weights-total-number-of-entries")
        return
    k = int(np.count_nonzero(vals)) if k_nonzero is None else k_nonzero
    _check_stratified(ctx, A, subs, vals, wts, k, confirm_zeros=(kind == "stratified"))


@cell("C13/sampler/gcpsampler", strategy=_gcpsampler_case, quick=500, thorough=10000, shards=(1, 4))
def sampler_gcp(ctx, case):
    A = _dense_of(case)
    dense = case["holder"] == "dense"
    if dense:
        At = H.typed(A, case.get("vdtype"))
        data = ttb.tensor(At.copy(order="F"), tuple(case["shape"]))
        ctx.label("vals-" + str(data.data.dtype))
    else:
        data = _build_sp(case)
        _sp_labels(ctx, case, data)
    fs = None if case["fs"] is None else getattr(Samplers, case["fs"])
    gs = None if case["gs"] is None else getattr(Samplers, case["gs"])
    ctx.label("holder-" + case["holder"], "fill-" + case["fill"], f"f-{case['fs']}", f"g-{case['gs']}",
              "fn-" + type(case["fn"]).__name__, "gn-" + type(case["gn"]).__name__)
    ctx.nt = case["nnz"] >= 1 and case["nzeros"] >= 1
    full = case["nzeros"] == 0
    with ctx.sut("GCPSampler"):
        if case.get("over_sample_rate") is None:
            smp = GCPSampler(data, fs, _mk_count(case["fn"]), gs, _mk_count(case["gn"]), case["max_iters"])
        else:
            smp = GCPSampler(data, fs, _mk_count(case["fn"]), gs, _mk_count(case["gn"]), case["max_iters"],
                             case["over_sample_rate"])
    f_kind = "uniform" if (dense or case["fs"] == "UNIFORM") else "stratified"
    # (UNIFORM gradient sampling of sparse data is implemented as stratified sampling with Poisson counts)
    g_kind = "uniform" if dense else {"SEMISTRATIFIED": "semistrat"}.get(case["gs"], "stratified")
    np.random.seed(case["np_seed"])
    # a request for zero samples from a tensor without zeros cannot be served: rejection is acceptable
    f_imp = f_kind == "stratified" and full and _asks_zeros(case, "fn")
    g_imp = g_kind == "stratified" and full and case["gs"] != "UNIFORM" and _asks_zeros(case, "gn")
    for tag, imp, call, kind in (("function", f_imp, smp.function_sample, f_kind),
                                 ("gradient", g_imp, smp.gradient_sample, g_kind)):
        if imp:
            ctx.label(tag + "-zeros-requested-none-exist")
            try:
                out = call(data)
            except Exception:  # noqa: BLE001
                continue
        else:
            with ctx.sut(f"GCPSampler.{tag}_sample"):
                out = call(data)
        k = None
        if kind == "semistrat":
            with ctx.sut("GCPSampler.crng"):
                crng = smp.crng
            k = int(np.size(crng))
            ctx.check(np.array_equal(np.ravel(crng), np.arange(k)), "crng-indexes-the-nonzero-part")
        _check_gcp_sample(ctx, case, A, out, kind, k, tag)
    ctx.check(np.array_equal(ref.den(data), A), "sampler-leaves-data")


# --------------------------------------------------------------------------
# samplers across calls: a draw depends on the arguments and the random stream only
# --------------------------------------------------------------------------


@st.composite
def _sampler_reuse_case(draw, tier):
    c = draw(_gcpsampler_case(tier))
    c["calls"] = draw(st.lists(st.sampled_from(["f", "g", "g"]), min_size=2, max_size=4))
    c["seeds"] = [draw(st.integers(0, 2**31 - 1)) for _ in c["calls"]]
    c["direct"] = draw(st.sampled_from(["uniform", "stratified", "semistrat"]))
    c["direct_counts"] = [draw(st.integers(0, 6)), draw(st.integers(0, 6))]
    return c


def _same_sample(a, b):
    if isinstance(a, str) or isinstance(b, str):
        return isinstance(a, str) and isinstance(b, str)
    return (isinstance(a, tuple) and isinstance(b, tuple) and len(a) == len(b) == 3
            and all(np.shape(x) == np.shape(y) and np.array_equal(x, y) for x, y in zip(a, b)))


def _draw_or_raise(fn, seed):
    np.random.seed(seed)
    try:
        return fn()
    except Exception as e:  # noqa: BLE001   (what a single draw returns is judged by the sampler cells)
        return "raised " + type(e).__name__


@cell("C13/sampler/reuse", strategy=_sampler_reuse_case, quick=250, thorough=5000, shards=(1, 4))
def sampler_reuse(ctx, case):
    """a sequence of 2..4 draws from one GCPSampler (and repeated direct sampler calls): the k-th draw equals the
    draw a freshly built sampler makes from the same random state - nothing learned in earlier draws leaks"""
    A = _dense_of(case)
    dense = case["holder"] == "dense"

    def mk_data():
        return ttb.tensor(H.typed(A, case.get("vdtype")).copy(order="F"), tuple(case["shape"])) if dense else _build_sp(case)

    def mk_sampler(d):
        fs = None if case["fs"] is None else getattr(Samplers, case["fs"])
        gs = None if case["gs"] is None else getattr(Samplers, case["gs"])
        kw = {} if case.get("over_sample_rate") is None else dict(over_sample_rate=case["over_sample_rate"])
        return GCPSampler(d, fs, _mk_count(case["fn"]), gs, _mk_count(case["gn"]), case["max_iters"], **kw)

    data = mk_data()
    ctx.label("holder-" + case["holder"], f"calls={len(case['calls'])}", f"f-{case['fs']}", f"g-{case['gs']}",
              "direct-" + case["direct"])
    ctx.nt = len(case["calls"]) >= 3
    with ctx.sut("GCPSampler"):
        shared = mk_sampler(data)
    for i, (which, seed) in enumerate(zip(case["calls"], case["seeds"])):
        call = (lambda s_, d_: s_.function_sample(d_)) if which == "f" else (lambda s_, d_: s_.gradient_sample(d_))
        got = _draw_or_raise(lambda: call(shared, data), seed)
        with ctx.sut("GCPSampler"):
            d2 = mk_data()
            fresh_sampler = mk_sampler(d2)
        want = _draw_or_raise(lambda: call(fresh_sampler, d2), seed)
        ctx.check(_same_sample(got, want), "later-draw-equals-draw-of-fresh-sampler" if i else "first-draw-equals-draw-of-fresh-sampler",
                  f"draw {i} ({which}) of {case['calls']}")
        again = _draw_or_raise(lambda: call(shared, data), seed)
        ctx.check(_same_sample(got, again), "same-seed-same-draw", f"draw {i} ({which})")
    ctx.check(np.array_equal(ref.den(data), A), "sampler-leaves-data")
    # direct calls: the same function with the same arguments and random state twice
    knz, kz = case["direct_counts"]
    S = data if not dense else None
    if case["direct"] == "uniform":
        fn = lambda: samplers.uniform(data, knz + kz)  # noqa: E731
    elif S is None:
        return
    elif case["direct"] == "stratified":
        fn = lambda: samplers.stratified(S, _nz_idx(case), knz, kz)  # noqa: E731
    else:
        fn = lambda: samplers.semistrat(S, knz, kz)  # noqa: E731
    one = _draw_or_raise(fn, case["seeds"][0])
    two = _draw_or_raise(fn, case["seeds"][0])
    ctx.check(_same_sample(one, two), "direct-sampler-same-seed-same-draw", case["direct"])


# --------------------------------------------------------------------------
# a few large cases per run: sizes above internal block thresholds (1e4 / 16384 stored nonzeros, 1e4+ samples)
# --------------------------------------------------------------------------

LARGE_SHAPES = [[40, 50, 30], [250, 240], [16, 15, 25, 10], [30, 20, 10, 5, 2], [60000], [3, 20000], [1, 300, 200]]


@st.composite
def _large_sampler_case(draw, tier):
    shape = draw(st.sampled_from(LARGE_SHAPES))
    n = ref.prod(shape)
    nnz = draw(st.sampled_from([10000, 10001, 12000, 16384, 16385, 20000, 30000]))
    kind = draw(st.sampled_from(["uniform", "uniform-dense", "stratified", "stratified", "semistrat", "gcp-default",
                                 "gcp-uniform", "gcp-counts"]))
    edges = [b + d for b in (1024, 4096, 8192, 10000, 16384, 32768) for d in (-1, 0, 1)]
    cnt = st.one_of(st.sampled_from([3, 100, nnz - 1, nnz, nnz + 1, 2 * nnz]), st.sampled_from(edges), st.integers(1, 2 * nnz))
    return dict(shape=shape, nnz=nnz, nzeros=n - nnz, data_seed=draw(st.integers(0, 2**31 - 1)),
                stored=draw(st.sampled_from(["row-major", "column-major", "reverse", "random", "random"])),
                dprov=draw(st.sampled_from(["ctor", "ctor", "np-shape", "from-dense", "assigned"])),
                vkind=draw(st.sampled_from(["count", "float"])), vdtype=draw(st.sampled_from(["float64", "float64", "int64", "uint8"])),
                kind=kind, num_nonzeros=draw(cnt), num_zeros=draw(cnt),
                samples=draw(st.one_of(st.sampled_from([1, 1023, 1024, 1025]), st.integers(2, 1500))),
                dense_samples=draw(st.one_of(st.sampled_from(edges + [70000]), st.integers(10000, 70000))), np_seed=draw(st.integers(0, 2**31 - 1)))


def _large_data(case):
    """(dense array, sparse tensor) of a large case: nnz distinct positions drawn from the case's data seed, stored in
    the drawn order, built through the drawn public route"""
    rs = np.random.RandomState(case["data_seed"])
    shape = tuple(case["shape"])
    n = ref.prod(shape)
    lin = rs.choice(n, size=case["nnz"], replace=False)
    subs = np.array(np.unravel_index(lin, shape, order="F")).T.reshape(len(lin), len(shape))
    if case["stored"] == "column-major":
        subs = subs[np.argsort(lin)]
    elif case["stored"] == "row-major":
        subs = subs[np.argsort(np.ravel_multi_index(tuple(subs.T), shape, order="C"))]
    elif case["stored"] == "reverse":
        subs = subs[np.argsort(lin)[::-1]]
    if case["vkind"] == "count":
        vals = rs.randint(1, 10, size=len(lin)).astype(float)
    else:
        vals = rs.uniform(0.5, 2.0, size=len(lin)) * rs.choice([-1.0, 1.0], size=len(lin))
    A = np.zeros(shape)
    A[tuple(subs.T)] = vals
    tv = H.typed(vals, case["vdtype"] if case["vkind"] == "count" else "float64").reshape(-1, 1)
    prov = case["dprov"]
    S = None
    try:
        if prov == "np-shape":
            S = ttb.sptensor(subs, tv, tuple(np.array(shape, dtype=np.int64)))
        elif prov == "from-dense":
            S = ttb.tensor(A.astype(tv.dtype)).to_sptensor()
        elif prov == "assigned":  # the last few entries arrive by item assignment (appended to the stored list)
            S = ttb.sptensor(subs[:-5], tv[:-5], shape)
            for sub, v in zip(subs[-5:], tv[-5:]):
                S[tuple(int(i) for i in sub)] = v[0].item()
    except Exception:  # noqa: BLE001
        S = None
    if S is not None and not (tuple(int(x) for x in S.shape) == shape and S.nnz == case["nnz"] and np.array_equal(ref.den(S), A)):
        S = None
    if S is None:
        S = ttb.sptensor(subs, tv, shape)
    return A, S


def _own_nz_idx(S):
    """sorted linear indices (first subscript fastest) of the stored entries - my own index arithmetic"""
    return np.sort(np.ravel_multi_index(tuple(np.asarray(S.subs).T), tuple(int(x) for x in S.shape), order="F"))


def _check_uniform(ctx, A, out, k, tag=""):
    subs, vals, wts, n = _check_triple(ctx, out, A.ndim)
    ctx.check(n == k, tag + "number-of-samples-as-requested", f"{n} vs {k}")
    ok = _in_range(subs, A.shape)
    ctx.check(ok, tag + "subscripts-inside-tensor")
    if ok and n:
        ctx.check(np.array_equal(np.asarray(A[tuple(subs.T)], dtype=float), vals), tag + "values-equal-data",
                  f"{int(np.count_nonzero(np.asarray(A[tuple(subs.T)], dtype=float) != vals))} of {n} values differ")
    if n:
        ctx.check(_total_ok(wts, A.size), tag + "weights-total-number-of-entries", f"{np.sum(wts)} vs {A.size}")


@cell("C13/sampler/large", strategy=_large_sampler_case, quick=4, thorough=40, shards=(1, 4))
def sampler_large(ctx, case):
    """the sampler clauses on tensors with 1e4..3e4 stored nonzeros and sample counts up to 6e4 (dense NumPy oracle)"""
    A, S = _large_data(case)
    kind = case["kind"]
    ctx.label("kind-" + kind, "stored-" + case["stored"], "data-" + case["dprov"], "vals-" + str(S.vals.dtype),
              f"order{A.ndim}", f"nnz={case['nnz']}")
    ctx.nt = True
    knz, kz = case["num_nonzeros"], case["num_zeros"]
    np.random.seed(case["np_seed"])
    if kind == "uniform":
        with ctx.sut("samplers.uniform"):
            out = samplers.uniform(S, case["samples"])
        _check_uniform(ctx, A, out, case["samples"])
    elif kind == "uniform-dense":
        T = ttb.tensor(A.copy(order="F"))
        with ctx.sut("samplers.uniform"):
            out = samplers.uniform(T, case["dense_samples"])
        _check_uniform(ctx, A, out, case["dense_samples"])
    elif kind in ("stratified", "semistrat"):
        with ctx.sut("samplers." + kind):
            out = samplers.stratified(S, _own_nz_idx(S), knz, kz) if kind == "stratified" else samplers.semistrat(S, knz, kz)
        subs, vals, wts, n = _check_triple(ctx, out, A.ndim)
        ctx.check(n == knz + kz if kind == "semistrat" else knz <= n <= knz + kz, "number-of-samples-at-most-as-requested",
                  f"{n} vs {knz}+{kz}")
        _check_stratified(ctx, A, subs, vals, wts, knz, confirm_zeros=kind == "stratified")
    else:
        with ctx.sut("GCPSampler"):
            if kind == "gcp-default":
                smp = GCPSampler(S)
            elif kind == "gcp-uniform":
                smp = GCPSampler(S, Samplers.UNIFORM, case["samples"], Samplers.UNIFORM, knz)
            else:
                smp = GCPSampler(S, Samplers.STRATIFIED, StratifiedCount(num_nonzeros=knz, num_zeros=kz), Samplers.SEMISTRATIFIED,
                                 StratifiedCount(num_nonzeros=kz, num_zeros=knz))
        for tag, call in (("function", smp.function_sample), ("gradient", smp.gradient_sample)):
            with ctx.sut(f"GCPSampler.{tag}_sample"):
                out = call(S)
            if kind == "gcp-uniform" and tag == "function":
                _check_uniform(ctx, A, out, case["samples"], tag + ":")
                continue
            subs, vals, wts, n = _check_triple(ctx, out, A.ndim)
            semi = kind == "gcp-counts" and tag == "gradient"
            k = int(np.size(smp.crng)) if semi else int(np.count_nonzero(vals))
            _check_stratified(ctx, A, subs, vals, wts, k, confirm_zeros=not semi)
    ctx.check(np.array_equal(ref.den(S), A), "sampler-leaves-data")


# --------------------------------------------------------------------------
# sparse tensors over huge index spaces: mode lengths beyond 2**53, 1e18 .. 1e22 cells, a handful of nonzeros
# --------------------------------------------------------------------------

HUGE_SHAPES = [[2**53 + 5, 3], [2**60, 4], [2**31, 2**31], [10**6, 10**6, 10**6], [2**62 // 3 + 1, 3], [2**32, 2**32],
               [2**40, 2**30, 8], [4800000, 1800000, 1800000]]


@st.composite
def _huge_case(draw, tier):
    shape = draw(st.sampled_from(HUGE_SHAPES))
    nnz = draw(st.integers(1, 6))
    coord = lambda n: st.one_of(st.sampled_from([0, n - 1, n // 2, n // 2 + 1]), st.integers(0, n - 1))  # noqa: E731
    subs = draw(st.lists(st.tuples(*[coord(n) for n in shape]).map(list), min_size=nnz, max_size=nnz, unique_by=tuple))
    return dict(shape=shape, subs=subs, vals=[float(draw(st.integers(1, 9))) for _ in subs], nnz=len(subs),
                kind=draw(st.sampled_from(["uniform", "semistrat", "stratified", "stratified", "gcp-default", "gcp-counts"])),
                num_nonzeros=draw(st.integers(0, 8)), num_zeros=draw(st.sampled_from([1, 2, 3, 4, 5, 8, 16, 100])),
                samples=draw(st.integers(1, 40)), np_seed=draw(st.integers(0, 2**31 - 1)),
                # (round 4) how the caller holds the counts and the subscripts: Python ints / int64, or NumPy int64 / int32
                # scalars and int32 subscripts (SciPy COO coordinates) where every mode length fits
                cnt_dtype=draw(st.sampled_from([None, None, None, "int64", "int32"])),
                subs_dtype=draw(st.sampled_from(["int64", "int64", "int32"])) if max(shape) <= 2**31 - 1 else "int64")


def _cells(case):
    n = 1
    for m in case["shape"]:
        n *= int(m)
    return n


@cell("C13/sampler/huge", strategy=_huge_case, quick=60, thorough=1200, shards=(1, 4))
def sampler_huge(ctx, case):
    """the sampler clauses where the number of entries is 1e16 .. 1e22: subscripts inside the tensor, values equal the
    data (a table of the stored nonzeros), drawn zeros are true zeros, weights total the number of entries the sample
    stands for (exact Python integer, compared in floating point with 1e-12 relative).  A sampler that cannot serve
    such a tensor because linear indices do not fit 64 bits may reject it."""
    shape = [int(m) for m in case["shape"]]
    N = len(shape)
    ncells = _cells(case)
    table = {tuple(s): v for s, v in zip(case["subs"], case["vals"])}
    nnz = len(table)
    fits = ncells < 2**63
    ctx.label("kind-" + case["kind"], "cells<2^63" if fits else "cells>=2^63", f"order{N}",
              "mode>2^53" if max(shape) > 2**53 else "modes<=2^53")
    ctx.nt = True
    S = ttb.sptensor(np.array(case["subs"], dtype=case.get("subs_dtype", "int64")).reshape(nnz, N), np.array(case["vals"]).reshape(nnz, 1), tuple(shape))
    kind, knz, kz = case["kind"], case["num_nonzeros"], case["num_zeros"]
    samples = case["samples"]
    if case.get("cnt_dtype"):
        cn = _NPINT[case["cnt_dtype"]]
        knz, kz, samples = cn(knz), cn(kz), cn(samples)
    ctx.label("counts-" + str(case.get("cnt_dtype") or "python-int"), "subs-" + str(S.subs.dtype))

    def judge(out, style, k, tag=""):
        k = int(k)
        subs, vals, wts, n = _check_triple(ctx, out, N)
        ok = all(0 <= int(x) < m for row in subs for x, m in zip(row, shape))
        ctx.check(ok, tag + "subscripts-inside-tensor")
        if not ok:
            return
        at = np.array([table.get(tuple(int(x) for x in row), 0.0) for row in subs], dtype=float)
        tot = lambda w, e: abs(float(np.sum(w)) - float(e)) <= 1e-12 * float(e)  # noqa: E731
        if style == "uniform":
            ctx.check(np.array_equal(at, vals), tag + "values-equal-data")
            if n:
                ctx.check(tot(wts, ncells), tag + "weights-total-number-of-entries", f"{np.sum(wts)!r} vs {ncells}")
            return
        ctx.check(bool(np.all(at[:k] != 0)) and np.array_equal(vals[:k], at[:k]), tag + "nonzero-samples-carry-data-values")
        ctx.check(bool(np.all(vals[k:] == 0)), tag + "zero-samples-have-value-zero")
        if style == "stratified":
            ctx.check(bool(np.all(at[k:] == 0)), tag + "zero-samples-are-true-zeros")
        if k > 0:
            ctx.check(tot(wts[:k], nnz), tag + "nonzero-weights-total-nnz", f"{np.sum(wts[:k])!r} vs {nnz}")
        if len(wts[k:]) > 0:
            expect = ncells - nnz if style == "stratified" else ncells
            ctx.check(tot(wts[k:], expect), tag + "zero-weights-total-stratum-size", f"{np.sum(wts[k:])!r} vs {expect}")

    np.random.seed(case["np_seed"])
    if kind == "uniform":
        with ctx.sut("samplers.uniform"):
            out = samplers.uniform(S, samples)
        judge(out, "uniform", 0)
    elif kind == "semistrat":
        with ctx.sut("samplers.semistrat"):
            out = samplers.semistrat(S, knz, kz)
        judge(out, "semistrat", knz)
    elif kind == "stratified":
        if not fits:
            ctx.skip("linear indices of the nonzeros (an argument of samplers.stratified) do not fit 64 bits")
        nz_idx = np.array(sorted(ref.lin_index(sub, shape) for sub in case["subs"]), dtype=np.int64)
        with ctx.sut("samplers.stratified"):
            out = samplers.stratified(S, nz_idx, knz, kz)
        judge(out, "stratified", knz)
    else:
        try:
            if kind == "gcp-default":
                smp = GCPSampler(S)
            else:
                smp = GCPSampler(S, Samplers.STRATIFIED, StratifiedCount(num_nonzeros=knz, num_zeros=kz), Samplers.SEMISTRATIFIED,
                                 StratifiedCount(num_nonzeros=knz, num_zeros=kz))
        except Exception as e:  # noqa: BLE001
            if not fits:  # (linear indices not representable: the sampler may refuse the tensor)
                ctx.label("sampler-refused-tensor-beyond-2^63-cells")
                return
            with ctx.sut("GCPSampler"):
                raise e
        for tag, call in (("function", smp.function_sample), ("gradient", smp.gradient_sample)):
            with ctx.sut(f"GCPSampler.{tag}_sample"):
                out = call(S)
            semi = kind == "gcp-counts" and tag == "gradient"
            k = int(np.size(smp.crng)) if semi else int(np.count_nonzero(np.ravel(np.asarray(out[1])))) if isinstance(out, tuple) and len(out) == 3 else 0
            judge(out, "semistrat" if semi else "stratified", k, tag + ":")


# --------------------------------------------------------------------------
# the same data object after it was edited in place (item assignment): samples follow the data as it stands
# --------------------------------------------------------------------------


@st.composite
def _edited_case(draw, tier):
    c = draw(_gcpsampler_case(tier))
    n = ref.prod(c["shape"])
    c["edit"] = draw(st.sampled_from(["revalue", "revalue", "restructure"]))
    k = draw(st.integers(1, 4))
    c["edit_cells"] = draw(st.lists(st.integers(0, 10**6), min_size=k, max_size=k))
    c["edit_vals"] = draw(st.lists(st.integers(1, 9).map(float), min_size=k, max_size=k))
    c["seeds"] = [draw(st.integers(0, 2**31 - 1)) for _ in range(3)]
    c["direct"] = draw(st.sampled_from(["uniform", "stratified", "semistrat"]))
    c["direct_counts"] = [draw(st.integers(0, 6)), draw(st.integers(0, 6))]
    return c


@cell("C13/sampler/edited", strategy=_edited_case, quick=250, thorough=5000, shards=(1, 4))
def sampler_edited(ctx, case):
    """data sampled, then edited in place through item assignment (values of stored entries changed; or entries
    added / removed), then sampled again - by the same GCPSampler when the nonzero pattern is unchanged, by a new
    GCPSampler on the same object otherwise, and by the direct samplers: every sample must describe the data as it
    stands now, and equal the draw made from a freshly constructed tensor with that content"""
    A = _dense_of(case)
    dense = case["holder"] == "dense"
    shape = tuple(case["shape"])
    data = ttb.tensor(H.typed(A, case.get("vdtype")).copy(order="F"), shape) if dense else _build_sp(case)

    def mk_sampler(d):
        fs = None if case["fs"] is None else getattr(Samplers, case["fs"])
        gs = None if case["gs"] is None else getattr(Samplers, case["gs"])
        kw = {} if case.get("over_sample_rate") is None else dict(over_sample_rate=case["over_sample_rate"])
        return GCPSampler(d, fs, _mk_count(case["fn"]), gs, _mk_count(case["gn"]), case["max_iters"], **kw)

    ctx.label("holder-" + case["holder"], "edit-" + case["edit"], f"f-{case['fs']}", f"g-{case['gs']}", "direct-" + case["direct"])
    with ctx.sut("GCPSampler"):
        smp = mk_sampler(data)
    for call in (smp.function_sample, smp.gradient_sample):  # (what a first draw returns is judged by the other cells)
        _draw_or_raise(lambda: call(data), case["seeds"][0])
    # --- the edit, through the public item assignment only
    nz = np.argwhere(A != 0)
    allsubs = ref.all_subs_F(shape)
    want = A.copy()
    try:
        for cidx, v in zip(case["edit_cells"], case["edit_vals"]):
            if case["edit"] == "revalue":
                sub = tuple(int(i) for i in nz[cidx % len(nz)])
                new = v if want[sub] != v else v + 1.0
            else:
                sub = tuple(allsubs[cidx % len(allsubs)])
                new = 0.0 if want[sub] != 0 and np.count_nonzero(want) > 1 else (v if want[sub] != v else v + 1.0)
            data[sub] = new
            want[sub] = new
    except Exception:  # noqa: BLE001  (item assignment itself is the subject of other properties)
        ctx.skip("item assignment raised")
    A2 = np.array(ref.den(data), dtype=float)
    if not np.array_equal(A2, want):
        ctx.skip("item assignment did not produce the wanted content")
    ctx.nt = not np.array_equal(A2, A)
    ctx.label("content-changed" if ctx.nt else "content-unchanged",
              "pattern-unchanged" if np.array_equal(A2 != 0, A != 0) else "pattern-changed")
    nnz2 = int(np.count_nonzero(A2))
    c2 = dict(case, nnz=nnz2, nzeros=A2.size - nnz2)
    full = c2["nzeros"] == 0
    same_pattern = np.array_equal(A2 != 0, A != 0)
    if same_pattern and case["edit"] == "revalue":
        ctx.label("sampler-object-kept")
    else:
        with ctx.sut("GCPSampler"):
            smp = mk_sampler(data)  # a new sampler for the edited object
    # a freshly constructed tensor with the same content (and, for sparse data, the same stored order)
    if dense:
        fresh = ttb.tensor(np.array(data.data, copy=True, order="K"), shape)
    else:
        fresh = ttb.sptensor(np.array(data.subs, copy=True), np.array(data.vals, copy=True), shape)
    with ctx.sut("GCPSampler"):
        smp_fresh = mk_sampler(fresh)
    f_kind = "uniform" if (dense or case["fs"] == "UNIFORM") else "stratified"
    g_kind = "uniform" if dense else {"SEMISTRATIFIED": "semistrat"}.get(case["gs"], "stratified")
    f_imp = f_kind == "stratified" and full and _asks_zeros(c2, "fn")
    g_imp = g_kind == "stratified" and full and case["gs"] != "UNIFORM" and _asks_zeros(c2, "gn")
    for tag, imp, kind, seed in (("function", f_imp, f_kind, case["seeds"][1]), ("gradient", g_imp, g_kind, case["seeds"][2])):
        call = (lambda s_, d_: s_.function_sample(d_)) if tag == "function" else (lambda s_, d_: s_.gradient_sample(d_))
        np.random.seed(seed)
        if imp:
            try:
                out = call(smp, data)
            except Exception:  # noqa: BLE001
                continue
        else:
            with ctx.sut(f"GCPSampler.{tag}_sample"):
                out = call(smp, data)
        k = None
        if kind == "semistrat":
            k = int(np.size(smp.crng))
        _check_gcp_sample(ctx, c2, A2, out, kind, k, tag + "-after-edit")
        want_draw = _draw_or_raise(lambda: call(smp_fresh, fresh), seed)
        ctx.check(_same_sample(out, want_draw), "draw-from-edited-object-equals-draw-from-fresh-tensor", tag)
    # direct samplers on the edited object
    knz, kz = case["direct_counts"]
    np.random.seed(case["seeds"][0])
    if case["direct"] == "uniform":
        with ctx.sut("samplers.uniform"):
            out = samplers.uniform(data, knz + kz)
        _check_uniform(ctx, A2, out, knz + kz, "direct-after-edit:")
    elif not dense and not (full and kz > 0):
        with ctx.sut("samplers." + case["direct"]):
            if case["direct"] == "stratified":
                out = samplers.stratified(data, _own_nz_idx(data), knz, kz)
            else:
                out = samplers.semistrat(data, knz, kz)
        subs, vals, wts, n = _check_triple(ctx, out, A2.ndim)
        _check_stratified(ctx, A2, subs, vals, wts, knz, confirm_zeros=case["direct"] == "stratified")
    ctx.check(np.array_equal(ref.den(data), A2), "sampler-leaves-data")


# --------------------------------------------------------------------------
# solvers
# --------------------------------------------------------------------------

SOLVE_LOSSES = ["gaussian", "poisson", "gamma", "rayleigh", "bernoulli_odds", "bernoulli_logit"]


class _BadSample(Exception):
    pass


class Recorder:
    """Duck-typed GCPSampler: delegates to ``inner`` and keeps what the solver saw."""

    def __init__(self, inner):
        self.inner = inner
        self.fsamples = []
        self.g_calls = 0

    def _valid(self, s):
        if not (isinstance(s, tuple) and len(s) == 3 and s[0].ndim == 2 and s[0].shape[0] == np.size(s[1]) == np.size(s[2])):
            raise _BadSample()

    def function_sample(self, data):
        s = self.inner.function_sample(data)
        self._valid(s)
        self.fsamples.append(tuple(np.array(x, copy=True) for x in s))
        return s

    def gradient_sample(self, data):
        self.g_calls += 1
        s = self.inner.gradient_sample(data)
        self._valid(s)
        return s

    @property
    def crng(self):
        return self.inner.crng


class OwnSampler:
    """A sound sampler written for the harness (so that solver cells are independent of pyttb's samplers):
    uniform over all entries, or stratified / semi-stratified with true zero sampling."""

    def __init__(self, A, kind, nf, ng):
        self.A, self.kind, self.nf, self.ng = A, kind, nf, ng
        self.nzs = np.argwhere(A != 0)
        self.zs = np.argwhere(A == 0)
        self._crng = np.arange(ng[0]) if kind == "semistrat" else np.array([], dtype=int)

    def _uniform(self, n):
        shape = np.array(self.A.shape)
        subs = np.floor(np.random.uniform(0, 1, (n, len(shape))) * shape).astype(int)
        subs = np.minimum(subs, shape - 1)
        vals = np.array([self.A[tuple(s)] for s in subs], dtype=float).reshape(n)
        return subs, vals, np.full(n, self.A.size / max(n, 1))

    def _strat(self, knz, kz, semi=False):
        knz = knz if len(self.nzs) else 0
        i = np.random.randint(0, max(1, len(self.nzs)), size=knz)
        nsubs = self.nzs[i].reshape(knz, self.A.ndim)
        nvals = np.array([self.A[tuple(s)] for s in nsubs], dtype=float).reshape(knz)
        nw = np.full(knz, len(self.nzs) / max(knz, 1))
        if semi:
            zsubs, _, zw = self._uniform(kz)
        else:
            kz = kz if len(self.zs) else 0
            j = np.random.randint(0, max(1, len(self.zs)), size=kz)
            zsubs = self.zs[j].reshape(kz, self.A.ndim)
            zw = np.full(kz, len(self.zs) / max(kz, 1))
        return (np.vstack((nsubs, zsubs)).astype(int), np.concatenate((nvals, np.zeros(len(zsubs)))),
                np.concatenate((nw, zw)))

    def function_sample(self, data):
        return self._uniform(self.nf[0]) if self.kind == "uniform" else self._strat(self.nf[0], self.nf[1])

    def gradient_sample(self, data):
        if self.kind == "uniform":
            return self._uniform(self.ng[0])
        return self._strat(self.ng[0], self.ng[1], semi=self.kind == "semistrat")

    @property
    def crng(self):
        return self._crng


def _solve_data_value(name):
    kind = H.LOSSES[name]["data"]
    if kind == "binary":
        return st.sampled_from([0.0, 1.0])
    if kind == "count":
        return st.sampled_from([0.0, 0.0, 1.0, 2.0, 3.0, 5.0])
    if kind == "nonneg":
        return st.one_of(st.sampled_from([0.0, 0.5, 1.0, 2.0]), st.floats(0.1, 3.0))
    return st.one_of(st.sampled_from([0.0, 1.0, -1.0, 2.0]), H.sfloats(0.05, 3.0))


@st.composite
def _problem(draw, tier, losses=SOLVE_LOSSES, holders=("dense", "sparse"), max_order=3, force_dense_positive=False):
    name = draw(st.sampled_from(list(losses)))
    shape = draw(gen.shapes(tier, min_order=2, max_order=max_order, max_size=3, max_cells=18))
    rank = draw(st.integers(1, 3))
    n = ref.prod(shape)
    holder = draw(st.sampled_from(list(holders)))
    dv = _solve_data_value(name)
    data = draw(st.lists(dv, min_size=n, max_size=n))
    if all(v == 0 for v in data):
        data[draw(st.integers(0, n - 1))] = 1.0
    if holder == "sparse" and all(v != 0 for v in data) and n > 1:
        data[draw(st.integers(0, n - 1))] = 0.0  # (zeros must exist for the stratified samplers to be servable)
    if holder == "sparse" and all(v != 0 for v in data):
        holder = "dense"
    init_kind = draw(st.sampled_from(["factors", "factors", "ktensor", "random", "ktensor-normalized", "ktensor-weighted",
                                      "ktensor-arranged"]))
    lo = 0.1 if H.LOSSES[name]["lb"] == 0.0 else 0.05
    fv = st.floats(lo, 1.5) if H.LOSSES[name]["lb"] == 0.0 else H.sfloats(lo, 1.5)
    # guess entries: ordinary, or some of them exactly at the loss's lower bound 0 (where a projected step leaves an
    # entry; 0 is also an ordinary entry for the unbounded losses) or next to it (1e-300, 1e-12)
    gclass = draw(st.sampled_from(["ordinary", "ordinary", "ordinary", "some-zero", "some-tiny", "identity-like"]))
    if gclass == "some-zero":
        fv = st.one_of(st.just(0.0), fv, fv, fv)
    elif gclass == "some-tiny":
        fv = st.one_of(st.sampled_from([1e-300, 1e-12, 0.0]), fv, fv, fv)
    factors = [draw(st.lists(st.lists(fv, min_size=rank, max_size=rank), min_size=s, max_size=s)) for s in shape]
    if gclass == "identity-like":  # leading blocks of identity matrices, exactly or perturbed by 1e-9 .. 1e-4
        eps = draw(st.sampled_from([0.0, 1e-9, 1e-6, 1e-4]))
        factors = [[[(1.0 if i == j else 0.0) + (eps * draw(st.floats(0.01, 1.0)) if eps else 0.0) for j in range(rank)]
                    for i in range(s)] for s in shape]
    # data magnitude: the Gaussian loss is scale-free (data and guess are scaled together)
    dscale = draw(st.sampled_from([1.0, 1.0, 1.0, 1e-3, 1e3])) if name == "gaussian" else 1.0
    if dscale != 1.0:
        data = [v * dscale for v in data]
        factors = [[[v * dscale ** (1.0 / len(shape)) for v in row] for row in f] for f in factors]
    wv = st.floats(0.2, 3.0) if H.LOSSES[name]["lb"] == 0.0 else H.sfloats(0.2, 3.0)
    return dict(loss=name, param=None, shape=shape, rank=rank, data=data, holder=holder, init=init_kind,
                factors=factors, stored=draw(st.sampled_from(["sorted", "reverse", "random"])),
                perm_seed=draw(st.integers(0, 9999)), dscale=dscale,
                iweights=draw(st.lists(wv, min_size=rank, max_size=rank)),
                gclass=gclass, ddtype=draw(st.sampled_from(["float64", "float64", "float64", "int64", "uint8", "int32"])),
                dprov=draw(st.sampled_from(["ctor", "ctor", "grown", "c-order"] if holder == "dense" else ["ctor", "ctor", "np-shape"])))


def _solver_args(draw, kind):
    a = dict(kind=kind,
             rate=draw(st.sampled_from([1e-3, 1e-2, 0.1, 0.3, 0.3, 1.0, 1.0] if kind == "sgd" else [1e-2, 0.1, 0.5, 0.5, 2.0, 2.0])),
             decay=draw(st.sampled_from([0.1, 0.5])),
             max_fails=draw(st.integers(0, 2)),
             epoch_iters=draw(st.integers(1, 4)),
             max_iters=draw(st.sampled_from([0, 1, 2, 3, 4, 5, 6, 3, 4, 5, 6])),
             # stop as soon as the estimate drops below a tolerance (None: never), progress logging on/off
             f_est_tol=draw(st.sampled_from([None, None, None, 0.0, 1.0, 10.0, 1e3])),
             printitn=draw(st.sampled_from([0, 0, 1, 2])))
    if kind == "adam":
        a["beta_1"] = draw(st.sampled_from([0.9, 0.5, 0.0, 0.99]))
        a["beta_2"] = draw(st.sampled_from([0.999, 0.9, 0.5]))
        a["epsilon"] = draw(st.sampled_from([None, None, 1e-8, 1e-4, 1e-12]))
    return a


def _mk_solver(a):
    if a["kind"] == "lbfgsb":
        kw = {k: a[k] for k in ("m", "maxiter", "maxfun", "factr", "pgtol", "maxls") if a.get(k) is not None}
        return LBFGSB(**kw)
    common = dict(rate=a["rate"], decay=a["decay"], max_fails=a["max_fails"], epoch_iters=a["epoch_iters"],
                  max_iters=a["max_iters"], printitn=a.get("printitn", 0))
    if a.get("f_est_tol") is not None:
        common["f_est_tol"] = a["f_est_tol"]
    if a["kind"] == "sgd":
        return SGD(**common)
    if a["kind"] == "adam":
        if a.get("epsilon") is not None:
            common["epsilon"] = a["epsilon"]
        return Adam(beta_1=a["beta_1"], beta_2=a["beta_2"], **common)
    if a["kind"] == "adagrad":
        return Adagrad(**common)
    raise KeyError(a["kind"])


def _build_problem(case):
    name = case["loss"]
    X = gen.arr_F(case["shape"], case["data"])
    pc = dict(case)
    data = H.build_data(pc, X)
    if case["init"] == "random":
        init = "random"
    else:
        fm = [f.copy() for f in H.build_factors(case)]
        kind = case["init"]
        if kind == "factors":
            init = fm
        else:
            # a ktensor guess, fresh or in the state an earlier operation left it in (weights need not be 1)
            init = ttb.ktensor(fm)
            try:
                if kind == "ktensor-normalized":
                    init.normalize()
                elif kind == "ktensor-arranged":
                    init.arrange()
                elif kind == "ktensor-weighted" and case.get("iweights"):
                    init = ttb.ktensor(fm, np.array(case["iweights"], dtype=float))
            except Exception:  # noqa: BLE001
                init = ttb.ktensor([f.copy() for f in H.build_factors(case)])
    return name, X, data, init


def _data_dtype(data):
    return str((data.vals if isinstance(data, ttb.sptensor) else data.data).dtype)


def _sample_estimate(name, fh, M, fsample):
    """my estimate of the objective of ktensor M on a recorded sample, and its tolerance"""
    subs, vals, wts = fsample
    vals, wts = np.ravel(vals).astype(float), np.ravel(wts).astype(float)
    ns = subs.shape[0]
    A = [np.asarray(f, dtype=float) for f in M.factor_matrices]
    lam = np.asarray(M.weights, dtype=float)
    N, R = len(A), len(lam)
    if ns == 0:
        return 0.0, 1e-300
    rows = np.stack([A[k][subs[:, k], :] for k in range(N)], axis=0)
    mv = np.sum(np.prod(rows, axis=0) * lam[None, :], axis=1)
    dmv = 8 * (N + R + 1) * EPS * np.sum(np.prod(np.abs(rows), axis=0) * np.abs(lam)[None, :], axis=1)
    pr = H.PointwiseRef(name, None, fh, None, vals, mv, dmv)
    F = float(np.sum(wts * pr.f))
    tol = float(np.sum(wts * pr.tol_f) + 64 * ns * EPS * np.sum(wts * np.abs(pr.f))) + 1e-300
    return F, tol


@st.composite
def _stochastic_case(draw, tier, kind):
    c = draw(_problem(tier))
    c["solver"] = _solver_args(draw, kind)
    n = ref.prod(c["shape"])
    nnz = sum(1 for v in c["data"] if v != 0)
    if c["holder"] == "dense":
        c["sampler"] = draw(st.sampled_from(["gcp-uniform", "gcp-default", "own-uniform"]))
        c["nf"] = [draw(st.integers(1, 2 * n)), 0]
        c["ng"] = [draw(st.integers(1, n)), 0]
    else:
        c["sampler"] = draw(st.sampled_from(["own-stratified", "own-semistrat", "gcp-stratified", "gcp-semistrat",
                                             "gcp-uniform-grad"] * 2 + ["gcp-uniform-func"]))
        c["nf"] = [draw(st.integers(1, 2 * nnz)), draw(st.integers(1, n))]
        c["ng"] = [draw(st.integers(1, nnz + 1)), draw(st.integers(1, n))]
        if draw(st.sampled_from([False, False, True])):
            # every function_sampler x gradient_sampler combination (None = the default kind), the counts given as
            # one int, as a StratifiedCount (stratified kinds) or left to the defaults
            c["sampler"] = "gcp-combo"
            c["fs"] = draw(st.sampled_from([None, "STRATIFIED", "UNIFORM", "UNIFORM"]))
            c["gs"] = draw(st.sampled_from([None, "STRATIFIED", "SEMISTRATIFIED", "SEMISTRATIFIED", "UNIFORM"]))
            for key, strat, two in (("fn", c["fs"] != "UNIFORM", c["nf"]), ("gn", c["gs"] != "UNIFORM", c["ng"])):
                how = draw(st.sampled_from(["default", "int", "count", "count"] if strat else ["default", "int", "int"]))
                c[key] = None if how == "default" else (two[0] + (0 if strat else two[1]) if how == "int" else list(two))
    c["objective_as"] = draw(st.sampled_from(["tuple", "enum"]))
    c["np_seed"] = draw(st.integers(0, 2**31 - 1))
    return c


def _mk_sampler(case, data, A, cnt=int):
    """cnt: how a count inside a StratifiedCount is presented (int / a NumPy integer type)"""
    s, nf, ng = case["sampler"], case["nf"], case["ng"]
    if s.startswith("own-"):
        return OwnSampler(A, s[4:], nf, ng)
    if s == "gcp-default":
        return GCPSampler(data)
    if s == "gcp-combo":
        fs = None if case["fs"] is None else getattr(Samplers, case["fs"])
        gs = None if case["gs"] is None else getattr(Samplers, case["gs"])
        mk = lambda x: StratifiedCount(num_nonzeros=cnt(x[0]), num_zeros=cnt(x[1])) if isinstance(x, list) else x  # noqa: E731
        return GCPSampler(data, fs, mk(case["fn"]), gs, mk(case["gn"]))
    if s == "gcp-uniform":
        return GCPSampler(data, Samplers.UNIFORM, nf[0], Samplers.UNIFORM, ng[0])
    fcount = StratifiedCount(num_nonzeros=cnt(nf[0]), num_zeros=cnt(nf[1]))
    gcount = StratifiedCount(num_nonzeros=cnt(ng[0]), num_zeros=cnt(ng[1]))
    if s == "gcp-stratified":
        return GCPSampler(data, Samplers.STRATIFIED, fcount, Samplers.STRATIFIED, gcount)
    if s == "gcp-semistrat":
        return GCPSampler(data, Samplers.STRATIFIED, fcount, Samplers.SEMISTRATIFIED, gcount)
    if s == "gcp-uniform-func":
        return GCPSampler(data, Samplers.UNIFORM, nf[0] + nf[1], Samplers.STRATIFIED, gcount)
    return GCPSampler(data, Samplers.STRATIFIED, fcount, Samplers.UNIFORM, ng[0] + ng[1])


def _domain_ok_for_enum(name, X, holder):
    """pyttb's setup() accepts only strictly positive dense data for the 'non-negative' losses"""
    if H.LOSSES[name]["data"] == "nonneg" and holder == "dense":
        return bool(np.all(X > 0))
    return True


def _run_gcp_opt(ctx, what, data, rank, objective, opt, init, **kw):
    """gcp_opt under ctx.sut, except that the documented divergence guard of the stochastic solvers and a
    sampler returning an inconsistent sample (reported by the sampler cells) end the case quietly."""
    try:
        kw.setdefault("printitn", 0)
        return ttb.gcp_opt(data, rank, objective, opt, init=init, **kw)
    except _BadSample:
        ctx.label("sampler-returned-inconsistent-sample")
        return None
    except ValueError as e:
        if "Infinite gradient encountered" in str(e):
            ctx.label("diverged-infinite-gradient")
            return None
        with ctx.sut(what):
            raise
    except Exception:  # noqa: BLE001
        with ctx.sut(what):
            raise


def _stochastic_run(ctx, case, a, gcp_printitn=0, present=None, what="gcp_opt", labels=False):
    """one stochastic solve through gcp_opt, every object built afresh, the sampler wrapped in a Recorder.
    present: optional callable (data, init, solver-args) -> (data, init, solver-args, rank, count-type) giving the same
    request in another presentation.  Returns None (diverged / inconsistent sample, labelled) or a dict."""
    name, X, data, init = _build_problem(case)
    with ctx.sut("fg_setup.setup"):
        fh, gh, lb = fg_setup.setup(H.objective(name), None, None)
    as_enum = case["objective_as"] == "enum" and _domain_ok_for_enum(name, X, case["holder"])
    objective = H.objective(name) if as_enum else (fh, gh, lb)
    if labels:
        ctx.label("loss-" + name, "solver-" + a["kind"], "holder-" + case["holder"], "sampler-" + case["sampler"],
                  "init-" + case["init"], f"max_iters={a['max_iters']}", f"max_fails={a['max_fails']}",
                  "objective-enum" if as_enum else "objective-tuple", f"f_est_tol={a.get('f_est_tol')}",
                  f"printitn={a.get('printitn', 0)}", "data-" + _data_dtype(data), "data-prov-" + case.get("dprov", "ctor"),
                  f"data-scale-{case.get('dscale', 1.0)}", "guess-" + case.get("gclass", "ordinary"))
        if case["sampler"] == "gcp-combo":
            ctx.label(f"combo-f-{case['fs']}-g-{case['gs']}", "combo-fn-" + type(case["fn"]).__name__,
                      "combo-gn-" + type(case["gn"]).__name__)
    rank, cnt = case["rank"], int
    if present is not None:
        data, init, a, rank, cnt = present(data, init, a)
    opt = _mk_solver(a)
    with ctx.sut("GCPSampler"):
        inner = _mk_sampler(case, data, X, cnt)
    rec = Recorder(inner)
    np.random.seed(case["np_seed"])
    out = _run_gcp_opt(ctx, what, data, rank, objective, opt, init, sampler=rec, printitn=gcp_printitn)
    if out is None:
        return None
    return dict(out=out, rec=rec, name=name, fh=fh, lb=lb, data=data)


def _stochastic_body(ctx, case):
    run = _stochastic_run(ctx, case, case["solver"], labels=True)
    if run is not None:
        _judge_stochastic(ctx, case, case["solver"], run)


def _judge_stochastic(ctx, case, a, run, tolx=1.0):
    """the property's clauses on one stochastic solve (tolx widens the estimate tolerances: single-precision data)"""
    out, rec, name, fh, lb = run["out"], run["rec"], run["name"], run["fh"], run["lb"]
    ctx.require(isinstance(out, tuple) and len(out) == 3, "gcp_opt-returns-(model,guess,info)")
    M, M0, info = out
    ctx.require(isinstance(M, ttb.ktensor) and isinstance(M0, ttb.ktensor) and isinstance(info, dict)
                and "f_est_trace" in info, "gcp_opt-result-types")
    ctx.check(tuple(M.shape) == tuple(case["shape"]) and M.ncomponents == case["rank"], "model-shape-and-rank")
    trace = np.ravel(np.asarray(info["f_est_trace"], dtype=float))
    ctx.require(len(rec.fsamples) == 1, "one-fixed-function-sample", len(rec.fsamples))
    ctx.require(rec.g_calls % a["epoch_iters"] == 0, "whole-epochs-only", rec.g_calls)
    epochs = rec.g_calls // a["epoch_iters"]
    ctx.check(epochs <= a["max_iters"], "epoch-limit-respected", f"{epochs} > {a['max_iters']}")
    full_trace = len(trace) == 1 + epochs
    off = "last-epoch-missing" if len(trace) == epochs else "length-off"
    ctx.check(full_trace, f"trace-has-start-plus-one-value-per-epoch[{off}]", f"{len(trace)} values for {epochs} epochs")
    ctx.require(len(trace) >= 1 and np.isfinite(trace[0]), "trace-starts-finite", trace)
    # a failed epoch may report +inf or NaN (it is rolled back); NaN must never be accepted as the best model:
    # the returned model is free of NaN and, below, its estimate equals the smallest non-NaN trace value
    has_nan = any(bool(np.isnan(f).any()) for f in M.factor_matrices)
    ctx.require(not has_nan, "no-nan-in-returned-model", trace)
    if np.isnan(trace).any():
        ctx.label("nan-epoch-rolled-back")
        trace = np.where(np.isnan(trace), np.inf, trace)
    run_min = np.minimum.accumulate(trace)
    failed = bool(np.any(trace[1:] > run_min[:-1])) if len(trace) > 1 else False
    ctx.label("failed-epoch" if failed else "no-failed-epoch", f"epochs={epochs}")
    ctx.nt = failed
    # bounds
    low = min(float(np.min(f)) for f in M.factor_matrices)
    ctx.check(low >= lb, "factor-entries-respect-lower-bound", f"min entry {low} < {lb}")
    ctx.check(all(np.all(np.isfinite(f)) for f in M.factor_matrices), "returned-model-finite")
    # estimates on the fixed function sample
    F0, tol0 = _sample_estimate(name, fh, M0, rec.fsamples[0])
    tol0 *= tolx
    ctx.check(abs(trace[0] - F0) <= tol0, "trace-starts-at-estimate-of-initial-model", f"{trace[0]!r} vs {F0!r} tol {tol0:.3g}")
    Fb, tolb = _sample_estimate(name, fh, M, rec.fsamples[0])
    tolb *= tolx
    ctx.check(Fb <= trace[0] + tolb + tol0, "returned-model-no-worse-than-start", f"{Fb!r} vs {trace[0]!r}")
    tmin = float(np.min(trace))
    if full_trace:
        ctx.check(abs(Fb - tmin) <= tolb, "returned-model-is-trace-minimum", f"{Fb!r} vs min(trace) {tmin!r} tol {tolb:.3g}")
    else:
        # trace of unexpected length: the returned model may still not be worse than anything reported
        ctx.check(Fb <= tmin + tolb, "returned-model-no-worse-than-reported-trace", f"{Fb!r} vs {tmin!r}")
        ctx.check(abs(Fb - tmin) <= tolb, f"returned-model-is-trace-minimum[{off}]",
                  f"{Fb!r} vs min(trace) {tmin!r} tol {tolb:.3g}")


for _k in ("sgd", "adam", "adagrad"):
    cell(f"C13/solve/{_k}", strategy=(lambda kk: lambda tier: _stochastic_case(tier, kk))(_k), quick=300, thorough=6000,
         shards=(2, 8))(_stochastic_body)


# --------------------------------------------------------------------------
# L-BFGS-B
# --------------------------------------------------------------------------


@st.composite
def _lbfgsb_case(draw, tier):
    c = draw(_problem(tier, holders=("dense",)))
    n = ref.prod(c["shape"])
    # every option over its admissible range, incl. the values that end the solver early for each of its reasons:
    # iteration / evaluation limits at 1..3, a line search allowed 1..3 steps (it then usually gives up), tolerances
    # that are met at once (huge) or never (0)
    c["solver"] = dict(kind="lbfgsb", m=draw(st.sampled_from([None, 1, 3, 5])),
                       maxiter=draw(st.one_of(st.integers(1, 3), st.integers(1, 12))),
                       maxfun=draw(st.sampled_from([None, None, None, 1, 2, 3, 20])),
                       factr=draw(st.sampled_from([1e7, 1e7, 1e1, 1e12, 0.0, 1e15])),
                       pgtol=draw(st.sampled_from([None, None, 1e-8, 1e-2, 0.0, 1e-12, 1e3])))
    mk = draw(st.sampled_from(["none", "none", "tensor", "tensor"]))
    c["mask"] = None if mk == "none" else draw(st.lists(st.sampled_from([0.0, 1.0, 1.0]), min_size=n, max_size=n))
    c["objective_as"] = draw(st.sampled_from(["tuple", "enum"]))
    c["np_seed"] = draw(st.integers(0, 2**31 - 1))
    c["mdtype"] = draw(st.sampled_from(["float64", "float64", "int64", "bool", "uint8"]))  # a mask is naturally 0/1 integers or booleans
    c["solver"]["maxls"] = draw(st.sampled_from([None, None, 1, 1, 2, 2, 3, 5, 40]))
    # a start far from the data's scale makes the first line search hard (steps rejected, line search may give up)
    c["gscale"] = draw(st.sampled_from([1.0, 1.0, 1.0, 30.0, 1e-2, 300.0]))
    if c["loss"] == "bernoulli_logit":  # (exp(model value) must stay finite for the start to have an objective)
        c["gscale"] = min(c["gscale"], 30.0)
    if c["gscale"] != 1.0 and c["init"] != "random":
        g = c["gscale"] ** (1.0 / len(c["shape"]))
        c["factors"] = [[[v * g for v in row] for row in f] for f in c["factors"]]
    return c


def _objective(name, fh, M, X, W):
    A = [np.asarray(f, dtype=float) for f in M.factor_matrices]
    lam = np.asarray(M.weights, dtype=float)
    Aw = [A[0] * lam[None, :]] + A[1:]
    Mv = H.kruskal_c(Aw)
    dM = H.model_rounding(Aw)
    pr = H.PointwiseRef(name, None, fh, None, X, Mv, dM)
    w = 1.0 if W is None else W
    F = float(np.sum(w * pr.f))
    tol = float(np.sum(w * pr.tol_f) + 64 * X.size * EPS * np.sum(w * np.abs(pr.f))) + 1e-300
    return F, tol


@cell("C13/solve/lbfgsb", strategy=_lbfgsb_case, quick=300, thorough=6000, shards=(2, 8))
def solve_lbfgsb(ctx, case):
    name, X, data, init = _build_problem(case)
    with ctx.sut("fg_setup.setup"):
        fh, gh, lb = fg_setup.setup(H.objective(name), None, None)
    W = None if case["mask"] is None else gen.arr_F(case["shape"], case["mask"])
    Xw = X if W is None else X * W
    as_enum = case["objective_as"] == "enum" and _domain_ok_for_enum(name, Xw, "dense")
    objective = H.objective(name) if as_enum else (fh, gh, lb)
    mask = None if W is None else ttb.tensor(H.typed(W, case.get("mdtype")).copy(order="F"), tuple(case["shape"]))
    if mask is not None:
        ctx.label("mask-dtype-" + str(mask.data.dtype))
    ctx.label("loss-" + name, "mask-" + ("none" if W is None else "tensor"), "init-" + case["init"], "guess-" + case.get("gclass", "ordinary"),
              f"maxiter={case['solver']['maxiter']}", "objective-enum" if as_enum else "objective-tuple")
    opt = _mk_solver(case["solver"])
    np.random.seed(case["np_seed"])
    out = _run_gcp_opt(ctx, "gcp_opt", data, case["rank"], objective, opt, init, mask=mask)
    if out is None:
        return
    ctx.require(isinstance(out, tuple) and len(out) == 3, "gcp_opt-returns-(model,guess,info)")
    M, M0, info = out
    ctx.require(isinstance(M, ttb.ktensor) and isinstance(M0, ttb.ktensor) and isinstance(info, dict)
                and "final_f" in info, "gcp_opt-result-types")
    ctx.check(tuple(M.shape) == tuple(case["shape"]) and M.ncomponents == case["rank"], "model-shape-and-rank")
    F1, tol1 = _objective(name, fh, M, Xw, W)
    F0, tol0 = _objective(name, fh, M0, Xw, W)
    ff = float(info["final_f"])
    if not np.isfinite(F0):
        ctx.skip("objective of the starting guess is not finite")
    ctx.nt = F1 < F0 - tol0 - tol1
    ctx.label("improved" if ctx.nt else "not-improved")
    task = info.get("task")
    task = task.decode(errors="replace") if isinstance(task, bytes) else str(task)
    sv = case["solver"]
    ctx.label(f"maxls={sv.get('maxls')}", f"maxfun={sv.get('maxfun')}", f"factr={sv.get('factr')}", f"pgtol={sv.get('pgtol')}",
              f"guess-scale-{case.get('gscale', 1.0)}", f"warnflag={info.get('warnflag')}",
              "stop-" + ("abnormal" if "ABNORMAL" in task else "limit" if "LIMIT" in task or "EXCEEDS" in task
                         else "converged" if "CONVERGENCE" in task else "other"))
    if info.get("warnflag") == 2 or "ABNORMAL" in task:
        # SciPy reports an abnormal termination (line search gave up, e.g. with a small maxls): it then hands back the
        # last accepted point together with the value of the last trial point - its own convention, not pyttb's
        ctx.label("scipy-abnormal-termination")
    else:
        ctx.check(abs(ff - F1) <= tol1, "final_f-is-objective-of-returned-model", f"{ff!r} vs {F1!r} tol {tol1:.3g}")
    ctx.check(F1 <= F0 + tol0 + tol1, "lbfgsb-never-returns-higher-objective", f"{F1!r} vs start {F0!r}")
    low = min(float(np.min(f)) for f in M.factor_matrices)
    # the bound is enforced by SciPy's projected steps; a step that ends on the bound in exact arithmetic may end one
    # rounding error of the largest entry below it (seen: -1.3e-122 next to entries of 0.2 when maxfun stops the
    # line search): stated tolerance eps * max|entry|
    lb_tol = 2.220446049250313e-16 * max(float(np.max(np.abs(f))) for f in M.factor_matrices)
    ctx.check(low >= lb - lb_tol, "factor-entries-respect-lower-bound", f"min entry {low} < {lb} - {lb_tol:.3g}")
    its = info.get("nit")
    if its is not None:
        ctx.check(int(its) <= case["solver"]["maxiter"], "iteration-limit-respected", f"{its}")


# --------------------------------------------------------------------------
# reuse of one optimizer object (history property)
# --------------------------------------------------------------------------


@st.composite
def _reuse_case(draw, tier, kind):
    nsolves = draw(st.integers(2, 4))
    same = draw(st.sampled_from(["same-problem", "same-size", "different", "different"]))
    first = draw(_problem(tier, losses=["gaussian", "poisson", "gamma"], holders=("dense",)))
    probs = [first]
    for _ in range(nsolves - 1):
        if same == "same-problem":
            probs.append(dict(first))
        elif same == "same-size":
            # same shape and rank, new data and guess
            n = ref.prod(first["shape"])
            p2 = dict(first)
            p2["data"] = draw(st.lists(_solve_data_value(first["loss"]), min_size=n, max_size=n))
            if all(v == 0 for v in p2["data"]):
                p2["data"][0] = 1.0
            p2["factors"] = [[[abs(v) + 0.1 if H.LOSSES[first["loss"]]["lb"] == 0.0 else v for v in row][::-1]
                              for row in f] for f in first["factors"]]
            probs.append(p2)
        else:
            probs.append(draw(_problem(tier, losses=["gaussian", "poisson", "gamma"], holders=("dense",))))
    for p in probs:
        if p["init"] == "random":
            p["init"] = "factors"
    if kind == "lbfgsb":
        solver = dict(kind="lbfgsb", m=draw(st.sampled_from([None, 3])), maxiter=draw(st.integers(1, 6)), maxfun=None,
                      factr=1e7, pgtol=None, callback=draw(st.booleans()))
    else:
        solver = _solver_args(draw, kind)
        solver["max_iters"] = draw(st.integers(1, 3))
    seeds = [draw(st.integers(0, 2**31 - 1)) for _ in probs]
    # the same data tensor and GCPSampler object handed to every solve (only meaningful for one and the same problem)
    share = same == "same-problem" and draw(st.booleans())
    # or: one data object serves every solve and is edited in place (item assignment) to hold the next problem's data
    edit = same == "same-size" and draw(st.booleans())
    return dict(solver=solver, problems=probs, seeds=seeds, relation=same, share_data_and_sampler=share, edit_data_object=edit)


class _Counter:
    def __init__(self):
        self.n = 0

    def __call__(self, xk):
        self.n += 1


def _one_solve(ctx, opt, p, seed, what, shared=None):
    name, X, data, init = _build_problem(p)
    fh, gh, lb = fg_setup.setup(H.objective(name), None, None)
    M0 = ttb.ktensor([f.copy() for f in H.build_factors(p)])
    if shared is not None and shared.get("mode") == "edit":
        tgt = shared.get("data")
        if tgt is None:
            shared["data"] = data
        else:
            # the object the earlier solves worked on is overwritten entry by entry with this problem's data
            ok = (tgt.data.dtype == data.data.dtype and tuple(tgt.shape) == tuple(data.shape)
                  and tgt.data.flags["F_CONTIGUOUS"] == data.data.flags["F_CONTIGUOUS"])
            if ok:
                try:
                    cur = np.asarray(tgt.data)
                    for sub in np.argwhere(cur != X):
                        tgt[tuple(int(i) for i in sub)] = data.data[tuple(sub)].item()
                    ok = bool(np.array_equal(np.asarray(tgt.data), X))
                except Exception:  # noqa: BLE001  (item assignment is judged by other properties)
                    ok = False
            if ok:
                data = tgt
                shared["edited"] = shared.get("edited", 0) + 1
            else:
                shared["data"] = data
        shared["sampler"] = GCPSampler(data)  # a sampler is built per solve, as gcp_opt does
    elif shared is not None:
        if "data" not in shared:
            shared["data"] = data
            shared["sampler"] = GCPSampler(data)
        data = shared["data"]
    np.random.seed(seed)
    try:
        if isinstance(opt, LBFGSB):
            M, info = opt.solve(M0, data, fh, gh, lb)
        else:
            M, info = opt.solve(M0, data, fh, gh, lb, GCPSampler(data) if shared is None else shared["sampler"])
    except ValueError as e:
        if "Infinite gradient encountered" in str(e):
            return "diverged"
        with ctx.sut(what):
            raise
    except Exception:  # noqa: BLE001
        with ctx.sut(what):
            raise
    key = "final_f" if isinstance(opt, LBFGSB) else "f_est_trace"
    return [np.array(f, copy=True) for f in M.factor_matrices], np.array(M.weights, copy=True), np.ravel(
        np.asarray(info[key], dtype=float)).copy()


def _same_result(a, b):
    if isinstance(a, str) or isinstance(b, str):
        return a == b if isinstance(a, str) and isinstance(b, str) else False
    return (len(a[0]) == len(b[0]) and all(np.array_equal(x, y, equal_nan=True) for x, y in zip(a[0], b[0]))
            and np.array_equal(a[1], b[1]) and np.array_equal(a[2], b[2], equal_nan=True))


def _reuse_body(ctx, case):
    a = dict(case["solver"])
    probs = case["problems"]
    sizes = {(tuple(p["shape"]), p["rank"]) for p in probs}
    ctx.label("solver-" + a["kind"], f"solves={len(probs)}", "relation-" + case["relation"],
              "sizes-differ" if len(sizes) > 1 else "sizes-equal")
    ctx.nt = len(probs) >= 2 and len(sizes) > 1
    cb_shared = _Counter() if a.get("callback") else None

    def mk(cb):
        o = _mk_solver(a)
        if a["kind"] == "lbfgsb" and cb is not None:
            o = LBFGSB(**{k: a[k] for k in ("m", "maxiter") if a.get(k) is not None}, callback=cb)
        return o

    with ctx.sut("optimizer-constructor"):
        shared = mk(cb_shared)
    shared_objs = {} if case.get("share_data_and_sampler") else ({"mode": "edit"} if case.get("edit_data_object") else None)
    if case.get("share_data_and_sampler"):
        ctx.label("data-and-sampler-objects-shared")
    for i, (p, seed) in enumerate(zip(probs, case["seeds"])):
        cb_fresh = _Counter() if a.get("callback") else None
        before = cb_shared.n if cb_shared is not None else 0
        got = _one_solve(ctx, shared, p, seed, "first-solve-on-object" if i == 0 else "later-solve-on-reused-object",
                         shared=shared_objs)
        fresh = _one_solve(ctx, mk(cb_fresh), p, seed, "solve-on-fresh-object")
        clause = "first-solve-equals-fresh-object" if i == 0 else "later-solve-equals-fresh-object"
        ctx.check(_same_result(got, fresh), clause, f"solve {i} of {len(probs)} ({case['relation']})")
        if cb_shared is not None:
            ctx.check(cb_shared.n - before == cb_fresh.n, "user-callback-called-as-on-fresh-object",
                      f"{cb_shared.n - before} vs {cb_fresh.n}")
    if case.get("edit_data_object"):
        ctx.label(f"data-object-edited-in-place-x{shared_objs.get('edited', 0)}")


for _k in ("sgd", "adam", "adagrad", "lbfgsb"):
    cell(f"C13/reuse/{_k}", strategy=(lambda kk: lambda tier: _reuse_case(tier, kk))(_k), quick=150, thorough=3000,
         shards=(2, 8))(_reuse_body)


# ==========================================================================
# round 4: reporting options / logging environment (class 13), presentations of valid arguments (class 11),
# state after a rejected request (class 12)
# ==========================================================================

F32 = float(np.finfo(np.float32).eps)


class _LogEnv:
    """the root logger at DEBUG / INFO with only a NullHandler attached and logging.disable() lifted - restored on exit"""

    def __init__(self, mode):
        self.mode = mode

    def __enter__(self):
        root = logging.getLogger()
        self.saved = (root.level, root.manager.disable, list(root.handlers))
        if self.mode != "untouched":
            for h in list(root.handlers):
                root.removeHandler(h)
            root.addHandler(logging.NullHandler())
            root.setLevel(logging.DEBUG if self.mode == "debug" else logging.INFO)
            logging.disable(logging.NOTSET)
        return self

    def __exit__(self, *exc):
        root = logging.getLogger()
        level, disabled, handlers = self.saved
        for h in list(root.handlers):
            root.removeHandler(h)
        for h in handlers:
            root.addHandler(h)
        root.setLevel(level)
        logging.disable(disabled)
        return False


_INFO_KEYS = ("f_est_trace", "step_trace", "n_epoch", "final_f", "nit", "funcalls", "warnflag", "grad")


def _snap(out):
    """everything a solve returned that is not a wall-clock time, copied"""
    if out is None:
        return "no-result"
    M, M0, info = out
    d = dict(model=[np.array(f, copy=True) for f in M.factor_matrices], weights=np.array(M.weights, copy=True),
             guess=[np.array(f, copy=True) for f in M0.factor_matrices], guess_weights=np.array(M0.weights, copy=True),
             info_keys=sorted(str(k) for k in info))
    for k in _INFO_KEYS:
        if k in info:
            d[k] = np.array(info[k], copy=True)
    if "task" in info:
        d["task"] = info["task"].decode(errors="replace") if isinstance(info["task"], bytes) else str(info["task"])
    return d


def _snap_diff(a, b, skip=()):
    """name of the first part in which two results differ (None: identical bit for bit)"""
    if isinstance(a, str) or isinstance(b, str):
        return None if (isinstance(a, str) and isinstance(b, str) and a == b) else "one-run-ended-without-result"
    for k in sorted(set(a) | set(b)):
        if k in skip:
            continue
        if (k in a) != (k in b):
            return k
        x, y = a[k], b[k]
        if isinstance(x, list) and x and isinstance(x[0], np.ndarray):
            same = len(x) == len(y) and all(u.shape == v.shape and np.array_equal(u, v, equal_nan=True) for u, v in zip(x, y))
        elif isinstance(x, np.ndarray):
            same = x.shape == y.shape and (np.array_equal(x, y, equal_nan=True) if x.dtype.kind == "f" else np.array_equal(x, y))
        else:
            same = x == y
        if not same:
            return k
    return None


# --------------------------------------------------------------------------
# class 13: quiet and verbose runs of the same request
# --------------------------------------------------------------------------


def _report_opts(draw, kind):
    r = dict(printitn=draw(st.sampled_from([1, 1, 2, 3, 7, True])), gcp_printitn=draw(st.sampled_from([0, 1, 1, 4])),
             quiet=draw(st.sampled_from([0, 0, -1, False])), log=draw(st.sampled_from(["debug", "debug", "info"])))
    if kind == "lbfgsb":  # SciPy's own reporting switches (only their silent settings: SciPy prints from Fortran)
        r["disp"] = draw(st.sampled_from([None, 0]))
        r["iprint"] = draw(st.sampled_from([None, -1]))
    return r


@st.composite
def _report_case(draw, tier, kind):
    c = draw(_lbfgsb_case(tier)) if kind == "lbfgsb" else draw(_stochastic_case(tier, kind))
    if kind != "lbfgsb" and draw(st.booleans()):  # make failed epochs and several epochs common
        c["solver"]["max_iters"] = draw(st.integers(3, 6))
        c["solver"]["max_fails"] = draw(st.integers(1, 3))
    c["report"] = _report_opts(draw, kind)
    return c


def _lbfgsb_run(ctx, case, sv, gcp_printitn=0, present=None, what="gcp_opt"):
    name, X, data, init = _build_problem(case)
    with ctx.sut("fg_setup.setup"):
        fh, gh, lb = fg_setup.setup(H.objective(name), None, None)
    W = None if case["mask"] is None else gen.arr_F(case["shape"], case["mask"])
    Xw = X if W is None else X * W
    as_enum = case["objective_as"] == "enum" and _domain_ok_for_enum(name, Xw, "dense")
    objective = H.objective(name) if as_enum else (fh, gh, lb)
    mask = None if W is None else ttb.tensor(H.typed(W, case.get("mdtype")).copy(order="F"), tuple(case["shape"]))
    rank = case["rank"]
    if present is not None:
        data, init, sv, rank, mask = present(data, init, sv, mask)
    kw = {k: sv[k] for k in ("m", "maxiter", "maxfun", "factr", "pgtol", "maxls", "disp", "iprint") if sv.get(k) is not None}
    opt = LBFGSB(**kw)
    np.random.seed(case["np_seed"])
    out = _run_gcp_opt(ctx, what, data, rank, objective, opt, init, mask=mask, printitn=gcp_printitn)
    return None if out is None else dict(out=out, name=name, fh=fh, lb=lb, Xw=Xw, W=W)


def _report_body(ctx, case):
    """the same request quiet (printitn <= 0, logging as the harness leaves it) and verbose (printitn > 0 in the solver
    and / or in gcp_opt, root logger at DEBUG / INFO): same guess, model and traces bit for bit; the verbose run is
    judged by the property's own clauses"""
    a = dict(case["solver"])
    r = case["report"]
    kind = a["kind"]
    ctx.label("solver-" + kind, f"printitn={r['printitn']!r}", f"gcp-printitn={r['gcp_printitn']}", f"quiet={r['quiet']!r}", "log-" + r["log"])
    if kind == "lbfgsb":
        run = lambda sv, gp: _lbfgsb_run(ctx, case, sv, gp)  # noqa: E731
        quiet, loud = dict(a), dict(a, disp=r.get("disp"), iprint=r.get("iprint"))
        ctx.label(f"disp={r.get('disp')}", f"iprint={r.get('iprint')}")
    else:
        run = lambda sv, gp: _stochastic_run(ctx, case, sv, gp)  # noqa: E731
        quiet, loud = dict(a, printitn=r["quiet"]), dict(a, printitn=r["printitn"])
        ctx.label("sampler-" + case["sampler"])
        if case["sampler"] == "gcp-combo":
            ctx.label(f"combo-f-{case['fs']}-g-{case['gs']}")
    base = run(quiet, 0)
    sb = _snap(None if base is None else base["out"])
    with _LogEnv("untouched"):
        v1 = run(loud, r["gcp_printitn"])
    with _LogEnv(r["log"]):
        v2 = run(quiet, 0)
        v3 = run(loud, max(1, r["gcp_printitn"]))
    for tag, v in (("printitn", v1), ("root-logger-level", v2), ("printitn-and-root-logger-level", v3)):
        d = _snap_diff(sb, _snap(None if v is None else v["out"]))
        ctx.check(d is None, f"same-result-whatever-{tag}", f"differs in: {d}")
    if v3 is None:
        ctx.label("no-result")
        return
    if kind == "lbfgsb":
        M, M0, info = v3["out"]
        F1, tol1 = _objective(v3["name"], v3["fh"], M, v3["Xw"], v3["W"])
        F0, tol0 = _objective(v3["name"], v3["fh"], M0, v3["Xw"], v3["W"])
        ctx.nt = bool(np.isfinite(F0)) and F1 < F0 - tol0 - tol1
        if np.isfinite(F0):
            ctx.check(F1 <= F0 + tol0 + tol1, "lbfgsb-never-returns-higher-objective", f"{F1!r} vs start {F0!r}")
    else:
        _judge_stochastic(ctx, case, loud, v3)


for _k in ("sgd", "adam", "adagrad", "lbfgsb"):
    cell(f"C13/report/{_k}", strategy=(lambda kk: lambda tier: _report_case(tier, kk))(_k), quick=60, thorough=600,
         shards=(2, 8))(_report_body)


# --------------------------------------------------------------------------
# class 11: the same request in two presentations
# --------------------------------------------------------------------------

_NPINT = {"int64": np.int64, "int32": np.int32, "intp": np.intp, "int16": np.int16}


def _f32_values(vals):
    return [float(np.float32(v)) for v in vals]


@st.composite
def _present_sampler_case(draw, tier):
    c = draw(_gcpsampler_case(tier))
    c["f32"] = c["vdtype"] == "float64" and draw(st.booleans())
    if c["f32"]:  # values a float32 array holds exactly (both presentations hold the same numbers)
        c["vals"] = _f32_values(c["vals"])
    c["cnt_dtype"] = draw(st.sampled_from(["int64", "int64", "int32", "intp", "int16"]))
    c["subs_dtype"] = draw(st.sampled_from(["int64", "int32", "int32", "uint8", "uint16", "uint64"]))
    c["readonly"] = draw(st.booleans())
    c["direct"] = draw(st.sampled_from(["uniform", "stratified", "semistrat"]))
    c["direct_counts"] = [draw(st.integers(0, 6)), draw(st.integers(0, 6))]
    c["seeds"] = [draw(st.integers(0, 2**31 - 1)) for _ in range(3)]
    return c


def _ro(a, readonly):
    a = np.array(a, copy=True, order="K")
    if readonly:
        a.flags.writeable = False
    return a


def _alt_data(data, subs_dtype="int64", f32=False, readonly=False):
    """the same tensor presented differently: subscripts in another integer dtype, values in float32 (the caller made
    sure they are exactly representable), buffers read-only (handed over with copy=False).  None: the constructor
    did not produce the same tensor (judged by other properties)."""
    shape = tuple(int(n) for n in data.shape)
    try:
        if isinstance(data, ttb.sptensor):
            subs = np.asarray(data.subs)
            if subs.size and int(subs.max()) > np.iinfo(subs_dtype).max:
                subs_dtype = "int64"
            vals = np.asarray(data.vals)
            T = ttb.sptensor(_ro(subs.astype(subs_dtype), readonly), _ro(vals.astype(np.float32) if f32 else vals, readonly), shape, copy=False)
        else:
            arr = np.asarray(data.data)
            T = ttb.tensor(_ro(arr.astype(np.float32) if f32 else arr, readonly), shape, copy=False)
            # (a different memory layout changes the order of summation in the solvers: not the same request bit for bit)
            if any(T.data.flags[f] != arr.flags[f] for f in ("C_CONTIGUOUS", "F_CONTIGUOUS")):
                return None
        if tuple(int(n) for n in T.shape) != shape or not np.array_equal(np.asarray(ref.den(T), dtype=float), np.asarray(ref.den(data), dtype=float)):
            return None
        return T
    except Exception:  # noqa: BLE001
        return None


def _consistent(s):
    return isinstance(s, tuple) and len(s) == 3 and isinstance(s[0], np.ndarray) and s[0].ndim == 2 and s[0].shape[0] == np.size(s[1]) == np.size(s[2])


@cell("C13/present/sampler", strategy=_present_sampler_case, quick=150, thorough=1500, shards=(1, 4))
def present_sampler(ctx, case):
    """a sampler request in the library's favourite form (Python int counts, int64 subscripts, float64 / int values,
    writable buffers) and as ordinary callers make it (NumPy integer scalars as counts, int32 / unsigned subscripts as
    SciPy COO matrices carry them, float32 values, read-only buffers): same random state, same sample - and the sample
    of the second presentation satisfies the sampler clauses"""
    A = _dense_of(case)
    dense = case["holder"] == "dense"
    shape = tuple(case["shape"])
    cn = _NPINT[case["cnt_dtype"]]

    def mk_canon():
        if dense:
            return ttb.tensor(H.typed(A, case.get("vdtype")).copy(order="F"), shape)
        c0 = dict(case, dprov="ctor")
        return _build_sp(c0)

    canon = mk_canon()
    alt = _alt_data(canon, case["subs_dtype"], case["f32"], case["readonly"])
    if alt is None:
        ctx.skip("constructor did not take the presentation")
    ctx.label("holder-" + case["holder"], "counts-" + case["cnt_dtype"], "subs-" + (case["subs_dtype"] if not dense else "n/a"),
              "vals-" + str((alt.data if dense else alt.vals).dtype), "read-only" if case["readonly"] else "writable",
              "direct-" + case["direct"], f"f-{case['fs']}", f"g-{case['gs']}")
    ctx.nt = case["nnz"] >= 1 and case["nzeros"] >= 1

    def pair(what, fn_c, fn_a, seed, kind, k):
        want = _draw_or_raise(fn_c, seed)
        if isinstance(want, str):  # (cannot be served, e.g. zeros of a full tensor: judged by the sampler cells)
            ctx.label("request-not-servable")
            return
        np.random.seed(seed)
        with ctx.sut(what):
            got = fn_a()
        ctx.check(_same_sample(got, want), "same-sample-in-both-presentations", what)
        if _consistent(want) and _consistent(got):
            subs, vals, wts, n = _check_triple(ctx, got, A.ndim)
            if kind == "uniform":
                _check_gcp_sample(ctx, case, A, got, "uniform", None, what)
            else:
                kk = k if k is not None else int(np.count_nonzero(vals))
                _check_stratified(ctx, A, subs, vals, wts, kk, confirm_zeros=(kind == "stratified"))
        else:
            ctx.label("short-zero-sample")

    knz, kz = case["direct_counts"]
    direct = "uniform" if dense else case["direct"]
    if direct == "uniform":
        pair("samplers.uniform", lambda: samplers.uniform(canon, knz + kz), lambda: samplers.uniform(alt, cn(knz + kz)),
             case["seeds"][0], "uniform", None)
    elif direct == "stratified" and not (case["nzeros"] == 0 and kz > 0):
        idx = _nz_idx(case)
        idx_a = _ro(idx.astype(np.int32), case["readonly"])
        pair("samplers.stratified", lambda: samplers.stratified(canon, idx, knz, kz),
             lambda: samplers.stratified(alt, idx_a, cn(knz), cn(kz)), case["seeds"][0], "stratified", knz)
    elif direct == "semistrat":
        pair("samplers.semistrat", lambda: samplers.semistrat(canon, knz, kz), lambda: samplers.semistrat(alt, cn(knz), cn(kz)),
             case["seeds"][0], "semistrat", knz)
    # GCPSampler: (a) data in the other presentation, (b) counts as NumPy integer scalars
    fs = None if case["fs"] is None else getattr(Samplers, case["fs"])
    gs = None if case["gs"] is None else getattr(Samplers, case["gs"])
    kw = {} if case.get("over_sample_rate") is None else dict(over_sample_rate=case["over_sample_rate"])
    npc = lambda x: (StratifiedCount(num_nonzeros=cn(x[0]), num_zeros=cn(x[1])) if isinstance(x, list)  # noqa: E731
                     else (x if x is None else cn(x)))
    f_kind = "uniform" if (dense or case["fs"] == "UNIFORM") else "stratified"
    g_kind = "uniform" if dense else {"SEMISTRATIFIED": "semistrat"}.get(case["gs"], "stratified")
    try:
        smp_c = GCPSampler(canon, fs, _mk_count(case["fn"]), gs, _mk_count(case["gn"]), case["max_iters"], **kw)
    except Exception:  # noqa: BLE001  (judged by C13/sampler/gcpsampler)
        return
    with ctx.sut("GCPSampler(data-in-other-presentation)"):
        smp_a = GCPSampler(alt, fs, _mk_count(case["fn"]), gs, _mk_count(case["gn"]), np.int64(case["max_iters"]), **kw)
    for tag, kind, seed in (("function", f_kind, case["seeds"][1]), ("gradient", g_kind, case["seeds"][2])):
        call = (lambda s_, d_: s_.function_sample(d_)) if tag == "function" else (lambda s_, d_: s_.gradient_sample(d_))
        k = int(np.size(smp_c.crng)) if kind == "semistrat" else None
        pair(f"GCPSampler.{tag}_sample(data-in-other-presentation)", lambda: call(smp_c, canon), lambda: call(smp_a, alt), seed, kind, k)
    ctx.check(np.array_equal(np.asarray(ref.den(alt), dtype=float), A), "sampler-leaves-data")
    if case["fn"] is None and case["gn"] is None:
        return
    ctx.label("numpy-int-counts-to-GCPSampler")
    with ctx.sut("GCPSampler(numpy-int-counts)"):
        smp_n = GCPSampler(canon, fs, npc(case["fn"]), gs, npc(case["gn"]), case["max_iters"], **kw)
    for tag, kind, seed in (("function", f_kind, case["seeds"][1]), ("gradient", g_kind, case["seeds"][2])):
        call = (lambda s_, d_: s_.function_sample(d_)) if tag == "function" else (lambda s_, d_: s_.gradient_sample(d_))
        k = int(np.size(smp_c.crng)) if kind == "semistrat" else None
        pair(f"GCPSampler.{tag}_sample(numpy-int-counts)", lambda: call(smp_c, canon), lambda: call(smp_n, canon), seed, kind, k)


@st.composite
def _present_solve_case(draw, tier):
    kind = draw(st.sampled_from(["sgd", "adam", "adagrad", "lbfgsb"]))
    c = draw(_lbfgsb_case(tier)) if kind == "lbfgsb" else draw(_stochastic_case(tier, kind))
    f32 = draw(st.sampled_from([False, False, True]))
    if f32:
        c["data"] = _f32_values(c["data"])
        c["ddtype"] = "float64"
    c["present"] = dict(int_dtype=draw(st.sampled_from(["int64", "int32"])), readonly=draw(st.booleans()),
                        subs_dtype=draw(st.sampled_from(["int64", "int32", "int32", "uint16"])), f32=f32,
                        init_as=draw(st.sampled_from(["same", "tuple", "read-only"])),
                        mask_as=draw(st.sampled_from(["tensor", "ndarray", "read-only-ndarray"])))
    return c


def _alt_init(init, how):
    if isinstance(init, list) and how != "same":
        fm = [_ro(f, how == "read-only") for f in init]
        return tuple(fm) if how == "tuple" else fm
    return init


@cell("C13/present/solve", strategy=_present_solve_case, quick=100, thorough=1000, shards=(2, 8))
def present_solve(ctx, case):
    """one solve request twice: as the other cells make it, and with rank / epoch and iteration limits / sample counts
    as NumPy integer scalars, data with int32 / uint16 subscripts or read-only buffers, the factor guess as a tuple or
    as read-only arrays, the mask as an ndarray: same guess, model and trace bit for bit.  Data held in float32
    (values exactly representable): the starting objective agrees to a single-precision bound and the property's own
    clauses hold with single-precision tolerances."""
    a = dict(case["solver"])
    pr = case["present"]
    kind = a["kind"]
    it = _NPINT[pr["int_dtype"]]
    ctx.label("solver-" + kind, "ints-" + pr["int_dtype"], "read-only" if pr["readonly"] else "writable", "init-as-" + pr["init_as"],
              "holder-" + case["holder"], "float32-data" if pr["f32"] else "data-dtype-kept")
    state = {}

    def alt_data(data):
        T = _alt_data(data, pr["subs_dtype"], pr["f32"], pr["readonly"])
        state["alt"] = T is not None
        if T is not None and isinstance(T, ttb.sptensor):
            ctx.label("subs-" + str(T.subs.dtype))
        return data if T is None else T

    if kind == "lbfgsb":
        def present(data, init, sv, mask):
            sv = dict(sv, maxiter=it(sv["maxiter"]))
            # (with init='random' gcp_opt scales the guess by the norm of the data, which it masks only for a tensor mask:
            #  the ndarray presentation is compared for explicit guesses)
            #  and for data in an F-ordered buffer (otherwise the masked product has another layout than the data: the
            #  objective is summed in another order and agrees only to rounding)
            if mask is not None and pr["mask_as"] != "tensor" and case["init"] != "random" and data.data.flags["F_CONTIGUOUS"]:
                ctx.label("mask-as-" + pr["mask_as"])
                mask = _ro(np.asarray(mask.data), pr["mask_as"] == "read-only-ndarray")
            return alt_data(data), _alt_init(init, pr["init_as"]), sv, it(case["rank"]), mask
        base = _lbfgsb_run(ctx, case, a)
        alt = _lbfgsb_run(ctx, case, a, present=present, what="gcp_opt(other-presentation)")
    else:
        def present(data, init, sv):
            sv = dict(sv, max_iters=it(sv["max_iters"]), epoch_iters=it(sv["epoch_iters"]), max_fails=it(sv["max_fails"]),
                      rate=np.float64(sv["rate"]))
            return alt_data(data), _alt_init(init, pr["init_as"]), sv, it(case["rank"]), it
        ctx.label("sampler-" + case["sampler"])
        base = _stochastic_run(ctx, case, a)
        alt = _stochastic_run(ctx, case, a, present=present, what="gcp_opt(other-presentation)")
    if not state.get("alt", False):
        ctx.label("data-presentation-not-taken")
    sb, sa = _snap(None if base is None else base["out"]), _snap(None if alt is None else alt["out"])
    if isinstance(sb, str) or isinstance(sa, str):
        # (a run that diverged or met an inconsistent sample: in exact arithmetic both do; with float32 data not demanded)
        if not pr["f32"]:
            ctx.check(isinstance(sb, str) and isinstance(sa, str), "same-result-in-both-presentations", "one run ended without result")
        return
    ctx.nt = True
    if not (pr["f32"] and state.get("alt", False)):
        if kind == "adam":
            # Adam raises beta to the number of iterations: with epoch_iters a NumPy integer NumPy's pow is used instead
            # of Python's (they may differ in the last bit).  Demanded: the same guess and starting value bit for bit,
            # the first epoch to 1e-9, and the property's own clauses for the second presentation
            d = _snap_diff({k: sb[k] for k in ("guess", "guess_weights")}, {k: sa[k] for k in ("guess", "guess_weights")})
            ta, tb = np.ravel(sa["f_est_trace"]), np.ravel(sb["f_est_trace"])
            if d is None and not (len(ta) >= 1 and len(tb) >= 1 and (ta[0] == tb[0] or (np.isnan(ta[0]) and np.isnan(tb[0])))):
                d = "f_est_trace[0]"
            if d is None and len(ta) >= 2 and len(tb) >= 2 and np.isfinite(ta[1]) and np.isfinite(tb[1]):
                if abs(ta[1] - tb[1]) > 1e-9 * max(abs(tb[1]), abs(tb[0])):
                    d = "f_est_trace[1]"
            ctx.check(d is None, "same-result-in-both-presentations", f"differs in: {d}")
            _judge_stochastic(ctx, case, a, alt)
            return
        d = _snap_diff(sb, sa)
        ctx.check(d is None, "same-result-in-both-presentations", f"differs in: {d}")
        return
    # float32 data: what one evaluation gives, to a single-precision bound; then the property's clauses
    key = "final_f" if kind == "lbfgsb" else "f_est_trace"
    if kind != "lbfgsb":
        F0, tol0 = _sample_estimate(alt["name"], alt["fh"], alt["out"][1], alt["rec"].fsamples[0])
        t0 = float(np.ravel(sa[key])[0])
        ctx.check(abs(t0 - F0) <= tol0 * (F32 / EPS), "float32-data:trace-starts-at-estimate-of-initial-model", f"{t0!r} vs {F0!r}")
        _judge_stochastic(ctx, case, a, alt, tolx=F32 / EPS)
    else:
        M, M0, info = alt["out"]
        F1, tol1 = _objective(alt["name"], alt["fh"], M, alt["Xw"], alt["W"])
        F0, tol0 = _objective(alt["name"], alt["fh"], M0, alt["Xw"], alt["W"])
        if np.isfinite(F0):
            ctx.check(F1 <= F0 + (tol0 + tol1) * (F32 / EPS), "float32-data:lbfgsb-never-returns-higher-objective", f"{F1!r} vs {F0!r}")


# --------------------------------------------------------------------------
# class 12: state after a rejected request
# --------------------------------------------------------------------------


class _Boom(Exception):
    pass


class _Fuse:
    """wraps a callable; raises at its k-th call (once)"""

    def __init__(self, fn, k):
        self.fn, self.k, self.n, self.armed = fn, k, 0, True

    def __call__(self, *a):
        self.n += 1
        if self.armed and self.n >= self.k:
            self.armed = False
            raise _Boom("raised by the caller's function")
        return None if self.fn is None else self.fn(*a)


REJ_STOCH = ["mask", "short-model", "handle-raises", "gradient-handle-raises", "bad-init", "bad-objective", "ndarray-data", "sampler-raises"]
REJ_LBFGSB = ["sparse-data", "short-model", "handle-raises", "callback-raises", "bad-init", "bad-objective", "ndarray-data"]
LEAVES_MONITOR = ("short-model", "handle-raises", "callback-raises")


@st.composite
def _rejected_solve_case(draw, tier, kind):
    c = draw(_reuse_case(tier, kind))
    n = len(c["problems"])
    rej = REJ_LBFGSB if kind == "lbfgsb" else REJ_STOCH
    # before every valid solve: 0..2 rejected requests issued to the same optimizer object
    c["rejected"] = [draw(st.lists(st.sampled_from(rej), min_size=0 if i else 1, max_size=2)) for i in range(n)]
    c["fuse"] = draw(st.integers(1, 4))
    c["share_data_and_sampler"] = False
    c["edit_data_object"] = False
    if kind == "lbfgsb":
        c["solver"]["callback"] = True
    return c


def _tensor_state(data):
    if isinstance(data, ttb.sptensor):
        return (tuple(int(n) for n in data.shape), np.array(data.subs, copy=True), np.array(data.vals, copy=True))
    return (tuple(int(n) for n in data.shape), np.array(data.data, copy=True))


def _same_state(a, b):
    return a[0] == b[0] and all(x.shape == y.shape and x.dtype == y.dtype and np.array_equal(x, y) for x, y in zip(a[1:], b[1:]))


def _rejected_request(ctx, opt, p, how, fuse, cb):
    """issue one ill-formed / failing request to the optimizer object; returns whether it was rejected.  The operands
    (data tensor, factor guess) must be left as they were."""
    name, X, data, init = _build_problem(p)
    fh, gh, lb = fg_setup.setup(H.objective(name), None, None)
    fm = [f.copy() for f in H.build_factors(p)]
    M0 = ttb.ktensor([f.copy() for f in fm])
    before = _tensor_state(data)
    fm_before = [f.copy() for f in fm]
    stochastic = not isinstance(opt, LBFGSB)
    extra = (lambda: (GCPSampler(data),)) if stochastic else (lambda: ())
    try:
        if how == "mask":
            ttb.gcp_opt(data, p["rank"], (fh, gh, lb), opt, init=fm, mask=ttb.tensor(np.ones(tuple(p["shape"]))), printitn=0)
        elif how == "sparse-data":
            ttb.gcp_opt(data.to_sptensor(), p["rank"], (fh, gh, lb), opt, init=fm, printitn=0)
        elif how == "bad-init":
            ttb.gcp_opt(data, p["rank"], (fh, gh, lb), opt, init="zeros", printitn=0)
        elif how == "bad-objective":
            ttb.gcp_opt(data, p["rank"], (fh, gh), opt, init=fm, printitn=0)
        elif how == "ndarray-data":
            ttb.gcp_opt(X, p["rank"], (fh, gh, lb), opt, init=fm, printitn=0)
        elif how == "short-model":  # a model with one mode fewer than the data
            opt.solve(ttb.ktensor([f.copy() for f in fm[:-1]]), data, fh, gh, lb, *extra())
        elif how == "handle-raises":
            opt.solve(M0, data, _Fuse(fh, fuse), gh, lb, *extra())
        elif how == "gradient-handle-raises":
            opt.solve(M0, data, fh, _Fuse(gh, fuse), lb, *extra())
        elif how == "sampler-raises":
            smp = Recorder(GCPSampler(data))
            smp.gradient_sample = _Fuse(smp.gradient_sample, fuse)
            opt.solve(M0, data, fh, gh, lb, smp)
        elif how == "callback-raises":
            cb.fuse = cb.n + fuse
            opt.solve(M0, data, fh, gh, lb)
        rejected = False
    except Exception:  # noqa: BLE001
        rejected = True
    if cb is not None:
        cb.fuse = None
    ctx.check(_same_state(before, _tensor_state(data)), "data-tensor-unchanged-by-rejected-request", how)
    if rejected and how not in ("handle-raises", "gradient-handle-raises", "sampler-raises", "callback-raises", "short-model"):
        ctx.check(all(np.array_equal(x, y) for x, y in zip(fm, fm_before)), "guess-unchanged-by-rejected-request", how)
    return rejected


class _FusedCounter(_Counter):
    fuse = None

    def __call__(self, xk):
        self.n += 1
        if self.fuse is not None and self.n >= self.fuse:
            self.fuse = None
            raise _Boom("raised by the caller's callback")


def _rejected_solve_body(ctx, case):
    """histories on one optimizer object in which valid solves are preceded by requests that are rejected (by gcp_opt's
    argument checks, or because the model does not fit the data, or because the caller's own function / callback /
    sampler raises in mid-solve): every valid solve equals the solve of a fresh object, operands are left unchanged"""
    a = dict(case["solver"])
    probs = case["problems"]
    ctx.label("solver-" + a["kind"], f"solves={len(probs)}", "relation-" + case["relation"])
    cb_shared = _FusedCounter() if a.get("callback") else None

    def mk(cb):
        if a["kind"] == "lbfgsb":
            return LBFGSB(**{k: a[k] for k in ("m", "maxiter") if a.get(k) is not None}, callback=cb)
        return _mk_solver(a)

    with ctx.sut("optimizer-constructor"):
        shared = mk(cb_shared)
    nrej = 0
    for i, (p, seed, rej) in enumerate(zip(probs, case["seeds"], case["rejected"])):
        for how in rej:
            ok = _rejected_request(ctx, shared, probs[(i + 1) % len(probs)] if how == "short-model" else p, how, case["fuse"], cb_shared)
            ctx.label(("rejected-" if ok else "accepted-") + how)
            nrej += ok
        cb_fresh = _Counter() if cb_shared is not None else None
        before = cb_shared.n if cb_shared is not None else 0
        got = _one_solve(ctx, shared, p, seed, "solve-after-rejected-request" if nrej else "solve-on-object")
        fresh = _one_solve(ctx, mk(cb_fresh), p, seed, "solve-on-fresh-object")
        ctx.check(_same_result(got, fresh), "solve-after-rejected-request-equals-fresh-object" if nrej else "solve-equals-fresh-object",
                  f"solve {i} of {len(probs)} after {nrej} rejected requests")
        if cb_shared is not None:
            ctx.check(cb_shared.n - before == cb_fresh.n, "user-callback-called-as-on-fresh-object", f"{cb_shared.n - before} vs {cb_fresh.n}")
    ctx.nt = nrej >= 1


for _k in ("sgd", "adam", "adagrad", "lbfgsb"):
    cell(f"C13/rejected/{_k}", strategy=(lambda kk: lambda tier: _rejected_solve_case(tier, kk))(_k), quick=40, thorough=400,
         shards=(2, 8))(_rejected_solve_body)


REJ_SAMPLER = ["ctor-stratified-for-dense", "ctor-uniform-with-stratified-count", "ctor-count-not-an-integer", "ctor-unknown-sampler",
               "draw-from-wrong-holder", "stratified-over-sample-rate-1", "nonzeros-too-many-without-replacement",
               "zeros-too-many-without-replacement", "uniform-negative-count", "draw-from-tensor-of-other-order"]


@st.composite
def _rejected_sampler_case(draw, tier):
    c = draw(_gcpsampler_case(tier))
    c["steps"] = draw(st.lists(st.sampled_from(REJ_SAMPLER + ["draw-f", "draw-g", "draw-g"]), min_size=2, max_size=6)) + ["draw-f", "draw-g"]
    c["seeds"] = [draw(st.integers(0, 2**31 - 1)) for _ in c["steps"]]
    return c


@cell("C13/rejected/sampler", strategy=_rejected_sampler_case, quick=100, thorough=1000, shards=(1, 4))
def rejected_sampler(ctx, case):
    """a GCPSampler and its data tensor go through draws mixed with requests that are rejected (ill-formed sampler
    configurations for the same data, draws from a tensor of the wrong kind, direct sampler calls that cannot be
    served): the data is left bit for bit as it was and every later draw equals the draw of a fresh sampler"""
    A = _dense_of(case)
    dense = case["holder"] == "dense"
    shape = tuple(case["shape"])

    def mk_data():
        return ttb.tensor(H.typed(A, case.get("vdtype")).copy(order="F"), shape) if dense else _build_sp(case)

    def mk_sampler(d):
        fs = None if case["fs"] is None else getattr(Samplers, case["fs"])
        gs = None if case["gs"] is None else getattr(Samplers, case["gs"])
        kw = {} if case.get("over_sample_rate") is None else dict(over_sample_rate=case["over_sample_rate"])
        return GCPSampler(d, fs, _mk_count(case["fn"]), gs, _mk_count(case["gn"]), case["max_iters"], **kw)

    data = mk_data()
    ctx.label("holder-" + case["holder"], f"f-{case['fs']}", f"g-{case['gs']}")
    with ctx.sut("GCPSampler"):
        shared = mk_sampler(data)
    other = ttb.tensor(np.asarray(A, dtype=float).copy(order="F"), shape) if not dense else ttb.tensor(A.copy(order="F"), shape).to_sptensor()
    S = data if not dense else other
    nnz, nzeros = case["nnz"], case["nzeros"]
    idx = _nz_idx(case)
    nrej = 0
    for how, seed in zip(case["steps"], case["seeds"]):
        if how.startswith("draw-") and how in ("draw-f", "draw-g"):
            call = (lambda s_, d_: s_.function_sample(d_)) if how == "draw-f" else (lambda s_, d_: s_.gradient_sample(d_))
            # (class 13: the shared sampler draws with the root logger at DEBUG for odd seeds - the zero sampler logs)
            with _LogEnv("debug" if seed % 2 else "untouched"):
                got = _draw_or_raise(lambda: call(shared, data), seed)
            with ctx.sut("GCPSampler"):
                d2 = mk_data()
                fresh = mk_sampler(d2)
            want = _draw_or_raise(lambda: call(fresh, d2), seed)
            ctx.check(_same_sample(got, want), "draw-after-rejected-request-equals-draw-of-fresh-sampler" if nrej else "draw-equals-draw-of-fresh-sampler", how)
            continue
        before = _tensor_state(data)
        np.random.seed(seed)
        try:
            if how == "ctor-stratified-for-dense":
                GCPSampler(data if dense else other, Samplers.STRATIFIED)
            elif how == "ctor-uniform-with-stratified-count":
                GCPSampler(data, Samplers.UNIFORM, StratifiedCount(num_nonzeros=2, num_zeros=2))
            elif how == "ctor-count-not-an-integer":
                GCPSampler(data, None, 2.5, None, "3")
            elif how == "ctor-unknown-sampler":
                GCPSampler(data, "uniform", 3, 7, 3)
            elif how == "draw-from-wrong-holder":
                shared.function_sample(other)
                shared.gradient_sample(other)
            elif how == "draw-from-tensor-of-other-order":
                o2 = ttb.tensor(np.ones(shape + (2,)))
                shared.gradient_sample(o2 if dense else o2.to_sptensor())
            elif how == "stratified-over-sample-rate-1":
                samplers.stratified(S, idx, 2, 2, 1.0)
            elif how == "nonzeros-too-many-without-replacement":
                samplers.nonzeros(S, nnz + 2, with_replacement=False)
            elif how == "zeros-too-many-without-replacement":
                samplers.zeros(S, idx, nzeros + 1, with_replacement=False)
            elif how == "uniform-negative-count":
                samplers.uniform(data, -2)
            rejected = False
        except Exception:  # noqa: BLE001
            rejected = True
        nrej += rejected
        ctx.label(("rejected-" if rejected else "accepted-") + how)
        ctx.check(_same_state(before, _tensor_state(data)), "data-tensor-unchanged-by-rejected-request", how)
    ctx.nt = nrej >= 1
    ctx.check(np.array_equal(np.asarray(ref.den(data), dtype=float), A), "sampler-leaves-data")


PREDICATES = {
    "zeros_requested_and_exist": lambda case: case.get("num_zeros", 0) > 0 and case.get("nzeros", 0) > 0,
    "gcp_sparse_with_zeros": lambda case: case.get("holder") == "sparse" and case.get("nzeros", 0) > 0,
    "no_zeros_in_tensor": lambda case: case.get("nzeros") == 0,
    "semistrat_no_nonzero_samples": lambda case: case.get("num_nonzeros") == 0,
    "at_least_one_epoch": lambda case: case["solver"]["max_iters"] >= 1,
    "sampler_gcp_uniform_func": lambda case: case.get("sampler") == "gcp-uniform-func",
    "sampler_gcp_uniform_grad": lambda case: case.get("sampler") == "gcp-uniform-grad",
    "aggressive_step": lambda case: case["solver"]["kind"] == "adagrad" or case["solver"]["rate"] >= 0.3,
    "edited_sparse": lambda case: case.get("holder") == "sparse" and "edit" in case and (
        case.get("fs") != "UNIFORM" or case.get("gs") != "SEMISTRATIFIED" or case.get("direct") == "stratified"),
    # (the shortfall of the zero rejection sampler has a noticeable probability only for requests of up to ~2000 zeros)
    "large_few_zeros_requested": lambda case: (case.get("kind") in ("stratified", "gcp-counts") and 0 < case.get("num_zeros", 0) <= 2000)
    or (case.get("kind") == "gcp-uniform" and 0 < case.get("num_nonzeros", 0) <= 4000),
    # the number of entries does not fit a signed 64-bit integer
    "huge_cells_ge_2_63": lambda case: "shape" in case and _cells(case) >= 2**63,
    # requested zeros x number of entries does not fit a signed 64-bit integer (the number of entries itself does)
    "huge_zero_request_overflows": lambda case: "shape" in case and _cells(case) < 2**63 and (
        (min(case.get("nnz", 1), _cells(case)) if case.get("kind") == "gcp-default" else case.get("num_zeros", 0)) * _cells(case) >= 2**63),
    # round 4
    "numpy_int_count_given": lambda case: "cnt_dtype" in case and (isinstance(case.get("fn"), int) or isinstance(case.get("gn"), int)),
    "uint64_subs": lambda case: case.get("subs_dtype") == "uint64" and case.get("holder") == "sparse",
    "lbfgsb_solve_raised_before": lambda case: case["solver"]["kind"] == "lbfgsb" and any(
        h in LEAVES_MONITOR for r in case.get("rejected", []) for h in r),
    # zero samples requested as a NumPy scalar: int32 cannot hold the number of cells; int64 x cells wraps beyond 2**63
    "huge_zero_count_as_numpy_scalar": lambda case: "shape" in case and case.get("kind") in ("stratified", "gcp-counts")
    and case.get("num_zeros", 0) > 0 and (case.get("cnt_dtype") == "int32" or (
        case.get("cnt_dtype") == "int64" and case.get("num_zeros", 0) * _cells(case) >= 2**63)),
    "sizes_differ": lambda case: len({(tuple(p["shape"]), p["rank"]) for p in case["problems"]}) > 1,
}
