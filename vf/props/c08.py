"""C08 — Kruskal re-parameterisations preserve the tensor and reach their normal form."""

from __future__ import annotations

import numpy as np
from hypothesis import strategies as st

import pyttb as ttb

from .. import gen, ref
from ..core import Abort, cell
from . import _c08_helpers as H

PROPERTY = "C08"
RULE = (
    "cases = Kruskal tensor (order 1..4, rank 1..4, integer-valued or general float entries, weights of either sign "
    "or zero drawn as a class, optional zero column) x operation arguments (weight_factor None/k/'all', sort, "
    "normtype 1/2/inf, mode; component permutation as list/tuple/ndarray; index subset in any order; reference tensor "
    "built by flipping chosen modes of chosen components, rescaled, lower rank or independent); oracle = einsum of "
    "weights and factors before vs after (rigorous rounding bound, exact where only data moves), the promised normal "
    "form recomputed with numpy, exact round trips.  Non-trivial: a negative or zero weight, rank >= 2 and order >= 3.  "
    "Round 2: the operand of every cell reaches its state through a drawn provenance (_c08_helpers.operand): "
    "constructor, A + B, extract from a larger tensor, mode permutation, ttv of a tensor with one more mode (these give "
    "exactly the case's attributes), or normalize() (exactly unit columns) optionally negated / times -2 (negative "
    "weights on unit columns), normalize(weight_factor=..) (unit weights, C-ordered factors), weights or one factor "
    "scaled by 1e+6 / 1e-6 (effective case read back from the object); weights include exact ties (equal magnitudes, "
    "duplicated columns); integer arguments are numpy.int64 one time in four where pyttb accepts them; component / "
    "mode index collections are lists, tuples, ndarrays (int64 / int32) and lists of numpy integers; normalize, "
    "arrange, redistribute and extract are called a second time on the same object.  Round 3: provenances 'balanced' "
    "(extreme dynamic range: one factor column of one or all components times 2**-e, made up for by the weight or by "
    "another factor's column, e in +-{30, 40, 60, 100, 400, 480}: the same array bit for bit, column norms 1e-9 .. "
    "1e-145 under weights up to 1e+145 and the reverse), 'near' (near-special values: exactly unit columns with "
    "relative noise 1e-14 .. 1e-5, weights kept / one up to that noise / times 1e-10) and 'scaled' by 1e-10 / 1e-13 / "
    "1e+10 in every cell; cell extreme-range goes beyond the range where squares of entries are representable "
    "(2**+-520 .. 2**+-900) with norms recomputed by scaling; cell history/forked keeps the operand of every operation "
    "that returns a new Kruskal tensor (+, -, unary -/+, scalar *, mode permutation, extract, copy, tolist -> "
    "ktensor, tovec -> from_vector) alive next to the result (up to four live objects), applies later in-place "
    "re-parameterisations to any of them and judges every live object against its own expected array after every "
    "step (objects that were not the target must be bit-identical); single-operation cells re-parameterise every "
    "result in place and compare the operands bit for bit, and edit returned lists / vectors in place.  Round 4: "
    "requests the unchanged tree rejects (_c08_helpers.REJECTED: 71 (call, variant) pairs - redistribute / "
    "normalize(mode) with a mode equal to ndims, beyond, 'all', None, a float, a list; an unknown norm type; permutations "
    "that are too short / too long / out of range / given with a weight_factor; a reference for fixsigns that is no "
    "Kruskal tensor or has another shape / more components; update with an invalid or unsorted mode or data that is "
    "too short after a valid part; weight_factor of arrange out of range; ill-formed extract / permute / tolist / score / + / - / "
    "*) are steps of C08/history and C08/history/forked and the subject of C08/rejected: after the exception the "
    "receiver and the other operand must be bit-for-bit what they were, and the following valid steps are judged as if "
    "the rejected request had not happened (C08/rejected: bit-identical to a twin object that never saw it); "
    "C08/presentation makes the same valid request on twin objects in two presentations (python int vs numpy integer "
    "scalars of every width / signedness and 0-d arrays; list vs tuple / int32 / unsigned / read-only / strided index "
    "arrays and lists of numpy scalars; keyword vs positional optional arguments; factor matrices, weights and "
    "parameter vectors as C-ordered, read-only, transposed, strided or reversed views, tuple vs list of factors, "
    "copy=False) and, one time in three, with the root logger at DEBUG and every warning shown: same parameterisation "
    "bit for bit, same array, weights all one where absorbed."
)
ASSUMPTIONS = [
    "denoted array = einsum('r,ar,br,...', weights, factors) on the public attributes (ref.den_kruskal)",
    "den comparisons: |got-ref| <= 64*n*eps*einsum(|.|) with n = rank*(order+4) covering the divisions, multiplications "
    "and N-th roots a re-parameterisation performs; exact equality where columns are only moved or negated",
    "unit norm: |norm-1| <= 64*eps*(rows+2); sorted: w[i] >= w[i+1] exactly",
    "fixsigns(other): references have the same shape and at most as many components as self (the loop runs over the "
    "reference's components)",
    "score: inputs without zero columns when a score of exactly one is expected; slack 1e-9",
    "integer dtypes do not apply: the ktensor constructor and from_vector reject non-float64 weights / factor "
    "matrices (documented dtype=float); numpy integer *scalars* are rejected by extract(idx), tolist(mode) and "
    "K * scalar (documented as int / scalar) and are therefore only passed to normalize(weight_factor, mode), "
    "arrange(weight_factor), redistribute(mode) and update(modes), which accept them",
    "a second identical call must leave the denoted array and the normal form intact; only redistribute (weights "
    "already one) and arrange(permutation) (composition of the permutation) are required to be exact",
    "fixsigns(other) and score use attribute-preserving provenances only (their references are derived from the "
    "case's factor matrices)",
    "several live objects: on the unchanged tree no operation that returns a new Kruskal tensor, a list of factor "
    "matrices or a parameter vector shares memory with its operand (checked for + - unary scalar* permute extract "
    "copy tolist tovec from_vector ttv), so an in-place operation on one object must leave every other bit-identical",
    "extreme range: powers of two only, so that the badly balanced tensor denotes exactly the array of the well-scaled "
    "case and the rounding bounds are unchanged; |e| <= 480 keeps sqrt(sum(x**2)) computable for |x| in [1e-3, 1e3] "
    "and <= 6 rows; beyond that (cell extreme-range) the expected norms are computed after scaling by the largest "
    "entry, and pyttb's 2-norm path is a known finding (C08-K3)",
    "rejected requests: only requests that raise on the unchanged tree are generated (probed; e.g. "
    "normalize(weight_factor=<out of range>), arrange(permutation=<duplicates>), redistribute(-1 / True) are accepted "
    "and therefore absent); any exception type counts as a rejection; should a tree accept such a request, only "
    "well-formedness and the same array are demanded of what it did; requests the unchanged tree rejects only after "
    "normalising the receiver (arrange(weight_factor=<bad>), normalize(weight_factor=1.0), fixsigns(<mismatched "
    "ktensor>)) must keep the array, and their bit-identity clause is the open known finding C08-K4",
    "presentations: only forms the unchanged tree accepts (probed): numpy integer scalars for normalize(weight_factor, "
    "mode), arrange(weight_factor), redistribute(mode), update(modes), scalar * K; not for tolist(mode), extract(int), "
    "K * scalar (documented python int / scalar, asserted); contains_weights is asserted to be a bool; float32 "
    "factors are rejected by the constructor (dtype=float documented)",
]

EPS = ref.EPS


def _den_ok(ctx, K, case, clause, extra_terms=0):
    A = H.den_case(case)
    B = H.bound_case(case)
    got = ref.den(K)
    n = case["rank"] * (len(case["shape"]) + 4) + extra_terms
    return ctx.check(ref.same_bound(got, A, B, n), clause, ref.diff_info(got, A))


def _unit_cols(F, ord_, zero_ok=True):
    """every column has norm 1 (or is entirely zero)"""
    nrm = H.colnorms(F, ord_)
    tol = 64 * EPS * (F.shape[0] + 2)
    ok = np.abs(nrm - 1) <= tol
    if zero_ok:
        ok |= np.array([(F[:, r] == 0).all() for r in range(F.shape[1])])
    return bool(ok.all()), nrm


def _structure(ctx, K, case, clause="result-is-wellformed-ktensor", rank=None):
    ctx.require(isinstance(K, ttb.ktensor), clause, type(K).__name__)
    probs = H.kt_ok(K, case["shape"], case["rank"] if rank is None else rank)
    ctx.require(not probs, clause, probs)


# --------------------------------------------------------------------------
# normalize
# --------------------------------------------------------------------------


@st.composite
def _normalize_case(draw, tier):
    c = draw(H.kt(tier))
    N = len(c["shape"])
    c["normtype"] = draw(st.sampled_from(["1", "2", "inf"]))
    c["sort"] = draw(st.booleans())
    wf = draw(st.sampled_from(["none", "none", "k", "k", "all"]))
    c["weight_factor"] = None if wf == "none" else ("all" if wf == "all" else draw(st.integers(0, N - 1)))
    c["mode"] = draw(st.integers(0, N - 1)) if draw(st.integers(0, 4)) == 0 else None
    c["npint"] = draw(st.integers(0, 3)) == 0  # integer arguments as numpy.int64
    return c


@cell("C08/normalize", strategy=_normalize_case, quick=1400, thorough=12000, shards=(2, 12))
def normalize(ctx, case):
    K, case = H.operand(ctx, case)
    F0, w0 = H.fms_of(case), H.w_of(case)
    N, R = len(case["shape"]), case["rank"]
    ord_ = H.NORMS[case["normtype"]]
    wf, sort, mode = case["weight_factor"], case["sort"], case["mode"]
    ctx.nt = H.kt_nt(case)
    ctx.label(*H.kt_labels(case), "norm-" + case["normtype"],
              "wf-" + ("none" if wf is None else ("all" if wf == "all" else "k")),
              "sort" if sort else "nosort", "mode-given" if mode is not None else "mode-none")
    npi = bool(case.get("npint"))
    if npi and (isinstance(wf, int) or mode is not None):
        ctx.label("numpy-int-argument")
    with ctx.sut("ktensor.normalize"):
        Rt = K.normalize(weight_factor=H.np_int(wf, npi), sort=sort, normtype=ord_, mode=H.np_int(mode, npi))
    ctx.check(Rt is K, "normalize-returns-self")
    _structure(ctx, K, case)
    _den_ok(ctx, K, case, "normalize-den-unchanged")
    _normalize_form(ctx, K, case, F0, w0, "")
    # the same call again on the same object: still the same array, still the normal form
    with ctx.sut("ktensor.normalize-again"):
        K.normalize(weight_factor=wf, sort=sort, normtype=ord_, mode=mode)
    _structure(ctx, K, case)
    _den_ok(ctx, K, case, "normalize-again-den-unchanged", extra_terms=case["rank"] * (len(case["shape"]) + 4))
    _normalize_form(ctx, K, case, F0, w0, "again-")


def _normalize_form(ctx, K, case, F0, w0, tag):
    N, R = len(case["shape"]), case["rank"]
    ord_ = H.NORMS[case["normtype"]]
    wf, sort, mode = case["weight_factor"], case["sort"], case["mode"]
    if mode is not None:
        ok, nrm = _unit_cols(K.factor_matrices[mode], ord_)
        ctx.check(ok, f"normalize-{tag}mode-unit-columns", nrm)
        same = all(np.array_equal(K.factor_matrices[k], F0[k]) for k in range(N) if k != mode)
        ctx.check(same, f"normalize-{tag}mode-leaves-other-factors")
        return
    ctx.check(bool((K.weights >= 0).all()), f"normalize-{tag}weights-nonnegative", K.weights)
    if wf is None:
        for k in range(N):
            ok, nrm = _unit_cols(K.factor_matrices[k], ord_)
            ctx.check(ok, f"normalize-{tag}unit-columns", (k, nrm))
        # a zero column anywhere kills the component: its weight must be zero
        for r in range(R):
            if any((K.factor_matrices[k][:, r] == 0).all() for k in range(N)):
                ctx.check(K.weights[r] == 0, f"normalize-{tag}zero-column-zero-weight", (r, K.weights))
        if sort:
            ctx.check(bool((np.diff(K.weights) <= 0).all()), f"normalize-{tag}sorted-nonincreasing", K.weights)
        # the weights are the product of the column norms times |w| (as a multiset when sorted)
        expect = np.abs(w0)
        for k in range(N):
            expect = expect * H.colnorms(F0[k], ord_)
        got = np.sort(K.weights) if sort else K.weights
        exp = np.sort(expect) if sort else expect
        ctx.check(np.allclose(got, exp, rtol=64 * EPS * (max(case["shape"]) + N + 2), atol=0),
                  f"normalize-{tag}weights-are-norm-products", (got, exp))
    else:
        ctx.check(bool((K.weights == 1).all()), f"normalize-{tag}absorbed-weights-all-one", K.weights)
        if wf != "all":
            for k in range(N):
                if k != wf:
                    ok, nrm = _unit_cols(K.factor_matrices[k], ord_)
                    ctx.check(ok, f"normalize-{tag}unit-columns", (k, nrm))
        else:
            # equal share: every factor's column r has the same norm
            nr = np.array([H.colnorms(K.factor_matrices[k], ord_) for k in range(N)])
            zero = np.array([[(K.factor_matrices[k][:, r] == 0).all() for r in range(R)] for k in range(N)])
            spread = np.where(zero.any(axis=0), 0.0, nr.max(axis=0) - nr.min(axis=0))
            ctx.check(bool((spread <= 1e-12 * np.maximum(nr.max(axis=0), 1e-300)).all()),
                      f"normalize-{tag}all-equal-share", nr)


# --------------------------------------------------------------------------
# arrange
# --------------------------------------------------------------------------


@st.composite
def _arrange_case(draw, tier):
    c = draw(H.kt(tier))
    N, R = len(c["shape"]), c["rank"]
    v = draw(st.sampled_from(["plain", "weight_factor", "permutation", "permutation"]))
    c["variant"] = v
    if v == "weight_factor":
        c["weight_factor"] = draw(st.integers(0, N - 1))
    if v == "permutation":
        c["perm"] = list(draw(st.permutations(range(R))))
        # tuples hit known finding C08-K2 every time: kept at a reduced rate only to keep counting them
        c["perm_form"] = draw(st.sampled_from(["list", "list", "ndarray", "ndarray", "tuple", "tuple", "npint-list",
                                               "int32"]))
    c["npint"] = draw(st.integers(0, 3)) == 0
    return c


def _perm_arg(p, form):
    """component / mode indices in one of the accepted spellings (Tuple, List, ndarray; entries python or numpy ints)"""
    if form == "list":
        return list(p)
    if form == "tuple":
        return tuple(p)
    if form == "npint-list":
        return [np.int64(i) for i in p]
    if form == "int32":
        return np.array(p, dtype=np.int32)
    return np.array(p, dtype=int)


@cell("C08/arrange", strategy=_arrange_case, quick=1200, thorough=14000, shards=(2, 12))
def arrange(ctx, case):
    K, case = H.operand(ctx, case)
    F0, w0 = H.fms_of(case), H.w_of(case)
    N, R = len(case["shape"]), case["rank"]
    v = case["variant"]
    ctx.nt = H.kt_nt(case)
    ctx.label(*H.kt_labels(case), "arrange-" + v)
    if v == "permutation":
        p = case["perm"]
        ctx.label("perm-" + case["perm_form"], "perm-identity" if p == sorted(p) else "perm-moves")
        with ctx.sut("ktensor.arrange-permutation"):
            K.arrange(permutation=_perm_arg(p, case["perm_form"]))
        _structure(ctx, K, case)
        ok = np.array_equal(K.weights, w0[p]) and all(np.array_equal(K.factor_matrices[k], F0[k][:, p]) for k in range(N))
        ctx.check(ok, "arrange-permutation-moves-columns-exactly", (K.weights, w0[p]))
        _den_ok(ctx, K, case, "arrange-den-unchanged")
        # the same permutation applied again to the same object composes
        with ctx.sut("ktensor.arrange-permutation-again"):
            K.arrange(permutation=np.array(p))
        _structure(ctx, K, case)
        pp = [p[i] for i in p]
        ok = np.array_equal(K.weights, w0[pp]) and all(np.array_equal(K.factor_matrices[k], F0[k][:, pp]) for k in range(N))
        ctx.check(ok, "arrange-permutation-again-moves-columns-exactly", (K.weights, w0[pp]))
        return
    npi = bool(case.get("npint"))
    if npi and v == "weight_factor":
        ctx.label("numpy-int-argument")
    with ctx.sut("ktensor.arrange"):
        if v == "plain":
            K.arrange()
        else:
            K.arrange(weight_factor=H.np_int(case["weight_factor"], npi))
    _arrange_form(ctx, K, case, F0, w0, "")
    # the same call again on the same object
    with ctx.sut("ktensor.arrange-again"):
        if v == "plain":
            K.arrange()
        else:
            K.arrange(weight_factor=case["weight_factor"])
    _arrange_form(ctx, K, case, F0, w0, "again-")


def _arrange_form(ctx, K, case, F0, w0, tag):
    N, R = len(case["shape"]), case["rank"]
    v = case["variant"]
    _structure(ctx, K, case)
    _den_ok(ctx, K, case, f"arrange-{tag}den-unchanged", extra_terms=(R * (N + 4) if tag else 0))
    expect = np.abs(w0)
    for k in range(N):
        expect = expect * H.colnorms(F0[k], 2)
    rtol = 64 * EPS * (max(case["shape"]) + N + 2)
    if v == "plain":
        for k in range(N):
            ok, nrm = _unit_cols(K.factor_matrices[k], 2)
            ctx.check(ok, f"arrange-{tag}unit-columns", (k, nrm))
        ctx.check(bool((K.weights >= 0).all()), f"arrange-{tag}weights-nonnegative", K.weights)
        ctx.check(bool((np.diff(K.weights) <= 0).all()), f"arrange-{tag}sorted-nonincreasing", K.weights)
        ctx.check(np.allclose(K.weights, np.sort(expect)[::-1], rtol=rtol, atol=0),
                  f"arrange-{tag}weights-are-sorted-norm-products", (K.weights, expect))
    else:
        k0 = case["weight_factor"]
        ctx.check(bool((K.weights == 1).all()), f"arrange-{tag}absorbed-weights-all-one", K.weights)
        for k in range(N):
            if k != k0:
                ok, nrm = _unit_cols(K.factor_matrices[k], 2)
                ctx.check(ok, f"arrange-{tag}unit-columns", (k, nrm))
        # the absorbing factor carries the sorted magnitudes (when no other factor has a zero column there)
        mags = H.colnorms(K.factor_matrices[k0], 2)
        ctx.check(np.allclose(mags, np.sort(expect)[::-1], rtol=rtol, atol=0),
                  f"arrange-{tag}absorbed-magnitudes-sorted", (mags, expect))


# --------------------------------------------------------------------------
# fixsigns (stand-alone)
# --------------------------------------------------------------------------


def _strictly_negative_led(col):
    """every entry of largest magnitude is negative (no tie that a different arg-max could resolve as positive)"""
    a = np.abs(col)
    m = a.max() if a.size else 0.0
    if m == 0:
        return False
    return bool((col[a == m] < 0).all())


@st.composite
def _fixsigns_alone_case(draw, tier):
    c = draw(H.kt(tier))
    # choose how many modes of each component lead with a negative entry: make the leading entry dominant
    N, R = len(c["shape"]), c["rank"]
    if draw(st.booleans()):
        for r in range(R):
            for k in range(N):
                if draw(st.booleans()):
                    i = draw(st.integers(0, c["shape"][k] - 1))
                    c["factors"][k][i][r] = -7.0 if c["vkind"] == "int" else -1500.0
    return c


@cell("C08/fixsigns/alone", strategy=_fixsigns_alone_case, quick=1200, thorough=14000, shards=(2, 12))
def fixsigns_alone(ctx, case):
    K, case = H.operand(ctx, case)
    F0, w0 = H.fms_of(case), H.w_of(case)
    N, R = len(case["shape"]), case["rank"]
    negs = [sum(_strictly_negative_led(F0[k][:, r]) for k in range(N)) for r in range(R)]
    ctx.nt = H.kt_nt(case) and max(negs) >= 2
    ctx.label(*H.kt_labels(case), *[f"neg-led-{min(n, 3)}" for n in set(negs)])
    with ctx.sut("ktensor.fixsigns"):
        Rt = K.fixsigns()
    ctx.check(Rt is K, "fixsigns-returns-self")
    _structure(ctx, K, case)
    ctx.check(np.array_equal(K.weights, w0), "fixsigns-weights-untouched", K.weights)
    ctx.check(all(np.array_equal(np.abs(K.factor_matrices[k]), np.abs(F0[k])) for k in range(N)),
              "fixsigns-only-signs-change")
    # columns are negated as a whole
    whole = True
    flips = np.zeros((N, R), dtype=int)
    for k in range(N):
        for r in range(R):
            a, b = K.factor_matrices[k][:, r], F0[k][:, r]
            if np.array_equal(a, b):
                continue
            if np.array_equal(a, -b):
                flips[k, r] = 1
            else:
                whole = False
    ctx.check(whole, "fixsigns-negates-whole-columns")
    ctx.check(bool((flips.sum(axis=0) % 2 == 0).all()), "fixsigns-even-number-of-flips-per-component", flips.tolist())
    # (columns are negated exactly; the two einsum evaluations may still round differently, hence the bound)
    _den_ok(ctx, K, case, "fixsigns-den-unchanged")
    after = [sum(_strictly_negative_led(K.factor_matrices[k][:, r]) for k in range(N)) for r in range(R)]
    ctx.check(max(after) <= 1, "fixsigns-at-most-one-negative-leader-per-component", after)
    snap = [f.copy() for f in K.factor_matrices]
    with ctx.sut("ktensor.fixsigns-again"):
        K.fixsigns()
    ctx.check(all(np.array_equal(a, b) for a, b in zip(snap, K.factor_matrices)), "fixsigns-idempotent")


# --------------------------------------------------------------------------
# fixsigns against a reference
# --------------------------------------------------------------------------


@st.composite
def _fixsigns_ref_case(draw, tier):
    c = draw(H.kt(tier, prov="preserving"))
    N, R = len(c["shape"]), c["rank"]
    kind = draw(st.sampled_from(["flip", "flip", "flip-rescale", "lower-rank-flip", "independent"]))
    c["ref_kind"] = kind
    if kind == "independent":
        o = draw(H.kt(tier, shape=c["shape"], max_rank=R, kinds=(c["vkind"],)))
        c["other"] = dict(rank=o["rank"], weights=o["weights"], factors=o["factors"])
        return c
    RB = R if kind != "lower-rank-flip" else draw(st.integers(1, R))
    F = [[row[:RB] for row in f] for f in c["factors"]]
    F = [[list(row) for row in f] for f in F]
    w = list(c["weights"][:RB])
    nflip = []
    for r in range(RB):
        modes = draw(st.lists(st.booleans(), min_size=N, max_size=N))
        nflip.append(sum(modes))
        for k in range(N):
            s = -1.0 if modes[k] else 1.0
            if kind == "flip-rescale":
                s *= draw(st.sampled_from([1.0, 2.0, 0.5, 3.0]))
            for row in F[k]:
                row[r] = row[r] * s
        if kind == "flip-rescale" and draw(st.booleans()):
            w[r] = -w[r]
    c["other"] = dict(rank=RB, weights=w, factors=F)
    c["nflip"] = nflip
    return c


def _other(case):
    o = case["other"]
    oc = dict(shape=case["shape"], rank=o["rank"], weights=o["weights"], factors=o["factors"])
    return oc


def _odd_negative_correlations(case):
    oc = _other(case)
    S, Z = H.sign_scores(H.fms_of(case), H.w_of(case), H.fms_of(oc), H.w_of(oc))
    return H.odd_or_ambiguous(S, Z)


@cell("C08/fixsigns/reference", strategy=_fixsigns_ref_case, quick=1600, thorough=12000, shards=(2, 12))
def fixsigns_reference(ctx, case):
    K, case = H.operand(ctx, case)
    oc = _other(case)
    O = gen.build_ktensor(oc)
    N, R, RB = len(case["shape"]), case["rank"], oc["rank"]
    S, Z = H.sign_scores(H.fms_of(case), H.w_of(case), H.fms_of(oc), H.w_of(oc))
    negcount = [int(np.sum(S[:, r] < -H.AMBIG)) for r in range(RB)]
    ambiguous = H.odd_or_ambiguous(S, Z) and not any(n % 2 for n in negcount)
    odd = any(n % 2 for n in negcount)
    ctx.nt = H.kt_nt(case) and max(negcount) >= 1
    ctx.label(*H.kt_labels(case), "ref-" + case["ref_kind"], "odd-negative-count" if odd else "even-negative-counts",
              f"max-neg-{max(negcount)}", "RB<RA" if RB < R else "RB=RA")
    if ambiguous:
        ctx.label("rounding-ambiguous-score")
    denO = H.den_case(oc)
    with ctx.sut("ktensor.fixsigns-other"):
        Rt = K.fixsigns(O)
    ctx.check(Rt is K, "fixsigns-ref-returns-self")
    _structure(ctx, K, case)
    _den_ok(ctx, K, case, "fixsigns-ref-den-unchanged")
    # the reference still denotes the same array (it may be normalised, that is a re-parameterisation too)
    gotO = ref.den(O)
    ctx.check(ref.same_bound(gotO, denO, H.bound_case(oc), RB * (N + 4)), "fixsigns-ref-reference-den-unchanged",
              ref.diff_info(gotO, denO))
    # self is left normalised (documented)
    for k in range(N):
        ok, nrm = _unit_cols(K.factor_matrices[k], 2)
        ctx.check(ok, "fixsigns-ref-unit-columns", (k, nrm))
    # where an even number of modes disagreed in sign, every disagreement is repaired
    if not H.odd_or_ambiguous(S, Z):
        # K is normalised now (weights >= 0, nothing more to flip on its side); the reference's own mode-0 flip for
        # a negative weight is applied inside sign_scores
        S2, _ = H.sign_scores([np.array(f) for f in K.factor_matrices], np.abs(np.asarray(K.weights)),
                              H.fms_of(oc), H.w_of(oc))
        ctx.check(bool((S2 >= -1e-9).all()), "fixsigns-ref-even-disagreements-all-repaired", S2.tolist())


# --------------------------------------------------------------------------
# redistribute
# --------------------------------------------------------------------------


@st.composite
def _redistribute_case(draw, tier):
    c = draw(H.kt(tier))
    c["mode"] = draw(st.integers(0, len(c["shape"]) - 1))
    c["npint"] = draw(st.integers(0, 3)) == 0
    return c


@cell("C08/redistribute", strategy=_redistribute_case, quick=800, thorough=8000, shards=(1, 8))
def redistribute(ctx, case):
    K, case = H.operand(ctx, case)
    F0, w0 = H.fms_of(case), H.w_of(case)
    N, m = len(case["shape"]), case["mode"]
    ctx.nt = H.kt_nt(case)
    ctx.label(*H.kt_labels(case), "mode-first" if m == 0 else ("mode-last" if m == N - 1 else "mode-middle"))
    if case.get("npint"):
        ctx.label("numpy-int-argument")
    with ctx.sut("ktensor.redistribute"):
        Rt = K.redistribute(H.np_int(m, bool(case.get("npint"))))
    ctx.check(Rt is K, "redistribute-returns-self")
    _structure(ctx, K, case)
    ctx.check(bool((K.weights == 1).all()), "redistribute-weights-exactly-one", K.weights)
    ctx.check(all(np.array_equal(K.factor_matrices[k], F0[k]) for k in range(N) if k != m),
              "redistribute-other-factors-bit-identical")
    ctx.check(np.array_equal(K.factor_matrices[m], F0[m] * w0[None, :]), "redistribute-mode-factor-is-column-times-weight")
    _den_ok(ctx, K, case, "redistribute-den-unchanged")
    # again on the same object, same mode: the weights are one already, nothing may change; then into another mode:
    # still the same array (the weights stay in the first mode)
    snap = [f.copy() for f in K.factor_matrices]
    with ctx.sut("ktensor.redistribute-again"):
        K.redistribute(m)
    ctx.check(bool((K.weights == 1).all()) and all(np.array_equal(a, b) for a, b in zip(K.factor_matrices, snap)),
              "redistribute-again-changes-nothing")
    with ctx.sut("ktensor.redistribute-again"):
        K.redistribute((m + 1) % N)
    ctx.check(bool((K.weights == 1).all()) and all(np.array_equal(a, b) for a, b in zip(K.factor_matrices, snap)),
              "redistribute-other-mode-afterwards-changes-nothing")


# --------------------------------------------------------------------------
# extract
# --------------------------------------------------------------------------


@st.composite
def _extract_case(draw, tier):
    c = draw(H.kt(tier))
    R = c["rank"]
    form = draw(st.sampled_from(["list", "tuple", "ndarray", "int", "none", "npint-list", "int32"]))
    c["idx_form"] = form
    if form == "int":
        c["idx"] = [draw(st.integers(0, R - 1))]
    elif form == "none":
        c["idx"] = list(range(R))
    else:
        c["idx"] = draw(gen.mode_subset(R, 1, R))
    return c


@cell("C08/extract", strategy=_extract_case, quick=800, thorough=8000, shards=(1, 8))
def extract(ctx, case):
    K, case = H.operand(ctx, case)
    F0, w0 = H.fms_of(case), H.w_of(case)
    N, idx, form = len(case["shape"]), case["idx"], case["idx_form"]
    ctx.nt = H.kt_nt(case) and 1 <= len(idx) < case["rank"] or (H.kt_nt(case) and idx != sorted(idx))
    ctx.label(*H.kt_labels(case), "idx-" + form, "idx-sorted" if idx == sorted(idx) else "idx-unsorted",
              "proper-subset" if len(idx) < case["rank"] else "all-components")
    arg = None if form == "none" else (idx[0] if form == "int" else _perm_arg(idx, form))
    with ctx.sut("ktensor.extract"):
        E = K.extract(arg)
    _structure(ctx, E, case, rank=len(idx))
    ctx.check(E is not K, "extract-returns-new-object")
    ok = np.array_equal(E.weights, w0[idx]) and all(np.array_equal(E.factor_matrices[k], F0[k][:, idx]) for k in range(N))
    ctx.check(ok, "extract-selects-components-exactly", (E.weights, w0[idx]))
    expect = ref.den_kruskal(w0[idx], [f[:, idx] for f in F0])
    bound = ref.abs_kruskal(w0[idx], [f[:, idx] for f in F0])
    got = ref.den(E)
    ctx.check(ref.same_bound(got, expect, bound, len(idx)), "extract-den-is-sum-of-components", ref.diff_info(got, expect))
    # the source still denotes the same array
    ctx.check(np.array_equal(K.weights, w0) and all(np.array_equal(a, b) for a, b in zip(K.factor_matrices, F0)),
              "extract-leaves-source")
    # the result is independent of the source: editing it in place (a re-parameterisation) leaves the source alone,
    # and extracting again gives the first answer again
    with ctx.sut("ktensor.extract-then-normalize-result"):
        E.normalize(weight_factor=0)
    ctx.check(np.array_equal(K.weights, w0) and all(np.array_equal(a, b) for a, b in zip(K.factor_matrices, F0)),
              "extract-result-does-not-alias-source")
    with ctx.sut("ktensor.extract-again"):
        E2 = K.extract(arg)
    _structure(ctx, E2, case, rank=len(idx))
    ok = np.array_equal(E2.weights, w0[idx]) and all(np.array_equal(E2.factor_matrices[k], F0[k][:, idx]) for k in range(N))
    ctx.check(ok, "extract-again-selects-components-exactly")


# --------------------------------------------------------------------------
# tovec / from_vector
# --------------------------------------------------------------------------


@st.composite
def _vector_case(draw, tier):
    c = draw(H.kt(tier, weights=draw(st.sampled_from(["any", "any", "unit"]))))
    c["include_weights"] = draw(st.booleans())
    return c


@cell("C08/vector-roundtrip", strategy=_vector_case, quick=800, thorough=8000, shards=(1, 8))
def vector_roundtrip(ctx, case):
    K, case = H.operand(ctx, case)
    F0, w0 = H.fms_of(case), H.w_of(case)
    N, R, flag = len(case["shape"]), case["rank"], case["include_weights"]
    unit = bool((w0 == 1).all())
    ctx.nt = H.kt_nt(case) or (not flag and R >= 2 and N >= 3)
    ctx.label(*H.kt_labels(case), "with-weights" if flag else "without-weights", "unit-weights" if unit else "general-weights")
    with ctx.sut("ktensor.tovec"):
        v = K.tovec(include_weights=flag)
    ctx.require(isinstance(v, np.ndarray) and v.ndim == 1, "tovec-returns-1d-array", getattr(v, "shape", None))
    expect = np.concatenate(([w0] if flag else []) + [f.flatten(order="F") for f in F0])
    ctx.require(v.shape == expect.shape, "tovec-length", (v.shape, expect.shape))
    ctx.check(np.array_equal(v, expect), "tovec-layout-weights-then-columns", ref.diff_info(v, expect))
    with ctx.sut("ktensor.from_vector"):
        K2 = ttb.ktensor.from_vector(v.copy(), tuple(case["shape"]), flag)
    _structure(ctx, K2, case)
    ctx.check(all(np.array_equal(a, b) for a, b in zip(K2.factor_matrices, F0)), "from_vector-reproduces-factors-exactly")
    ctx.check(np.array_equal(K2.weights, w0 if flag else np.ones(R)), "from_vector-weights", K2.weights)
    if flag or unit:
        with ctx.sut("ktensor.isequal"):
            eq = K2.isequal(K)
        ctx.check(eq, "vector-roundtrip-isequal")
    with ctx.sut("ktensor.tovec-again"):
        v2 = K2.tovec(include_weights=flag)
    ctx.check(np.array_equal(v2, v), "vector-roundtrip-vector-stable")
    # (round 3) the vectors stay the caller's: editing the one that was returned / the one that was handed over
    # changes neither tensor
    v3 = v.copy()
    with ctx.sut("ktensor.from_vector-again"):
        K3 = ttb.ktensor.from_vector(v3, tuple(case["shape"]), flag)
    v3 *= 0.0
    v2 += 1.0
    v += 1.0
    ctx.check(all(np.array_equal(a, b) for a, b in zip(K3.factor_matrices, F0)) and np.array_equal(K3.weights, w0 if flag else np.ones(R)),
              "from_vector-result-does-not-alias-vector")
    ctx.check(all(np.array_equal(a, b) for a, b in zip(K2.factor_matrices, F0)) and all(
        np.array_equal(a, b) for a, b in zip(K.factor_matrices, F0)) and np.array_equal(K.weights, w0),
        "tovec-result-does-not-alias-tensor")


# --------------------------------------------------------------------------
# tolist
# --------------------------------------------------------------------------


@st.composite
def _tolist_case(draw, tier):
    c = draw(H.kt(tier, weights=draw(st.sampled_from(["any", "any", "any", "unit"]))))
    c["mode"] = draw(st.integers(0, len(c["shape"]) - 1)) if draw(st.booleans()) else None
    return c


@cell("C08/list-roundtrip", strategy=_tolist_case, quick=800, thorough=8000, shards=(1, 8))
def list_roundtrip(ctx, case):
    K, case = H.operand(ctx, case)
    F0, w0 = H.fms_of(case), H.w_of(case)
    N, R, m = len(case["shape"]), case["rank"], case["mode"]
    unit = bool((w0 == 1).all())
    ctx.nt = H.kt_nt(case)
    ctx.label(*H.kt_labels(case), "mode-none" if m is None else "mode-k", "unit-weights" if unit else "general-weights")
    with ctx.sut("ktensor.tolist"):
        L = K.tolist() if m is None else K.tolist(m)
    ctx.require(isinstance(L, list) and len(L) == N and all(isinstance(f, np.ndarray) and f.dtype == float for f in L),
                "tolist-returns-list-of-float-matrices", type(L).__name__)
    ctx.require(all(f.shape == (n, R) for f, n in zip(L, case["shape"])), "tolist-matrix-shapes", [f.shape for f in L])
    snapshot = [f.copy() for f in L]
    with ctx.sut("ktensor(list)"):
        K2 = ttb.ktensor([f.copy() for f in L])
    _structure(ctx, K2, case)
    ctx.check(bool((K2.weights == 1).all()), "tolist-rebuild-has-unit-weights")
    _den_ok(ctx, K2, case, "tolist-rebuild-den-unchanged")
    # the source object may have been re-parameterised (mode given) but denotes the same array
    _den_ok(ctx, K, case, "tolist-source-den-unchanged")
    if m is None and unit:
        ctx.check(all(np.array_equal(a, b) for a, b in zip(snapshot, F0)), "tolist-unit-weights-returns-factors-exactly")
    if m is not None:
        for k in range(N):
            if k != m:
                ok, nrm = _unit_cols(L[k], 2)
                ctx.check(ok, "tolist-mode-other-factors-unit-columns", (k, nrm))
    elif not unit:
        # equal share: |w|^(1/N) into every factor -> column norms of L[k] / column norms of F0[k] are the same in all k
        ratio = []
        for k in range(N):
            a, b = H.colnorms(L[k], 2), H.colnorms(F0[k], 2)
            ratio.append(np.where(b > 0, a / np.where(b > 0, b, 1.0), np.nan))
        ratio = np.array(ratio)
        want = np.abs(w0) ** (1.0 / N)
        good = np.isnan(ratio) | (np.abs(ratio - want[None, :]) <= 1e-12 * np.maximum(want[None, :], 1e-300))
        ctx.check(bool(good.all()), "tolist-equal-share-of-weights", (ratio.tolist(), want.tolist()))
    _tolist_list_is_callers(ctx, K, L)


def _tolist_list_is_callers(ctx, K, L):
    """(round 3) the list returned stays the caller's: editing its matrices in place does not reach the tensor"""
    before = _attrs(K)
    for f in L:
        if f.flags.writeable:
            f *= 3.0
    ctx.check(_attrs_equal(K, before), "tolist-list-does-not-alias-tensor")


# --------------------------------------------------------------------------
# update
# --------------------------------------------------------------------------


@st.composite
def _update_case(draw, tier):
    c = draw(H.kt(tier))
    N = len(c["shape"])
    src = draw(st.sampled_from(["own", "other", "other"]))
    c["source"] = src
    if src == "other":
        o = draw(gen.ktensor_case(tier, shape=c["shape"], kinds=(c["vkind"],), max_rank=c["rank"]))
        # same rank: pad / cut
        while o["rank"] < c["rank"]:
            for f in o["factors"]:
                for row in f:
                    row.append(row[0] + 1.0)
            o["weights"].append(o["weights"][0] - 1.0)
            o["rank"] += 1
        c["other"] = dict(rank=o["rank"], weights=o["weights"], factors=o["factors"])
    pool = [-1] + list(range(N))
    sel = sorted(draw(gen.mode_subset(len(pool), 1, len(pool), ordered=False)))
    c["modes"] = [pool[i] for i in sel]
    c["modes_form"] = draw(st.sampled_from(["list", "ndarray", "scalar", "np-scalar", "npint-list"] if len(sel) == 1
                                           else ["list", "ndarray", "tuple", "npint-list", "int32"]))
    return c


@cell("C08/update", strategy=_update_case, quick=800, thorough=8000, shards=(1, 8))
def update(ctx, case):
    K, case = H.operand(ctx, case)
    F0, w0 = H.fms_of(case), H.w_of(case)
    N, R = len(case["shape"]), case["rank"]
    if case["source"] == "own":
        Fs, ws = F0, w0
    else:
        oc = dict(shape=case["shape"], rank=R, weights=case["other"]["weights"], factors=case["other"]["factors"])
        Fs, ws = H.fms_of(oc), H.w_of(oc)
    modes = case["modes"]
    ctx.nt = H.kt_nt(case)
    ctx.label(*H.kt_labels(case), "src-" + case["source"], "modes-" + case["modes_form"],
              "with-weights" if -1 in modes else "factors-only", f"nmodes-{min(len(modes), 3)}")
    data = np.concatenate([ws if k == -1 else Fs[k].flatten(order="F") for k in modes])
    form = case["modes_form"]
    arg = modes[0] if form == "scalar" else (np.int64(modes[0]) if form == "np-scalar" else _perm_arg(modes, form))
    with ctx.sut("ktensor.update"):
        Rt = K.update(arg, data.copy())
    ctx.check(Rt is K, "update-returns-self")
    _structure(ctx, K, case)
    wexp = ws if -1 in modes else w0
    Fexp = [Fs[k] if k in modes else F0[k] for k in range(N)]
    ctx.check(np.array_equal(K.weights, wexp), "update-weights", (K.weights, wexp))
    ctx.check(all(np.array_equal(a, b) for a, b in zip(K.factor_matrices, Fexp)), "update-factors")
    with ctx.sut("ktensor.isequal"):
        eq = K.isequal(ttb.ktensor([f.copy() for f in Fexp], wexp.copy()))
    ctx.check(eq, "update-isequal-expected")


# --------------------------------------------------------------------------
# +, -, unary -, unary +, scalar *
# --------------------------------------------------------------------------


@st.composite
def _algebra_case(draw, tier):
    c = draw(H.kt(tier))
    op = draw(st.sampled_from(["add", "sub", "neg", "pos", "mul", "rmul", "add-self", "sub-self"]))
    c["op"] = op
    if op in ("add", "sub"):
        o = draw(H.kt(tier, shape=c["shape"], kinds=(c["vkind"],)))
        c["other"] = dict(rank=o["rank"], weights=o["weights"], factors=o["factors"])
    if op in ("mul", "rmul"):
        kind = draw(st.sampled_from(["int", "float", "zero", "npfloat"]))
        c["scalar_kind"] = kind
        c["scalar"] = (draw(st.integers(-5, 5)) if kind == "int" else 0 if kind == "zero"
                       else draw(gen.NZ_INT_VALUES if c["vkind"] == "int" else gen.NZ_GEN_VALUES))
    return c


@cell("C08/algebra", strategy=_algebra_case, quick=1400, thorough=14000, shards=(2, 12))
def algebra(ctx, case):
    K, case = H.operand(ctx, case)
    F0, w0 = H.fms_of(case), H.w_of(case)
    N, R, op = len(case["shape"]), case["rank"], case["op"]
    A, B = H.den_case(case), H.bound_case(case)
    ctx.nt = H.kt_nt(case)
    ctx.label(*H.kt_labels(case), "op-" + op)
    if op in ("add", "sub", "add-self", "sub-self"):
        if op.endswith("self"):
            oc, O = case, K
        else:
            oc = dict(shape=case["shape"], rank=case["other"]["rank"], weights=case["other"]["weights"],
                      factors=case["other"]["factors"])
            O = gen.build_ktensor(oc)
        Ao, Bo, Fo, wo = H.den_case(oc), H.bound_case(oc), H.fms_of(oc), H.w_of(oc)
        sgn = 1.0 if op.startswith("add") else -1.0
        with ctx.sut("ktensor." + ("__add__" if sgn > 0 else "__sub__")):
            Z = K + O if sgn > 0 else K - O
        _structure(ctx, Z, case, rank=R + oc["rank"])
        ctx.check(np.array_equal(Z.weights, np.concatenate([w0, sgn * wo])), "sum-weights-concatenated", Z.weights)
        ctx.check(all(np.array_equal(Z.factor_matrices[k], np.concatenate([F0[k], Fo[k]], axis=1)) for k in range(N)),
                  "sum-factors-concatenated")
        expect, got = A + sgn * Ao, ref.den(Z)
        if case["vkind"] == "int":
            ctx.check(ref.same_exact(got, expect), "sum-den-is-sum-of-dens", ref.diff_info(got, expect))
        else:
            ctx.check(ref.same_bound(got, expect, B + Bo, R + oc["rank"] + 2), "sum-den-is-sum-of-dens",
                      ref.diff_info(got, expect))
        _result_independent(ctx, Z, [(K, w0, F0), (O, wo, Fo)])
        return
    if op in ("neg", "pos"):
        with ctx.sut("ktensor.__neg__" if op == "neg" else "ktensor.__pos__"):
            Z = -K if op == "neg" else +K
        _structure(ctx, Z, case)
        ctx.check(Z is not K, "unary-returns-new-object")
        expect = -A if op == "neg" else A
        ctx.check(np.array_equal(Z.weights, -w0 if op == "neg" else w0), "unary-weights", Z.weights)
        ctx.check(ref.same_bound(ref.den(Z), expect, B, R + 2), "unary-den", ref.diff_info(ref.den(Z), expect))
        ctx.check(all(np.array_equal(a, b) for a, b in zip(Z.factor_matrices, F0)), "unary-factors-untouched")
        _result_independent(ctx, Z, [(K, w0, F0)])
        return
    c = case["scalar"]
    sc = int(c) if case["scalar_kind"] in ("int", "zero") else (np.float64(c) if case["scalar_kind"] == "npfloat" else float(c))
    ctx.label("scalar-" + case["scalar_kind"])
    with ctx.sut("ktensor.__mul__" if op == "mul" else "ktensor.__rmul__"):
        Z = K * sc if op == "mul" else sc * K
    _structure(ctx, Z, case)
    ctx.check(np.array_equal(Z.weights, float(c) * w0), "scalar-multiple-scales-weights", Z.weights)
    ctx.check(all(np.array_equal(a, b) for a, b in zip(Z.factor_matrices, F0)), "scalar-multiple-factors-untouched")
    expect, got = float(c) * A, ref.den(Z)
    if case["vkind"] == "int" and float(c) == round(float(c)):
        ctx.check(ref.same_exact(got, expect), "scalar-multiple-den", ref.diff_info(got, expect))
    else:
        ctx.check(ref.same_bound(got, expect, abs(float(c)) * B, R + 2), "scalar-multiple-den", ref.diff_info(got, expect))
    _result_independent(ctx, Z, [(K, w0, F0)])


def _result_independent(ctx, Z, operands):
    """(round 3) the result is an object of its own: re-parameterising it in place leaves every operand bit-identical"""
    with ctx.sut("ktensor.result-then-normalize-in-place"):
        Z.normalize(weight_factor="all", normtype=1)
        Z.fixsigns()
    for X, w, F in operands:
        ctx.check(np.array_equal(X.weights, w) and all(np.array_equal(a, b) for a, b in zip(X.factor_matrices, F)),
                  "result-does-not-alias-operand")


# --------------------------------------------------------------------------
# score
# --------------------------------------------------------------------------


@st.composite
def _score_case(draw, tier):
    c = draw(H.kt(tier, max_order=3, prov="preserving"))
    N, R = len(c["shape"]), c["rank"]
    kind = draw(st.sampled_from(["self", "reparam-subset", "reparam-subset", "independent"]))
    c["other_kind"] = kind
    c["weight_penalty"] = draw(st.booleans())
    if kind == "self":
        c["other"] = dict(rank=R, weights=list(c["weights"]), factors=[[list(r) for r in f] for f in c["factors"]])
        c["subset"] = list(range(R))
    elif kind == "independent":
        o = draw(H.kt(tier, shape=c["shape"], max_rank=R, kinds=(c["vkind"],)))
        c["other"] = dict(rank=o["rank"], weights=o["weights"], factors=o["factors"])
        c["subset"] = None
    else:
        sub = draw(gen.mode_subset(R, 1, R))
        F = [[[row[j] for j in sub] for row in f] for f in c["factors"]]
        w = [c["weights"][j] for j in sub]
        # move scale between factors and weight, flip pairs of signs: same rank-one terms, different parameters
        for r in range(len(sub)):
            for k in range(N):
                s = draw(st.sampled_from([1.0, 2.0, 0.5, -1.0, 4.0]))
                for row in F[k]:
                    row[r] *= s
                w[r] /= s
        c["other"] = dict(rank=len(sub), weights=w, factors=F)
        c["subset"] = sub
    return c


def _has_dead_component(case):
    F, w = H.fms_of(case), H.w_of(case)
    return any((G[:, r] == 0).all() for G in F for r in range(case["rank"]))


@cell("C08/score", strategy=_score_case, quick=1000, thorough=12000, shards=(2, 12))
def score(ctx, case):
    K, case = H.operand(ctx, case)
    oc = dict(shape=case["shape"], rank=case["other"]["rank"], weights=case["other"]["weights"],
              factors=case["other"]["factors"])
    O = gen.build_ktensor(oc)
    N, R, RB = len(case["shape"]), case["rank"], oc["rank"]
    dead = _has_dead_component(case) or _has_dead_component(oc)
    ctx.nt = H.kt_nt(case) and RB >= 2
    ctx.label(*H.kt_labels(case), "other-" + case["other_kind"], "penalty" if case["weight_penalty"] else "no-penalty",
              "RB<RA" if RB < R else "RB=RA", "dead-component" if dead else "all-live")
    with ctx.sut("ktensor.score"):
        out = K.score(O, weight_penalty=case["weight_penalty"])
    ctx.require(isinstance(out, tuple) and len(out) == 4, "score-returns-4-tuple", type(out).__name__)
    sc, A, flag, perm = out
    ctx.require(isinstance(sc, (float, np.floating)) and np.isfinite(sc), "score-is-finite-float", sc)
    ctx.check(-1e-12 <= sc <= 1 + 1e-9, "score-in-unit-interval", sc)
    _structure(ctx, A, case)
    ctx.check(A is not K, "score-returns-a-copy")
    _den_ok(ctx, A, case, "score-returned-tensor-den-unchanged")
    ctx.check(np.array_equal(K.weights, H.w_of(case)) and all(np.array_equal(a, b) for a, b in zip(K.factor_matrices, H.fms_of(case))),
              "score-leaves-self")
    perm = np.asarray(perm)
    ctx.require(perm.shape == (R,) and sorted(int(i) for i in perm) == list(range(R)), "score-permutation-valid", perm)
    # A is the normalised self with its components in the order `perm`
    for k in range(N):
        ok, nrm = _unit_cols(A.factor_matrices[k], 2)
        ctx.check(ok, "score-returned-tensor-normalised", (k, nrm))
    w0, F0 = H.w_of(case), H.fms_of(case)
    expect = np.abs(w0)
    for k in range(N):
        expect = expect * H.colnorms(F0[k], 2)
    ctx.check(np.allclose(A.weights, expect[perm], rtol=64 * EPS * (max(case["shape"]) + N + 2), atol=0),
              "score-returned-components-follow-permutation", (A.weights, expect[perm]))
    if case["subset"] is not None and not dead:
        # `other` consists of re-parameterised components of self: every one is matched perfectly
        ctx.check(sc >= 1 - 1e-9, "score-of-reparametrised-components-is-one", sc)
        # with the weight penalty on and pairwise distinct component magnitudes the matching is unique:
        # component j of `other` is component subset[j] of self
        mags = np.sort(expect)
        distinct = R == 1 or bool((np.diff(mags) > 1e-6 * mags[1:]).all())
        if case["weight_penalty"] and distinct:
            ctx.label("unique-matching")
            ctx.check([int(i) for i in perm[:RB]] == list(case["subset"]), "score-permutation-recovers-components",
                      (perm.tolist(), case["subset"]))


# --------------------------------------------------------------------------
# predicates for known findings
# --------------------------------------------------------------------------

PREDICATES = {
    "odd_negative_correlations": _odd_negative_correlations,
    "perm_is_tuple_rank_ge2": lambda case: (case.get("variant") == "permutation" and case.get("perm_form") == "tuple"
                                            and case["rank"] >= 2),
    "perm_is_tuple_rank1": lambda case: (case.get("variant") == "permutation" and case.get("perm_form") == "tuple"
                                         and case["rank"] == 1),
}


# --------------------------------------------------------------------------
# histories: re-parameterisations applied one after another to the same object
# --------------------------------------------------------------------------
# Single operations above always start from a freshly constructed (F-ordered, un-normalised) object.  Several
# re-parameterisations leave the object in a state no constructor produces (C-ordered factor matrices after weight
# absorption, permuted columns, unit weights, negated columns): this cell checks every step of a generated sequence
# and, after each step, the vector / list / copy round trips on the state reached.


@st.composite
def _history_case(draw, tier):
    c = draw(H.kt(tier, max_order=4 if tier == "quick" else 5))
    N, R = len(c["shape"]), c["rank"]
    steps = []
    for _ in range(draw(st.sampled_from([1, 2, 2, 3, 3, 4, 5, 6]))):
        kind = draw(st.sampled_from(["normalize", "normalize", "arrange", "arrange-perm", "fixsigns", "redistribute",
                                     "neg", "scale", "permute-modes", "extract-all", "tolist-mode", "roundtrip-vec",
                                     "rejected", "rejected"]))
        if kind == "rejected":
            # (round 4) a request the unchanged tree rejects; the model goes on as if it had not happened
            steps.append(dict(op=kind, req=draw(H.rejected_request(N))))
            continue
        if kind == "normalize":
            wf = draw(st.sampled_from(["none", "all"] + [str(k) for k in range(N)]))
            steps.append(dict(op=kind, wf=wf, sort=draw(st.booleans()), normtype=draw(st.sampled_from(["1", "2", "inf"])),
                              mode=draw(st.sampled_from([None] + list(range(N)))) if wf == "none" else None))
        elif kind == "arrange":
            steps.append(dict(op=kind, wf=draw(st.sampled_from([None] + list(range(N))))))
        elif kind in ("arrange-perm", "extract-all"):
            steps.append(dict(op=kind, perm=list(draw(st.permutations(range(R))))))
        elif kind == "redistribute":
            steps.append(dict(op=kind, mode=draw(st.integers(0, N - 1))))
        elif kind == "scale":
            steps.append(dict(op=kind, c=draw(st.sampled_from([2.0, -3.0, 0.5, 4]))))
        elif kind == "permute-modes":
            steps.append(dict(op=kind, perm=list(draw(st.permutations(range(N))))))
        elif kind == "tolist-mode":
            steps.append(dict(op=kind, mode=draw(st.sampled_from([None] + list(range(N))))))
        else:
            steps.append(dict(op=kind))
        if kind == "roundtrip-vec":
            steps[-1]["include_weights"] = draw(st.booleans())
    c["steps"] = steps
    return c


@cell("C08/history", strategy=_history_case, quick=1500, thorough=20000, shards=(2, 12))
def history(ctx, case):
    K, case = H.operand(ctx, case)
    A = H.den_case(case)  # expected denoted array, updated for neg / scale / permute-modes
    B = H.bound_case(case)
    shape = list(case["shape"])
    R = case["rank"]
    N = len(shape)
    ctx.label(*H.kt_labels(case), f"steps{len(case['steps'])}")
    ctx.nt = len(case["steps"]) >= 2 and R >= 2 and N >= 2
    seen_absorb = False
    for k, s in enumerate(case["steps"]):
        op = s["op"]
        ctx.label("step-" + op)
        n_terms = R * (N + 4) * (k + 2)
        if op == "rejected":
            H.rejected_apply(ctx, K, s["req"], shape, R, tag="history:rejected")
        with ctx.sut(f"history.{op}"):
            if op == "normalize":
                wf = None if s["wf"] == "none" else ("all" if s["wf"] == "all" else int(s["wf"]))
                K.normalize(weight_factor=wf, sort=s["sort"], normtype=H.NORMS[s["normtype"]], mode=s["mode"])
                seen_absorb |= wf is not None
            elif op == "arrange":
                K.arrange(weight_factor=s["wf"])
                seen_absorb |= s["wf"] is not None
            elif op == "arrange-perm":
                K.arrange(permutation=np.array(s["perm"]))
            elif op == "fixsigns":
                K.fixsigns()
            elif op == "redistribute":
                K.redistribute(s["mode"])
                seen_absorb = True
            elif op == "neg":
                K = -K
            elif op == "scale":
                K = K * s["c"] if k % 2 else s["c"] * K
            elif op == "permute-modes":
                K = K.permute(np.array(s["perm"]))
            elif op == "extract-all":
                K = K.extract(np.array(s["perm"]))
            elif op == "tolist-mode":
                K = ttb.ktensor(K.tolist() if s["mode"] is None else K.tolist(s["mode"]))
                seen_absorb = True
            elif op == "roundtrip-vec":
                v = K.tovec(include_weights=s["include_weights"])
                K2 = ttb.ktensor.from_vector(v, tuple(shape), s["include_weights"])
                if not s["include_weights"]:
                    K2.weights = K.weights.copy()
                K = K2
        if op == "neg":
            A = -A
        elif op == "scale":
            A = A * float(s["c"])
            B = B * abs(float(s["c"]))
        elif op == "permute-modes":
            A = np.transpose(A, s["perm"])
            B = np.transpose(B, s["perm"])
            shape = [shape[i] for i in s["perm"]]
        ctx.require(isinstance(K, ttb.ktensor), f"history:{op}:returns-ktensor", type(K).__name__)
        probs = H.kt_ok(K, shape, R)
        ctx.require(not probs, f"history:{op}:wellformed", probs)
        got = ref.den(K)
        ctx.require(ref.same_bound(got, A, B, n_terms), f"history:{op}:denotes-the-same-array", ref.diff_info(got, A))
        # ---- observations on the state reached (none of them changes K)
        W = np.array(K.weights, dtype=float)
        F = [np.array(f, dtype=float) for f in K.factor_matrices]
        for flag in (True, False):
            with ctx.sut("history.tovec"):
                v = K.tovec(include_weights=flag)
            expect = np.concatenate(([W] if flag else []) + [f.flatten(order="F") for f in F])
            ok = isinstance(v, np.ndarray) and v.shape == expect.shape and np.array_equal(v, expect)
            ctx.check(ok, "history:tovec-layout-weights-then-columns", f"after {op}")
            if ok:
                with ctx.sut("history.from_vector"):
                    K2 = ttb.ktensor.from_vector(v.copy(), tuple(shape), flag)
                same = all(np.array_equal(a, b) for a, b in zip(K2.factor_matrices, F))
                ctx.check(same and (not flag or np.array_equal(K2.weights, W)), "history:from_vector-reproduces-object",
                          f"after {op}")
        with ctx.sut("history.copy"):
            C = K.copy()
        with ctx.sut("history.isequal"):
            ctx.check(C.isequal(K) and K.isequal(C), "history:copy-isequal", f"after {op}")
        ctx.check(all(np.array_equal(a, b) for a, b in zip(C.factor_matrices, F)) and np.array_equal(C.weights, W),
                  "history:copy-attributes-equal", f"after {op}")
        if N >= 2 or True:
            with ctx.sut("history.full"):
                D = K.full()
            if isinstance(D, ttb.tensor):
                ctx.check(ref.same_bound(ref.den(D), A, B, n_terms + R), "history:full-denotes-the-same-array",
                          f"after {op}: " + ref.diff_info(ref.den(D), A))
        with ctx.sut("history.tolist"):
            L = K.tolist()
        if isinstance(L, (list, tuple)) and len(L) == N and all(isinstance(x, np.ndarray) for x in L):
            gotL = ref.den_kruskal(np.ones(R), L) if all(x.shape == (n, R) for x, n in zip(L, shape)) else None
            ctx.check(gotL is not None and ref.same_bound(gotL, A, B, n_terms + R * N + 8),
                      "history:tolist-denotes-the-same-array", f"after {op}")
        # the observations must not have changed the object
        ctx.check(all(np.array_equal(a, b) for a, b in zip(K.factor_matrices, F)) and np.array_equal(K.weights, W),
                  "history:observations-leave-object-unchanged", f"after {op}")
    if seen_absorb:
        ctx.label("weights-absorbed-somewhere")


# --------------------------------------------------------------------------
# (round 3) forked histories: several live objects
# --------------------------------------------------------------------------
# Every operation that returns a new Kruskal tensor (+, -, unary -, unary +, scalar *, mode permutation, extract, copy,
# tolist -> ktensor, tovec -> from_vector) leaves its operand(s) alive next to the result; later steps re-parameterise
# any one of the live objects in place (normalize / arrange / fixsigns / redistribute) or derive further objects from
# it.  After every step every live object is judged against its *own* expected array, and every object that was not
# the target of an in-place step must have bit-identical attributes.

_INPLACE = ["normalize", "normalize", "arrange", "arrange-perm", "fixsigns", "redistribute", "rejected"]
_NEWOBJ = ["neg", "pos", "scale", "scale", "permute-modes", "extract-all", "copy", "tolist-mode", "roundtrip-vec", "add", "sub"]
_MAX_LIVE = 4


@st.composite
def _forked_case(draw, tier):
    c = draw(H.kt(tier, max_order=4, max_rank=3))
    N = len(c["shape"])
    live = [dict(R=c["rank"], shape=list(c["shape"]))]  # what the strategy needs to know about each live object
    steps = []
    for i in range(draw(st.sampled_from([2, 3, 3, 4, 4, 5, 6, 7]))):
        on = draw(st.integers(0, len(live) - 1))
        o = live[on]
        R = o["R"]
        # a new object first, then mostly in-place steps on one of the two
        kind = draw(st.sampled_from(_NEWOBJ if i == 0 else _INPLACE + _INPLACE + _NEWOBJ))
        s = dict(op=kind, on=on)
        if kind == "normalize":
            wf = draw(st.sampled_from(["none", "all"] + [str(k) for k in range(N)]))
            s.update(wf=wf, sort=draw(st.booleans()), normtype=draw(st.sampled_from(["1", "2", "inf"])),
                     mode=draw(st.sampled_from([None] + list(range(N)))) if wf == "none" else None)
        elif kind == "rejected":
            s.update(req=draw(H.rejected_request(N)))
        elif kind == "arrange":
            s.update(wf=draw(st.sampled_from([None] + list(range(N)))))
        elif kind in ("arrange-perm", "extract-all"):
            s.update(perm=list(draw(st.permutations(range(R)))))
        elif kind == "redistribute":
            s.update(mode=draw(st.integers(0, N - 1)))
        elif kind == "scale":
            s.update(c=draw(st.sampled_from([2.0, -3.0, 0.5, 4, 2.5, -1.0])), left=draw(st.booleans()))
        elif kind == "permute-modes":
            s.update(perm=list(draw(st.permutations(range(N)))))
        elif kind == "tolist-mode":
            s.update(mode=draw(st.sampled_from([None] + list(range(N)))))
        elif kind == "roundtrip-vec":
            s.update(include_weights=draw(st.booleans()))
        elif kind in ("add", "sub"):
            cand = [j for j, x in enumerate(live) if x["shape"] == o["shape"] and x["R"] + R <= 8]
            if not cand:
                s = dict(op="copy", on=on)
                kind = "copy"
            else:
                s.update(other=draw(st.sampled_from(cand)))
        if kind in _NEWOBJ:
            new = dict(R=R, shape=list(o["shape"]))
            if kind == "permute-modes":
                new["shape"] = [o["shape"][j] for j in s["perm"]]
            if kind in ("add", "sub"):
                new["R"] = R + live[s["other"]]["R"]
            s["fork"] = len(live) < _MAX_LIVE
            if s["fork"]:
                live.append(new)
            else:
                live[on] = new
        steps.append(s)
    c["steps"] = steps
    return c


def _attrs(K):
    return np.array(K.weights, dtype=float), [np.array(f, dtype=float) for f in K.factor_matrices]


def _attrs_equal(K, snap):
    w, F = snap
    return (isinstance(K.weights, np.ndarray) and np.array_equal(K.weights, w) and len(K.factor_matrices) == len(F)
            and all(np.array_equal(a, b) for a, b in zip(K.factor_matrices, F)))


@cell("C08/history/forked", strategy=_forked_case, quick=900, thorough=12000, shards=(2, 12))
def history_forked(ctx, case):
    K0, case = H.operand(ctx, case)
    N = len(case["shape"])
    objs = [dict(K=K0, A=H.den_case(case), B=H.bound_case(case), shape=list(case["shape"]), R=case["rank"], gen=0)]
    ctx.label(*H.kt_labels(case), f"steps{len(case['steps'])}")
    inplace_with_company = 0
    for s in case["steps"]:
        op, on = s["op"], s["on"]
        o = objs[on]
        K = o["K"]
        snaps = [_attrs(x["K"]) for x in objs]
        ctx.label("step-" + op)
        new = None
        if op == "rejected":
            # (round 4) the target of a rejected request stays what it was, like every other live object
            H.rejected_apply(ctx, K, s["req"], o["shape"], o["R"], tag="forked:rejected")
        with ctx.sut(f"forked.{op}"):
            if op == "normalize":
                wf = None if s["wf"] == "none" else ("all" if s["wf"] == "all" else int(s["wf"]))
                K.normalize(weight_factor=wf, sort=s["sort"], normtype=H.NORMS[s["normtype"]], mode=s["mode"])
            elif op == "arrange":
                K.arrange(weight_factor=s["wf"])
            elif op == "arrange-perm":
                K.arrange(permutation=np.array(s["perm"]))
            elif op == "fixsigns":
                K.fixsigns()
            elif op == "redistribute":
                K.redistribute(s["mode"])
            elif op == "neg":
                new = -K
            elif op == "pos":
                new = +K
            elif op == "scale":
                new = s["c"] * K if s["left"] else K * s["c"]
            elif op == "permute-modes":
                new = K.permute(np.array(s["perm"]))
            elif op == "extract-all":
                new = K.extract(np.array(s["perm"]))
            elif op == "copy":
                new = K.copy()
            elif op == "tolist-mode":
                L = K.tolist() if s["mode"] is None else K.tolist(s["mode"])
                new = ttb.ktensor(L)
                for x in L:  # the list handed over stays the caller's
                    if isinstance(x, np.ndarray) and x.flags.writeable:
                        x *= 2.0
            elif op == "roundtrip-vec":
                v = K.tovec(include_weights=s["include_weights"])
                new = ttb.ktensor.from_vector(v, tuple(o["shape"]), s["include_weights"])
                if not s["include_weights"]:
                    new.weights = K.weights.copy()
                if isinstance(v, np.ndarray) and v.flags.writeable:
                    v *= 0.0  # the vector stays the caller's
            elif op in ("add", "sub"):
                O = objs[s["other"]]["K"]
                new = K + O if op == "add" else K - O
        if new is not None:
            ctx.require(isinstance(new, ttb.ktensor), f"forked:{op}:returns-ktensor", type(new).__name__)
            ctx.check(all(new is not x["K"] for x in objs), f"forked:{op}:returns-new-object")
            n = dict(K=new, A=o["A"], B=o["B"], shape=list(o["shape"]), R=o["R"], gen=o["gen"] + 1)
            if op == "neg":
                n["A"] = -o["A"]
            elif op == "scale":
                n["A"], n["B"] = o["A"] * float(s["c"]), o["B"] * abs(float(s["c"]))
            elif op == "permute-modes":
                n["A"], n["B"] = np.transpose(o["A"], s["perm"]), np.transpose(o["B"], s["perm"])
                n["shape"] = [o["shape"][j] for j in s["perm"]]
            elif op in ("add", "sub"):
                o2 = objs[s["other"]]
                n["A"] = o["A"] + o2["A"] if op == "add" else o["A"] - o2["A"]
                n["B"] = o["B"] + o2["B"]
                n["R"] = o["R"] + o2["R"]
                n["gen"] = max(o["gen"], o2["gen"]) + 1
            if s["fork"]:
                objs.append(n)
                touched = len(objs) - 1
            else:
                objs[on] = n
                snaps[on] = None
                touched = on
        else:
            o["gen"] += 1
            touched = on
            if len(objs) > 1:
                inplace_with_company += 1
        if len(objs) > 1:
            ctx.label(f"live-{len(objs)}", ("in-place" if new is None else "new-object") + "-step-with-other-objects-alive")
        # ---- every live object denotes its own array; objects that were not the target are untouched
        for i, x in enumerate(objs):
            who = "result" if i == touched else "other-object"
            probs = H.kt_ok(x["K"], x["shape"], x["R"])
            ctx.require(not probs, f"forked:{op}:{who}-wellformed", probs)
            got = ref.den(x["K"])
            n_terms = x["R"] * (N + 4) * (x["gen"] + 2)
            ok = ctx.check(ref.same_bound(got, x["A"], x["B"], n_terms), f"forked:{op}:{who}-denotes-its-array",
                           ref.diff_info(got, x["A"]))
            if i != touched and i < len(snaps) and snaps[i] is not None:
                ok = ctx.check(_attrs_equal(x["K"], snaps[i]), f"forked:{op}:{who}-attributes-untouched") and ok
            if not ok:
                raise Abort()  # (recorded above; later steps would only repeat the damage)
    ctx.nt = inplace_with_company >= 1 and case["rank"] >= 2 and N >= 2


# --------------------------------------------------------------------------
# (round 3) extreme dynamic range beyond the point where squares of entries under- / overflow
# --------------------------------------------------------------------------
# The provenance 'balanced' (all cells) keeps |exponent| <= 480, where a 2-norm can still be computed as
# sqrt(sum(x**2)).  This cell goes beyond (2**+-520, 2**+-600, 2**+-900): a valid, merely badly balanced Kruskal tensor
# whose column entries are ~1e-157 .. 1e-271 (or 1e+157 .. 1e+271) with the weight or another factor making up for it.
# Every product formed by a correct re-parameterisation stays far inside the float64 range (|entries| <= 1e3, order <= 3).

_EXTREME_EXP = [520, 600, 900, -520, -600, -900]
_EXTREME_CALLS = ["normalize", "normalize-sort", "normalize-wf", "normalize-all", "normalize-mode", "arrange", "arrange-wf",
                  "tolist-mode", "redistribute", "fixsigns"]


@st.composite
def _extreme_case(draw, tier):
    c = draw(H.kt(tier, min_order=2, max_order=3, max_rank=3, prov=None))
    N, R = len(c["shape"]), c["rank"]
    c["bal"] = draw(H.balanced_prov(N, R, _EXTREME_EXP))
    c["call"] = draw(st.sampled_from(_EXTREME_CALLS))
    c["normtype"] = draw(st.sampled_from(["1", "2", "inf"])) if c["call"].startswith("normalize") else "2"
    c["m"] = draw(st.integers(0, N - 1))
    return c


def _extreme_uses_2norm(case):
    return case.get("call") not in ("redistribute", "fixsigns") and case.get("normtype") == "2"


def _scaled_colnorms(F, ord_):
    """column norms that neither under- nor overflow (scale by the largest magnitude first)"""
    F = np.asarray(F, dtype=float)
    out = []
    for r in range(F.shape[1]):
        m = np.abs(F[:, r]).max() if F.shape[0] else 0.0
        out.append(0.0 if m == 0 else m * np.linalg.norm(F[:, r] / m, ord=ord_))
    return np.array(out)


@cell("C08/extreme-range", strategy=_extreme_case, quick=400, thorough=4000, shards=(1, 8))
def extreme_range(ctx, case):
    F, w = H.fms_of(case), H.w_of(case)
    N, R, m, call = len(case["shape"]), case["rank"], case["m"], case["call"]
    A, B = H.den_case(case), H.bound_case(case)  # of the well-scaled tensor: the badly balanced one denotes the same array
    F2, w2 = H.apply_balanced(F, w, case["bal"])
    K = ttb.ktensor([f.copy() for f in F2], w2.copy())
    ord_ = H.NORMS[case["normtype"]]
    e = case["bal"]["e"]
    ctx.nt = R >= 2
    ctx.label(f"order{N}", f"rank{R}", "call-" + call, "norm-" + case["normtype"], f"2^{-e}",
              "column-" + ("tiny" if e > 0 else "huge") + ("-vs-weight" if case["bal"]["k2"] is None else "-vs-factor"))
    with ctx.sut("extreme." + call):
        if call == "normalize":
            K.normalize(normtype=ord_)
        elif call == "normalize-sort":
            K.normalize(sort=True, normtype=ord_)
        elif call == "normalize-wf":
            K.normalize(weight_factor=m, normtype=ord_)
        elif call == "normalize-all":
            K.normalize(weight_factor="all", normtype=ord_)
        elif call == "normalize-mode":
            K.normalize(mode=m, normtype=ord_)
        elif call == "arrange":
            K.arrange()
        elif call == "arrange-wf":
            K.arrange(weight_factor=m)
        elif call == "tolist-mode":
            K = ttb.ktensor(K.tolist(m))
        elif call == "redistribute":
            K.redistribute(m)
        elif call == "fixsigns":
            K.fixsigns()
    _structure(ctx, K, case)
    finite = bool(np.all(np.isfinite(K.weights))) and all(bool(np.all(np.isfinite(f))) for f in K.factor_matrices)
    ctx.check(finite, "extreme-result-finite", K.weights)
    if finite:
        got = ref.den(K)
        ctx.check(ref.same_bound(got, A, B, R * (N + 4)), "extreme-den-unchanged", ref.diff_info(got, A))
    # the normal form, with norms computed so that they cannot under- or overflow
    unit_modes = []
    if call in ("normalize", "normalize-sort"):
        unit_modes = list(range(N))
    elif call in ("normalize-wf", "arrange-wf", "tolist-mode"):
        unit_modes = [k for k in range(N) if k != m]
    elif call == "normalize-mode":
        unit_modes = [m]
    elif call == "arrange":
        unit_modes = list(range(N))
    for k in unit_modes:
        G = np.asarray(K.factor_matrices[k], dtype=float)
        nrm = _scaled_colnorms(G, ord_)
        zero = np.array([(G[:, r] == 0).all() for r in range(R)])
        ctx.check(bool(((np.abs(nrm - 1) <= 64 * EPS * (G.shape[0] + 2)) | zero).all()), "extreme-unit-columns", (k, nrm))
    if call in ("normalize", "normalize-sort", "arrange"):
        # the weights are |w| times the column norms (in any order when sorted): no component may vanish
        expect = np.abs(w2)
        for k in range(N):
            expect = expect * _scaled_colnorms(F2[k], ord_)
        gotw, expw = np.sort(np.asarray(K.weights, dtype=float)), np.sort(expect)
        ctx.check(np.allclose(gotw, expw, rtol=64 * EPS * (max(case["shape"]) + N + 2), atol=0),
                  "extreme-weights-are-norm-products", (gotw, expw))
    if call in ("normalize-wf", "normalize-all", "arrange-wf", "redistribute", "tolist-mode"):
        ctx.check(bool((np.asarray(K.weights) == 1).all()), "extreme-absorbed-weights-all-one", K.weights)


PREDICATES["extreme_uses_2norm"] = _extreme_uses_2norm


# --------------------------------------------------------------------------
# (round 4, class 12) the state a rejected request leaves behind
# --------------------------------------------------------------------------
# One request the unchanged tree rejects (every (call, variant) pair of _c08_helpers.REJECTED drawn uniformly), on an
# operand of any provenance, followed by a valid in-place step.  A twin object built the same way only gets the valid
# step: the two must end up bit-identical ("as if the rejected request had not happened").  The same requests are
# steps of C08/history and C08/history/forked.

_FOLLOW = ["redistribute", "normalize", "normalize-wf", "normalize-all", "arrange", "arrange-wf", "arrange-perm", "fixsigns",
           "normalize-mode", "none"]


@st.composite
def _rejected_case(draw, tier):
    c = draw(H.kt(tier))
    N = len(c["shape"])
    # every (call, variant) pair must come up often: walk through the table from a drawn start with a drawn stride
    # (the number of pairs is prime) instead of sampling it
    P = H.REJECTED_PAIRS
    start, stride = draw(st.integers(0, len(P) - 1)), draw(st.sampled_from([1, 7, 11, 13, 17, 23, 29, 31, 37, 41, 43, 47, 53]))
    c["reqs"] = []
    for i in range(draw(st.sampled_from([1, 2, 3, 4, 6]))):
        call, v = P[(start + i * stride) % len(P)]
        c["reqs"].append(dict(call=call, v=v, k=draw(st.integers(0, N - 1)), j=draw(st.integers(0, 7))))
    c["follow"] = draw(st.sampled_from(_FOLLOW))
    c["m"] = draw(st.integers(0, N - 1))
    c["normtype"] = draw(st.sampled_from(["1", "2", "inf"]))
    return c


def _late_request(case):
    return any(H.REJECTED[r["call"]][0] == "late" for r in case.get("reqs", []) if isinstance(r, dict)) or any(
        H.REJECTED[s["req"]["call"]][0] == "late" for s in case.get("steps", []) if s.get("op") == "rejected")


def _follow_step(K, case):
    f, m, ord_ = case["follow"], case["m"], H.NORMS[case["normtype"]]
    if f == "redistribute":
        K.redistribute(m)
    elif f == "normalize":
        K.normalize(sort=bool(m & 1), normtype=ord_)
    elif f == "normalize-wf":
        K.normalize(weight_factor=m, normtype=ord_)
    elif f == "normalize-all":
        K.normalize(weight_factor="all", normtype=ord_)
    elif f == "normalize-mode":
        K.normalize(mode=m, normtype=ord_)
    elif f == "arrange":
        K.arrange()
    elif f == "arrange-wf":
        K.arrange(weight_factor=m)
    elif f == "arrange-perm":
        K.arrange(permutation=list(range(K.ncomponents))[::-1])
    elif f == "fixsigns":
        K.fixsigns()


class _Quiet:
    """stand-in for ctx while the twin operand is prepared (its labels would count twice)"""

    def label(self, *a):
        pass


@cell("C08/rejected", strategy=_rejected_case, quick=500, thorough=5000, shards=(1, 8))
def rejected(ctx, case0):
    K, case = H.operand(ctx, case0)
    T, _ = H.operand(_Quiet(), case0)  # the twin: same provenance, never sees the rejected requests
    shape, R, N = list(case["shape"]), case["rank"], len(case["shape"])
    ctx.require(H.attrs_equal(T, H.attrs(K)), "rejected:twin-operands-equal")  # (deterministic preparation)
    ctx.nt = H.kt_nt(case)
    ctx.label(*H.kt_labels(case), "follow-" + case["follow"], f"requests-{len(case['reqs'])}")
    all_same = True
    for req in case["reqs"]:
        all_same = H.rejected_apply(ctx, K, req, shape, R, tag="rejected") and all_same
        _structure(ctx, K, case, clause="rejected:" + req["call"] + ":wellformed")
        if not _den_ok(ctx, K, case, "rejected:" + req["call"] + ":denotes-the-same-array",
                       extra_terms=R * (N + 4) * len(case["reqs"])):
            raise Abort()  # (recorded; later requests would only repeat the damage under their own names)
    with ctx.sut("rejected.follow-" + case["follow"]):
        _follow_step(K, case)
        _follow_step(T, case)
    _structure(ctx, K, case, clause="rejected:then-valid-step:wellformed")
    _den_ok(ctx, K, case, "rejected:then-valid-step:denotes-the-same-array", extra_terms=R * (N + 4) * (len(case["reqs"]) + 1))
    if all_same:
        # judged as if the rejected requests had not happened: exactly what the twin got
        ctx.check(H.attrs_equal(K, H.attrs(T)), "rejected:then-valid-step:same-as-without-the-rejected-request")
    f = case["follow"]
    if f in ("redistribute", "normalize-wf", "normalize-all", "arrange-wf"):
        ctx.check(bool((np.asarray(K.weights) == 1).all()), "rejected:then-valid-step:absorbed-weights-all-one", K.weights)


PREDICATES["late_rejected_request"] = _late_request


# --------------------------------------------------------------------------
# (round 4, classes 11 and 13) one request, two presentations; quiet and verbose process environment
# --------------------------------------------------------------------------
# The same valid request is made twice on twin objects: once with python ints / lists / keyword arguments / freshly
# built F-ordered float64 arrays, once the way ordinary callers present it - numpy integer scalars of every width
# and signedness (for n in np.arange(K.ndims), np.argmax(...)), 0-d arrays, index collections as tuples / int32 /
# unsigned / read-only / strided arrays / lists of numpy scalars, optional arguments passed positionally, factor
# matrices and weights handed to the constructor / update / from_vector as C-ordered, read-only, transposed, strided
# or reversed views, a tuple instead of a list - optionally with the root logger at DEBUG and warnings always shown.
# Both objects must end up with the same parameterisation bit for bit, and the second still satisfies the clauses of
# the property (same array; weights all one where absorbed).  float32 factors are outside the domain: the
# constructor rejects every dtype but float64 (ASSUMPTIONS).

_PRES_CALLS = ["normalize-wf", "normalize-wf", "normalize-mode", "normalize-positional", "normalize-positional-all",
               "arrange-wf", "arrange-positional", "redistribute", "update-scalar-mode", "update-modes", "arrange-perm",
               "arrange-perm-positional", "extract", "permute", "from-vector", "ctor", "ctor", "ctor-nocopy", "scalar-times",
               "tovec-flag", "normalize-normtype"]
_NORMTYPE_FORMS = {"float": float, "float64": np.float64, "float32": np.float32, "int64": lambda x: np.int64(x) if np.isfinite(x) else np.float64(x),
                   "uint8": lambda x: np.uint8(x) if np.isfinite(x) else float(x), "0d-array": lambda x: np.array(float(x))}


@st.composite
def _presentation_case(draw, tier):
    c = draw(H.kt(tier))
    N, R = len(c["shape"]), c["rank"]
    # several calls per case, walking through the list from a drawn start with a drawn stride (sampling favours the
    # head of the list and leaves the tail rare)
    U = sorted(set(_PRES_CALLS))
    start, stride = draw(st.integers(0, len(U) - 1)), draw(st.sampled_from([1, 2, 3, 4, 5, 7, 8, 10, 11, 13, 16, 17]))
    c["calls"] = [U[(start + i * stride) % len(U)] for i in range(draw(st.sampled_from([2, 3, 4])))]
    c["m"] = draw(st.integers(0, N - 1))
    c["scalar"] = draw(st.sampled_from(sorted(H.INT_SCALARS)))
    c["coll"] = draw(st.sampled_from(sorted(H.INDEX_COLLECTIONS)))
    c["matrix"] = [draw(st.sampled_from(H.MATRIX_FORMS)) for _ in range(N + 1)]
    c["perm"] = list(draw(st.permutations(range(R))))
    c["idx"] = draw(gen.mode_subset(R, 1, R))
    c["order"] = list(draw(st.permutations(range(N))))
    sel = sorted(draw(gen.mode_subset(N + 1, 1, N + 1, ordered=False)))
    c["modes"] = [i - 1 for i in sel]  # -1 = weights
    c["sort"] = draw(st.booleans())
    c["normtype"] = draw(st.sampled_from(["1", "2", "inf"]))
    c["env"] = draw(st.sampled_from(["plain", "plain", "verbose"]))
    c["normtype_form"] = draw(st.sampled_from(sorted(_NORMTYPE_FORMS)))
    c["follow"] = draw(st.sampled_from(["normalize-wf", "redistribute", "arrange", "none"]))
    return c


class _Verbose:
    """(class 13) root logger at DEBUG behind a NullHandler, logging not disabled, every warning shown; restored on exit"""

    def __init__(self, on):
        self.on = on

    def __enter__(self):
        if not self.on:
            return self
        import logging
        import warnings
        root = logging.getLogger()
        self.level, self.disabled, self.handlers = root.level, root.manager.disable, root.handlers[:]
        root.handlers[:] = [logging.NullHandler()]  # (nothing reaches stderr; a handler exists, so basicConfig stays out)
        root.setLevel(logging.DEBUG)
        logging.disable(logging.NOTSET)
        self.cw = warnings.catch_warnings(record=True)  # (recorded, not printed to stderr)
        self.cw.__enter__()
        warnings.simplefilter("always")
        return self

    def __exit__(self, *exc):
        if not self.on:
            return False
        import logging
        self.cw.__exit__(*exc)
        root = logging.getLogger()
        root.setLevel(self.level)
        root.handlers[:] = self.handlers
        logging.disable(self.disabled)
        return False


@cell("C08/presentation", strategy=_presentation_case, quick=250, thorough=2500, shards=(2, 12))
def presentation(ctx, case0):
    assert len(set(_PRES_CALLS)) == 19  # (prime: every stride below it walks through all the calls)
    first = True
    for call in case0["calls"]:
        _present_one(ctx, case0, call, first)
        first = False


def _present_one(ctx, case0, call, first):
    K1, case = H.operand(ctx if first else _Quiet(), case0)
    K2, _ = H.operand(_Quiet(), case0)
    F0, w0 = H.fms_of(case), H.w_of(case)
    shape, R, N = list(case["shape"]), case["rank"], len(case["shape"])
    m = case["m"]
    ord_ = H.NORMS[case["normtype"]]
    npi = H.INT_SCALARS[case["scalar"]]
    coll = H.INDEX_COLLECTIONS[case["coll"]]
    mf = case["matrix"]
    verbose = case["env"] == "verbose"
    ctx.require(H.attrs_equal(K2, H.attrs(K1)), "presentation:twin-operands-equal")
    ctx.nt = H.kt_nt(case)
    if first:
        ctx.label(*H.kt_labels(case), "env-" + case["env"])
    ctx.label("call-" + call)
    absorbed = False
    A, B = H.den_case(case), H.bound_case(case)
    r1 = r2 = None
    with ctx.sut("presentation." + call + ".plain"):
        # the reference presentation: python ints, lists, keywords, fresh F-ordered float64 arrays
        if call == "normalize-wf":
            K1.normalize(weight_factor=m, sort=case["sort"], normtype=ord_)
        elif call == "normalize-mode":
            K1.normalize(mode=m, normtype=ord_)
        elif call == "normalize-normtype":
            K1.normalize(weight_factor=[None, m, "all"][case["perm"][0] % 3], sort=case["sort"], normtype=ord_)
        elif call == "normalize-positional":
            K1.normalize(weight_factor=m, sort=case["sort"], normtype=ord_, mode=None)
        elif call == "normalize-positional-all":
            K1.normalize(weight_factor="all", sort=case["sort"], normtype=ord_, mode=None)
        elif call in ("arrange-wf", "arrange-positional"):
            K1.arrange(weight_factor=m)
        elif call == "redistribute":
            K1.redistribute(m)
        elif call == "update-scalar-mode":
            K1.update([m], (F0[m] * 2.0 + 1.0).flatten(order="F"))
        elif call == "update-modes":
            K1.update(list(case["modes"]), _update_data(case, F0, w0))
        elif call in ("arrange-perm", "arrange-perm-positional"):
            K1.arrange(permutation=list(case["perm"]))
        elif call == "extract":
            r1 = K1.extract(list(case["idx"]))
        elif call == "permute":
            r1 = K1.permute(np.array(case["order"]))
        elif call == "from-vector":
            r1 = ttb.ktensor.from_vector(K1.tovec(include_weights=True), tuple(shape), True)
        elif call in ("ctor", "ctor-nocopy"):
            r1 = ttb.ktensor([np.asfortranarray(f) for f in F0], w0.copy())
        elif call == "scalar-times":
            r1 = (m + 2) * K1
        elif call == "tovec-flag":
            r1 = ttb.ktensor.from_vector(K1.tovec(include_weights=case["sort"]), tuple(shape), case["sort"])
    with _Verbose(verbose), ctx.sut("presentation." + call + ".presented"):
        if call == "normalize-wf":
            ctx.label("scalar-" + case["scalar"])
            K2.normalize(weight_factor=npi(m), sort=case["sort"], normtype=ord_)
            absorbed = True
        elif call == "normalize-mode":
            ctx.label("scalar-" + case["scalar"])
            K2.normalize(mode=npi(m), normtype=ord_)
        elif call == "normalize-normtype":
            # the norm type is documented as a float: 2, 2.0, numpy.float64(2.0), numpy.int64(2) are one request
            ctx.label("normtype-as-" + case["normtype_form"])
            K2.normalize(weight_factor=[None, m, "all"][case["perm"][0] % 3], sort=case["sort"],
                         normtype=_NORMTYPE_FORMS[case["normtype_form"]](ord_))
        elif call == "normalize-positional":
            ctx.label("scalar-" + case["scalar"], "positional")
            K2.normalize(npi(m), np.bool_(case["sort"]) if m & 1 else case["sort"], ord_)
            absorbed = True
        elif call == "normalize-positional-all":
            ctx.label("positional")
            K2.normalize("all", case["sort"], ord_, None)
            absorbed = True
        elif call == "arrange-wf":
            ctx.label("scalar-" + case["scalar"])
            K2.arrange(weight_factor=npi(m))
            absorbed = True
        elif call == "arrange-positional":
            ctx.label("scalar-" + case["scalar"], "positional")
            K2.arrange(npi(m))
            absorbed = True
        elif call == "redistribute":
            ctx.label("scalar-" + case["scalar"])
            K2.redistribute(mode=npi(m)) if case["sort"] else K2.redistribute(npi(m))
            absorbed = True
        elif call == "update-scalar-mode":
            ctx.label("scalar-" + case["scalar"], "data-" + mf[0])
            K2.update(npi(m), H.present_vector((F0[m] * 2.0 + 1.0).flatten(order="F"), mf[0]))
        elif call == "update-modes":
            form = case["coll"] if not (case["coll"] in H.UNSIGNED and -1 in case["modes"]) else "int32"
            ctx.label("coll-" + form, "data-" + mf[0])
            K2.update(H.INDEX_COLLECTIONS[form](case["modes"]), H.present_vector(_update_data(case, F0, w0), mf[0]))
        elif call == "arrange-perm":
            ctx.label("coll-" + case["coll"])
            K2.arrange(permutation=coll(case["perm"]))
        elif call == "arrange-perm-positional":
            ctx.label("coll-" + case["coll"], "positional")
            K2.arrange(None, coll(case["perm"]))
        elif call == "extract":
            ctx.label("coll-" + case["coll"])
            r2 = K2.extract(coll(case["idx"]))
        elif call == "permute":
            ctx.label("coll-" + case["coll"])
            r2 = K2.permute(coll(case["order"]))
        elif call == "from-vector":
            ctx.label("coll-" + case["coll"], "data-" + mf[0])
            r2 = ttb.ktensor.from_vector(H.present_vector(K2.tovec(), mf[0]), coll(shape), True)  # (contains_weights is documented and asserted as bool)
        elif call == "ctor":
            ctx.label(*["matrix-" + x for x in set(mf)], "factors-as-tuple" if case["sort"] else "factors-as-list")
            fm = [H.present_matrix(f, x) for f, x in zip(F0, mf)]
            wv = H.present_vector(w0, mf[N])
            r2 = ttb.ktensor(tuple(fm) if case["sort"] else fm, wv)
            # (copy=True is the default: the arrays handed over stay the caller's)
            for x in fm + [wv]:
                if x.flags.writeable:
                    x *= 0.0
        elif call == "ctor-nocopy":
            ctx.label(*["matrix-" + x for x in set(mf)], "copy-False")
            fm = [H.present_matrix(f, x) for f, x in zip(F0, mf)]
            fm = [f if f.flags.writeable else f.copy(order="K") for f in fm]  # (a caller who asks for no copy owns writable data)
            r2 = ttb.ktensor(tuple(fm) if case["sort"] else fm, w0.copy(), copy=False)
        elif call == "scalar-times":
            ctx.label("scalar-" + case["scalar"])
            r2 = npi(m + 2) * K2
        elif call == "tovec-flag":
            r2 = ttb.ktensor.from_vector(K2.tovec(np.bool_(case["sort"]) if m & 1 else int(case["sort"])), list(shape), case["sort"])
    X1, X2 = (K1, K2) if r1 is None else (r1, r2)
    ctx.require(isinstance(X2, ttb.ktensor) and isinstance(X1, ttb.ktensor), f"presentation:{call}:returns-ktensor", type(X2).__name__)
    probs = H.kt_ok(X2, X1.shape, X1.ncomponents)
    ctx.require(not probs, f"presentation:{call}:wellformed", probs)
    ctx.check(H.attrs_equal(X2, H.attrs(X1)), f"presentation:{call}:same-parameterisation-in-both-presentations",
              (X1.weights, X2.weights))
    # the presented call on its own terms
    if call in ("update-scalar-mode", "update-modes", "extract", "permute", "scalar-times"):
        pass  # the array changes by design (judged in C08/update, C08/extract, C07, C08/algebra); equality above is the clause
    elif call != "tovec-flag" or case["sort"]:  # (a vector without weights gives unit weights back, by design)
        got = ref.den(X2)
        ctx.check(ref.same_bound(got, A, B, R * (N + 4)), f"presentation:{call}:denotes-the-same-array", ref.diff_info(got, A))
    if absorbed:
        ctx.check(bool((np.asarray(X2.weights) == 1).all()), f"presentation:{call}:absorbed-weights-all-one", X2.weights)
    if call in ("ctor", "from-vector", "tovec-flag"):
        # and both go on to behave the same (the stored arrays are the object's own, F-ordered and writable)
        with _Verbose(verbose), ctx.sut("presentation." + call + ".then-" + case["follow"]):
            for X in (X1, X2):
                if case["follow"] == "normalize-wf":
                    X.normalize(weight_factor=m, normtype=ord_)
                elif case["follow"] == "redistribute":
                    X.redistribute(m)
                elif case["follow"] == "arrange":
                    X.arrange()
        ctx.check(H.attrs_equal(X2, H.attrs(X1)), f"presentation:{call}:same-parameterisation-after-a-further-step")
        if call != "tovec-flag" or case["sort"]:
            got = ref.den(X2)
            ctx.check(ref.same_bound(got, A, B, 2 * R * (N + 4)), f"presentation:{call}:denotes-the-same-array-after-a-further-step",
                      ref.diff_info(got, A))


def _update_data(case, F0, w0):
    return np.concatenate([(w0 - 1.5) if k == -1 else (F0[k] * 0.5 - 2.0).flatten(order="F") for k in case["modes"]])
