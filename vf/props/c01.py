"""C01 — converting between tensor representations preserves the tensor.

Every cell builds one object from a JSON case, computes in plain NumPy the N-way
array it denotes (from the *case*, not from pyttb), converts the object with the
public conversion methods and compares what the result denotes (``ref.den``:
public attributes only) and what it reports (shape, ndims, nnz, row/column
modes, tshape) with that array.
"""

from __future__ import annotations

import itertools
import json
import logging
import zlib

import numpy as np
from hypothesis import strategies as st

import pyttb as ttb

from .. import gen, ref
from ..core import Abort, cell
from ._live import Live

logging.getLogger().setLevel(logging.ERROR)  # pyttb logs a warning for every copy=False it cannot honour

PROPERTY = "C01"
RULE = (
    "cases = (holder data [dense: zero pattern none/one/some/all, values integer / bounded float / full-range "
    "double, dtype float64/int64/bool, C/F/flat input layout; sparse: the same patterns stored in sorted / reversed / "
    "random order; Kruskal rank 1..4 with zero/negative weights; Tucker dense or sparse core; sums of 1..3 parts of the "
    "four kinds], and for matricizations a mode split given as (rdims,cdims) | rdims only | cdims only | "
    "('fc'|'bc'|'t', n)); all ordered partitions of <=4 modes (<=5 thorough) are enumerated for fixed shapes. "
    "Oracle = the array computed in NumPy from the case (einsum for Kruskal/Tucker, the first-listed-mode-fastest index "
    "formula for matricizations); exact equality for data movement, integer data exact / 64*n*eps*|.|-einsum bound "
    "for Kruskal, Tucker and sums.  Non-trivial: N>=2, >=2 distinct entries in the denoted array, and for "
    "matricizations a split other than ([0],[1..N-1]) on a cubical shape.  "
    "Round 2 - object states, dtypes, call sequences: every holder also comes in *derived states* reached through the "
    "public API only (label prov-*/state-*): dense tensors grown by assignment (subscript array / region / single "
    "element / several modes / a new trailing mode: C-ordered buffer, numpy.int64 shape entries), or returned by "
    "permute, sptensor.full, tenmat.to_tensor, T+0; sparse tensors holding explicitly stored zeros (constructor, scale "
    "by a factor with a 0, S*0), grown by assignment (subscripts / region with sparse right-hand side and array "
    "ranges), from from_aggregator / to_sptensor / permute / -(-S), shape handed over as python ints / numpy ints / "
    "array / inferred; Kruskal tensors after redistribute / arrange / fixsigns / extract / -(-K) / normalize (also into "
    "one mode or all modes: C-ordered factors, unit weights).  Value dtypes: dense float64 / float32 / int64 / int32 / "
    "uint8 / bool, sparse float64 / int64 / int32 / int8 / uint8, sums mixing integer-dtype and float parts, integer "
    "data for the tenmat / sptenmat constructors.  Magnitudes: Kruskal weights / Tucker core / all sum parts scaled "
    "by 1e-6 and 1e+6 (bounds are relative).  Sums may contain a part and its negation (exact cancellation).  Every "
    "cell repeats its first conversion at the end (same result), and dense->sparse / sparse->dense convert once "
    "more after the operand was edited in place by a public assignment (the new tensor must come out).  "
    "Round 3 - (several live objects) every object a cell obtains (operand, every conversion result, the arrays "
    "returned by double / find / spmatrix, the arrays a constructor was given) stays alive with a copy of its state; "
    "after the conversions, after an edit of the operand, and after each object in turn was edited in place through the "
    "public interface (T[...] = B, S[subs] = v, M[:, :] = B, M[r, c] = v, a[...] = B; every stored value changed), all "
    "the others must be exactly what they were (clause <object>:changed-by:edit-of-<other>); objects obtained with "
    "copy=False may share with their source and are exempt from each other; Kruskal / Tucker / sum conversions are asked "
    "for again after their results were edited.  (near-special values) cells */special: Kruskal / Tucker factor "
    "matrices that are identity / permutation / diagonal / orthonormal / unit-norm non-orthogonal columns / all ones / "
    "zero (rectangular: the leading block; square half of the time) exactly, perturbed by 1e-12..1e-5 on their "
    "nonzeros / on their zeros / everywhere, or generic; weights all one / within 1e-12..1e-5 of one / of magnitude "
    "1e-9..1e-12 / partly zero; cores superdiagonal / all ones / single entry, exactly or perturbed; a Kruskal column "
    "of norm ~1e-18 carried by a weight ~1e+18 and the reverse; whole tensors scaled by 1e-12.  (sizes) cells "
    "large/*: a few dense tensors of 27000 cells and sparse tensors with 1e4..5e4 stored nonzeros per run through the "
    "same bodies (compact case expanded by a PRNG; the simplest Hypothesis example, identical in every shard, is "
    "skipped and the run seed is mixed into the drawn seed); cell huge/sptenmat: sparse tensors with modes longer than "
    "2**40 / 2**53 / 2**60, more than 2**63 cells, subscripts at the ends of the modes and just above 2**53, judged "
    "entry by entry with Python integers.  "
    "Round 4 - cells present/* (vf/props/_c01_present.py): the same conversion requests as ordinary callers present "
    "them - rdims / cdims / subscripts in int32 / uint8 / uint16 / uint64 / int16 / uint32 / int8 / intp (a different "
    "dtype on each side, empty arrays of those dtypes), shapes / tshapes as tuple / list / integer array / tuple or list "
    "of numpy integer scalars / bare int or numpy scalar for one mode / left out, data / subscript / value / factor / "
    "weight arrays that are read-only, strided, negatively strided, C-ordered or views at an offset (copy=True and "
    "copy=False), optional arguments positionally, values in float32 / int32 / int16 / uint8 / uint16 (sparse too), "
    "scipy COO / CSR / CSC matrices (int32 coordinates) for sptenmat.from_array and COO (also float32, unsorted) Tucker "
    "factors in a list or a tuple under copy=True / False, Tucker cores in float32 / int32, sums with float32 parts, "
    "shapes with more cells than the subscripts' dtype holds (uint8 on 272+ cells; int32 / uint32 / uint16 coordinates "
    "on more than 2**31 cells, judged entry by entry), the root logger at DEBUG during the calls, and an ill-formed "
    "split request between two valid ones.  Oracle: the absolute clauses above on the presented request + agreement "
    "with the plain presentation + the arrays handed over / the receiver unchanged."
)
ASSUMPTIONS = [
    "den(object) is reconstructed from public attributes only (vf/ref.py); the expected array comes from the case",
    "Kruskal/Tucker/sum results: exact for integer-valued data, otherwise |got-ref| <= 64*n*eps*einsum(|.|) with n = "
    "number of summed terms (rank, core cells, or their sum over the parts)",
    "NaN/inf are not real numbers and are not generated; -0.0 == 0.0 accepted",
    "find()/to_sptensor(): the set of (subscript, value) pairs is checked, not their order",
    "derived states are produced by public operations that are judged by their own properties; when such an operation "
    "does not reproduce the tensor of the case (checked in NumPy) the cell falls back to the plain constructor",
    "an sptensor *operand* holding explicitly stored zeros reports them in its own nnz (and scipy's nnz counts stored "
    "entries by definition); every object converted from it must report the nonzero count of the array",
    "float32 dense data: conversions move data, so the denoted array is exactly the float32 values; no float32 for "
    "Kruskal / Tucker / sums (the rounding bounds are stated for float64)",
    "Kruskal factor matrices must be float64 (the constructor rejects anything else): no integer dtypes there",
    "several live objects: the state of an object is read from its public attributes and compared exactly; edits use "
    "the documented item assignments, and NumPy in-place assignment for plain arrays handed to the caller (double(), "
    "find(), spmatrix(), factor matrices, weights); every default conversion documents a copy, copy=False forms are exempt",
    "near-special factor matrices are not integer-valued: those cases are compared with the 64*n*eps*|.| bound, which a "
    "perturbation of 1e-12 relative still exceeds for cores of up to ~64 cells",
    "huge shapes: only shapes and splits whose row and column counts are below 2**63 (representable subscripts); "
    "nothing is expanded; the smallest huge mode is 2**40 so that an accidental dense allocation fails at once",
    "presentations (round 4): only documented argument forms - rdims / cdims are integer ndarrays (any integer dtype), "
    "shape / tshape of tensor, sptensor, tenmat is the documented Shape (int or iterable of ints: python or numpy), the "
    "sptenmat tshape a tuple; a narrow dtype is widened when the case's own values do not fit it",
    "float32 data in Tucker tensors and sums: the expected array is computed from the float32-rounded values and the "
    "result judged by 64*n*eps_single*einsum(|.|) (either precision of the computation satisfies it); integer-valued "
    "data stay exact; float32 values that are only moved (sparse <-> dense <-> matricized) are compared exactly",
    "whether an ill-formed split request is rejected is C19's business; here it is only demanded that the receiver is "
    "bit for bit what it was and the next valid request gives the tensor",
]


def tup(shape):
    return tuple(int(s) for s in shape)


def _ints(x):
    """list of python ints from an array-like of integer-valued entries, else None (never raises)"""
    try:
        a = np.asarray(x)
        if a.size == 0:
            return []
        if a.ndim != 1:
            return None
        if not (np.issubdtype(a.dtype, np.integer) or np.all(a == np.round(a))):
            return None
        return [int(v) for v in a]
    except Exception:  # noqa: BLE001
        return None


def _shape_of(x):
    try:
        return tup(x.shape)
    except Exception:  # noqa: BLE001
        return None


def _nt_array(A):
    return A.ndim >= 2 and len(np.unique(A)) >= 2


# --------------------------------------------------------------------------
# value / holder strategies (local: wide-range doubles, dtypes, layouts)
# --------------------------------------------------------------------------

WIDE = st.floats(allow_nan=False, allow_infinity=False, width=64).filter(lambda v: v != 0.0)
EXTREMES = st.sampled_from([5e-324, -5e-324, 2.2250738585072014e-308, 1.7976931348623157e308,
                            -1.7976931348623157e308, 1.0000000000000002, -0.1, 3.0])


def _nz(vkind):
    if vkind == "wide":
        return st.one_of(WIDE, EXTREMES)
    return gen.values(vkind, nonzero=True)


def _pattern(draw, n, pattern, vkind):
    if n == 0:
        return []
    if pattern == "none":
        return [0.0] * n
    if pattern == "all":
        return draw(st.lists(_nz(vkind), min_size=n, max_size=n))
    if pattern == "one":
        pos = draw(st.integers(0, n - 1))
        out = [0.0] * n
        out[pos] = draw(_nz(vkind))
        return out
    mask = draw(st.lists(st.booleans(), min_size=n, max_size=n))
    vals = draw(st.lists(_nz(vkind), min_size=n, max_size=n))
    return [v if m else 0.0 for m, v in zip(mask, vals)]


@st.composite
def dense_holder(draw, tier, shape=None, kinds=("int", "float", "wide"), **kw):
    if shape is None:
        shape = draw(gen.shapes(tier, **kw))
    vkind = draw(st.sampled_from(list(kinds)))
    pattern = draw(st.sampled_from(["none", "one", "some", "all"]))
    data = _pattern(draw, ref.prod(shape), pattern, vkind)
    dtype = "float64"
    if vkind == "int":
        dtype = draw(st.sampled_from(["float64", "int64", "bool", "int32", "uint8", "float32"]))
        if dtype == "uint8":
            data = [abs(v) for v in data]
    elif vkind == "float":
        # single precision: the values are rounded to float32 first; conversions only move data, so what the
        # object denotes is exactly the float32 values
        dtype = draw(st.sampled_from(["float64", "float64", "float32"]))
    layout = draw(st.sampled_from(["F", "C", "flat"]))
    # provenance: how the object comes into being (constructor, or a public operation that leaves a state no
    # constructor produces - see _derive_dense); prov_k picks the mode / cut of that derivation
    prov = draw(st.sampled_from(DENSE_PROVS))
    return dict(holder="tensor", shape=list(shape), data=data, vkind=vkind, pattern=pattern, dtype=dtype,
                layout=layout, prov=prov, prov_k=draw(st.integers(0, 10**4)))


def dense_array(case):
    """(array as handed to pyttb, float array it denotes)"""
    A = gen.arr_F(case["shape"], case["data"])
    dt = case.get("dtype", "float64")
    if dt == "bool":
        B = A != 0
    elif dt == "float64":
        B = A.copy()
    else:
        B = A.astype(dt)
    return B, B.astype(float)


DENSE_PROVS = ["ctor", "ctor", "ctor", "grown-subs", "grown-region", "grown-elem", "grown-multi", "grown-order",
               "permuted", "from-sparse", "from-tenmat", "arith"]
GROWN_PROVS = [p for p in DENSE_PROVS if p.startswith("grown")]


def _derive_dense(B, prov, k):
    """A dense tensor equal to the array B, reached through a public operation instead of the constructor.

    grown-*: built smaller, then enlarged by assignment (by a subscript array / a region / a single element and
    then subscripts / several modes at once / a new trailing mode).  Growth leaves a C-ordered data buffer and
    numpy.int64 entries in `shape`.  permuted / from-sparse / from-tenmat / arith: the result of another public
    operation (permute of the permuted array, sptensor.full(), tenmat.to_tensor(), T + 0).  Only the public API is
    used.  Returns None when the derivation is not applicable to this shape or does not reproduce B (growth and the
    other operations are judged by their own properties; here only an object *in that state* is needed)."""
    shape = B.shape
    N = B.ndim
    big = [m for m in range(N) if shape[m] >= 2]
    F = np.asfortranarray
    try:
        if prov in ("grown-subs", "grown-region", "grown-elem"):
            if not big:
                return None
            m = big[k % len(big)]
            cut = 1 if prov == "grown-elem" else 1 + (k // 7) % (shape[m] - 1)
            keep = shape[m] - cut
            T = ttb.tensor(F(np.take(B, range(keep), axis=m)))
            miss = [s_ for s_ in itertools.product(*[range(n) for n in shape]) if s_[m] >= keep]
            if prov == "grown-region":
                key = [slice(None)] * N
                if cut == 1 and (k // 3) % 2:
                    key[m] = shape[m] - 1
                    T[tuple(key)] = np.take(B, shape[m] - 1, axis=m)
                else:
                    key[m] = slice(keep, shape[m])
                    T[tuple(key)] = np.take(B, range(keep, shape[m]), axis=m)
            else:
                if prov == "grown-elem":
                    corner = tuple(n - 1 for n in shape)
                    T[corner] = B[corner].item()
                    miss = [s_ for s_ in miss if s_ != corner]
                if miss:
                    T[np.array(miss, dtype=int)] = np.array([B[s_] for s_ in miss])
        elif prov == "grown-multi":
            if len(big) < 2:
                return None
            T = ttb.tensor(F(B[tuple(slice(0, n - 1) if n >= 2 else slice(None) for n in shape)]))
            miss = [s_ for s_ in itertools.product(*[range(n) for n in shape])
                    if any(s_[m] == shape[m] - 1 for m in big)]
            T[np.array(miss, dtype=int)] = np.array([B[s_] for s_ in miss])
        elif prov == "grown-order":
            if N < 2:
                return None
            T = ttb.tensor(F(B[..., 0]))
            for j in range(shape[-1]):
                T[(slice(None),) * (N - 1) + (j,)] = B[..., j]
        elif prov == "permuted":
            if N < 2:
                return None
            perms = list(itertools.permutations(range(N)))[1:]
            p = perms[k % len(perms)]
            T = ttb.tensor(F(B.transpose(p))).permute(np.argsort(p))
        elif prov == "from-sparse":
            nz = np.argwhere(B != 0)
            if len(nz) == 0:
                T = ttb.sptensor(shape=shape).full()
            else:
                T = ttb.sptensor(nz, np.array([B[tuple(r)] for r in nz], dtype=float).reshape(-1, 1), shape).full()
        elif prov == "from-tenmat":
            rd, cd = list(range(N))[: k % (N + 1)], list(range(N))[k % (N + 1):]
            T = ttb.tenmat(F(ref.matricize(B.astype(float), rd, cd)), np.array(rd, dtype=int), np.array(cd, dtype=int),
                           shape).to_tensor()
        elif prov == "arith":
            T = ttb.tensor(F(B.astype(float))) + 0
        else:
            return None
        if not isinstance(T, ttb.tensor) or tup(T.shape) != shape or not isinstance(T.data, np.ndarray):
            return None
        if T.data.shape != shape or not np.array_equal(np.asarray(T.data, dtype=float), B.astype(float)):
            return None
        return T
    except Exception:  # noqa: BLE001
        return None


def dense_state(X):
    """label: what distinguishes the object's state from a freshly constructed one"""
    out = []
    d = np.asarray(X.data)
    if d.ndim >= 2 and not d.flags["F_CONTIGUOUS"]:
        out.append("state-buffer-not-F")
    if any(isinstance(n, np.integer) for n in X.shape):
        out.append("state-numpy-int-shape")
    return out or ["state-plain"]


def build_dense(case):
    B, A = dense_array(case)
    prov = case.get("prov", "ctor")
    if prov != "ctor":
        X = _derive_dense(B, prov, case.get("prov_k", 0))
        if X is not None:
            return X, A
    lay = case.get("layout", "F")
    if lay == "C":
        X = ttb.tensor(np.ascontiguousarray(B))
    elif lay == "flat":
        X = ttb.tensor(np.ravel(B, order="F").copy(), tuple(case["shape"]))
    else:
        X = ttb.tensor(np.asfortranarray(B), tuple(case["shape"]))
    return X, A


SPARSE_PROVS = ["ctor", "ctor", "ctor", "ctor-zeros", "ctor-zeros", "scaled-zeros", "scaled-zeros", "grown-subs",
                "grown-region", "aggregated", "from-dense", "permuted", "double-neg"]
SPARSE_DTYPES = ["float64", "float64", "int64", "int32", "int8", "uint8"]
SHAPE_KINDS = ["int", "int", "npint", "array", "inferred"]


@st.composite
def sparse_holder(draw, tier, shape=None, kinds=("int", "float", "wide"), **kw):
    if shape is None:
        shape = draw(gen.shapes(tier, **kw))
    vkind = draw(st.sampled_from(list(kinds)))
    pattern = draw(st.sampled_from(["none", "one", "some", "all"]))
    flat = _pattern(draw, ref.prod(shape), pattern, vkind)
    dtype = "float64"
    if vkind == "int":
        dtype = draw(st.sampled_from(SPARSE_DTYPES))
        if dtype == "uint8":
            flat = [abs(v) for v in flat]
    cellsF = ref.all_subs_F(shape)
    entries = [(list(s), v) for s, v in zip(cellsF, flat) if v != 0.0]
    order = draw(st.sampled_from(["sorted", "reverse", "random"]))
    if order == "reverse":
        entries = entries[::-1]
    elif order == "random" and len(entries) > 1:
        p = draw(st.permutations(range(len(entries))))
        entries = [entries[i] for i in p]
    # provenance (see _derive_sparse): zsubs = zero cells that are to be held as explicitly stored zeros, zpos =
    # where they go in the stored order, junk = the nonzero values they hold before a public operation zeroes them
    prov = draw(st.sampled_from(SPARSE_PROVS))
    zero_cells = [list(s) for s, v in zip(cellsF, flat) if v == 0.0]
    zsubs, zpos, junk = [], [], []
    if prov in ("ctor-zeros", "scaled-zeros") and zero_cells:
        nz = draw(st.integers(1, min(3, len(zero_cells))))
        idx = draw(st.lists(st.integers(0, len(zero_cells) - 1), min_size=nz, max_size=nz, unique=True))
        zsubs = [zero_cells[i] for i in idx]
        zpos = [draw(st.integers(0, len(entries) + j)) for j in range(nz)]
        junk = draw(st.lists(gen.values("int", nonzero=True).map(abs), min_size=nz, max_size=nz))
    return dict(holder="sptensor", shape=list(shape), subs=[e[0] for e in entries], vals=[e[1] for e in entries],
                vkind=vkind, pattern=pattern, order=order, dtype=dtype, prov=prov, prov_k=draw(st.integers(0, 10**4)),
                shapekind=draw(st.sampled_from(SHAPE_KINDS)), zsubs=zsubs, zpos=zpos, junk=junk)


def _shape_arg(shape, kind, subs):
    """the shape as a caller may hand it over: python ints, numpy integers (e.g. the shape of a grown tensor), an
    integer array, or left out (inferred from the subscripts) when the subscripts reach the last index of every mode"""
    if kind == "npint":
        return tuple(np.int64(n) for n in shape)
    if kind == "array":
        return np.array(shape, dtype=int)
    if kind == "inferred":
        if len(subs) and tuple(int(v) + 1 for v in np.max(np.asarray(subs), axis=0)) == tuple(shape):
            return None
        return tuple(np.int64(n) for n in shape)
    return tuple(shape)


def _sp(subs, vals, shape, dtype="float64"):
    shape_t = shape if shape is None or isinstance(shape, np.ndarray) else tuple(shape)
    if len(subs) == 0:
        return ttb.sptensor(shape=shape_t)
    N = len(subs[0])
    return ttb.sptensor(np.array(subs, dtype=int).reshape(len(subs), N),
                        np.array(vals, dtype=float).astype(dtype).reshape(-1, 1), shape_t)


def _derive_sparse(case, A):
    """A sparse tensor denoting A that is reached through a public path other than the plain constructor call.

    ctor-zeros: the (documented as unvalidated) constructor given explicitly stored zeros; scaled-zeros: entries
    that a public operation turned into stored zeros (scale by a factor holding a 0, S*0); grown-subs / grown-region:
    built on a smaller shape and enlarged by assignment (subscript array / region with a sparse right-hand side and
    array-valued ranges, which leaves numpy integers in `shape`); aggregated: from_aggregator; from-dense:
    tensor.to_sptensor(); permuted: permute of the permuted tensor; double-neg: -(-S).  None when not applicable or
    when the derivation does not reproduce A (those operations are judged elsewhere)."""
    shape = tuple(case["shape"])
    N = len(shape)
    prov, k = case.get("prov", "ctor"), case.get("prov_k", 0)
    subs, vals, dt = case["subs"], case["vals"], case.get("dtype", "float64")
    try:
        if prov == "ctor-zeros":
            if not case["zsubs"]:
                return None
            su, va = [list(x) for x in subs], list(vals)
            for z, pos in zip(case["zsubs"], case["zpos"]):
                su.insert(pos, list(z)), va.insert(pos, 0.0)
            S = _sp(su, va, _shape_arg(shape, case.get("shapekind"), su), dt)
        elif prov == "scaled-zeros":
            if not case["zsubs"]:
                return None
            su, va = [list(x) for x in subs], list(vals)
            for z, pos, j in zip(case["zsubs"], case["zpos"], case["junk"]):
                su.insert(pos, list(z)), va.insert(pos, float(j))
            S0 = _sp(su, va, shape, dt)
            if not subs and k % 2:
                S = S0 * 0
            else:
                # a slice holding only junk can be zeroed by a vector factor; otherwise an all-modes tensor factor
                zs = {tuple(z) for z in case["zsubs"]}
                m, i = k % N, case["zsubs"][0][k % N]
                if k % 3 and not np.any(np.take(A, i, axis=m)):
                    f = np.ones(shape[m])
                    f[i] = 0.0
                    S = S0.scale(f, m)
                    # junk outside the slice is still there: zero it with the tensor factor below
                    rest = [z for z in zs if z[m] != i]
                else:
                    S, rest = S0, list(zs)
                if rest:
                    M = np.ones(shape)
                    for z in rest:
                        M[tuple(z)] = 0.0
                    S = S.scale(ttb.tensor(np.asfortranarray(M)), np.arange(N))
        elif prov in ("grown-subs", "grown-region"):
            reach = [m for m in range(N) if shape[m] >= 2 and any(s_[m] == shape[m] - 1 for s_ in subs)]
            if prov == "grown-region":
                reach = [m for m in range(N) if shape[m] >= 2]
            if not reach:
                return None
            m = reach[k % len(reach)]
            keep = shape[m] - (1 + (k // 7) % (shape[m] - 1))
            small = tuple(keep if d == m else n for d, n in enumerate(shape))
            ins = [(s_, v) for s_, v in zip(subs, vals) if s_[m] < keep]
            out = [(s_, v) for s_, v in zip(subs, vals) if s_[m] >= keep]
            S = _sp([e[0] for e in ins], [e[1] for e in ins], small, dt)
            if prov == "grown-subs":
                if not out or not any(e[0][m] == shape[m] - 1 for e in out):
                    return None
                S[np.array([e[0] for e in out], dtype=int).reshape(len(out), N)] = np.array(
                    [e[1] for e in out], dtype=float).reshape(-1, 1)
            else:
                rshape = tuple(shape[m] - keep if d == m else n for d, n in enumerate(shape))
                R = _sp([[v - keep if d == m else v for d, v in enumerate(e[0])] for e in out], [e[1] for e in out],
                        rshape, dt)
                key = tuple(np.arange(keep, shape[m]) if d == m else (slice(0, n) if (k // 5) % 2 else np.arange(n))
                            for d, n in enumerate(shape))
                S[key] = R
        elif prov == "aggregated":
            if not subs:
                return None
            S = ttb.sptensor.from_aggregator(np.array(subs, dtype=int).reshape(len(subs), N),
                                             np.array(vals, dtype=float).astype(dt).reshape(-1, 1), shape)
        elif prov == "from-dense":
            S = ttb.tensor(np.asfortranarray(A.astype(dt))).to_sptensor()
        elif prov == "permuted":
            if N < 2:
                return None
            perms = list(itertools.permutations(range(N)))[1:]
            p = perms[k % len(perms)]
            S = _sp([[s_[d] for d in p] for s_ in subs], vals, tuple(shape[d] for d in p), dt).permute(np.argsort(p))
        elif prov == "double-neg":
            if dt == "uint8":
                return None
            S = -(-_sp(subs, vals, shape, dt))
        else:
            return None
        if not isinstance(S, ttb.sptensor) or ref.sptensor_problems(S, allow_explicit_zero=True):
            return None
        if tup(S.shape) != shape or not ref.same_exact(ref.den(S), A):
            return None
        return S
    except Exception:  # noqa: BLE001
        return None


def sparse_state(S):
    out = []
    vals = np.asarray(S.vals)
    if vals.size and (vals == 0).any():
        out.append("state-explicit-zero")
    if any(isinstance(n, np.integer) for n in S.shape):
        out.append("state-numpy-int-shape")
    if vals.size and np.issubdtype(vals.dtype, np.integer):
        out.append("state-int-vals-" + ("unsigned" if np.issubdtype(vals.dtype, np.unsignedinteger) else "signed"))
    return out or ["state-plain"]


def has_explicit_zero(S):
    vals = np.asarray(S.vals)
    return bool(vals.size and (vals == 0).any())


def build_sparse(case):
    shape = tuple(case["shape"])
    A = gen.dense_of_sparse_case(case)
    if case.get("prov", "ctor") != "ctor":
        S = _derive_sparse(case, A)
        if S is not None:
            return S, A
    return _sp(case["subs"], case["vals"], _shape_arg(shape, case.get("shapekind", "int"), case["subs"]),
               case.get("dtype", "float64")), A


def _sparse_labels(ctx, case, S):
    ctx.label("prov-" + case.get("prov", "ctor"), *sparse_state(S), "shapearg-" + case.get("shapekind", "int"))


def _stage(ctx, what, call, check=None):
    """Run one conversion and its checks; a failure inside is recorded but does not hide the later stages."""
    try:
        with ctx.sut(what):
            r = call()
        if check is not None:
            check(r)
        return r
    except Abort:
        return None


def _labels(ctx, case):
    ctx.label(*gen.shape_classes(case["shape"]), "pattern-" + case.get("pattern", "?"), "v-" + case.get("vkind", "?"))
    if "order" in case:
        ctx.label("stored-" + case["order"])
    if "layout" in case:
        ctx.label("layout-" + case["layout"], "dtype-" + case["dtype"])


def _dense_labels(ctx, case, X):
    ctx.label("prov-" + case.get("prov", "ctor"), *dense_state(X))


def _check_sptensor(ctx, S, A, what, exact_nnz=True):
    """S must be a well-formed sptensor denoting A and reporting A's shape / nnz."""
    ctx.require(isinstance(S, ttb.sptensor), f"{what}-returns-sptensor", type(S).__name__)
    probs = ref.sptensor_problems(S)
    ctx.require(not probs, f"{what}-wellformed", probs)
    ctx.check(tup(S.shape) == A.shape, f"{what}-shape", f"{S.shape} vs {A.shape}")
    ctx.check(S.ndims == A.ndim, f"{what}-ndims", S.ndims)
    if exact_nnz:
        ctx.check(S.nnz == int(np.count_nonzero(A)), f"{what}-nnz", f"{S.nnz} vs {np.count_nonzero(A)}")
    if tup(S.shape) == A.shape:
        d = ref.den(S)
        ctx.check(ref.same_exact(d, A), f"{what}-denotes", ref.diff_info(d, A))


def _check_tensor(ctx, D, A, what, cmp=None):
    ctx.require(isinstance(D, ttb.tensor), f"{what}-returns-tensor", type(D).__name__)
    ctx.require(isinstance(D.data, np.ndarray), f"{what}-data-ndarray", type(D.data).__name__)
    ctx.check(tup(D.shape) == A.shape and D.data.shape == A.shape, f"{what}-shape",
              f"{D.shape}/{D.data.shape} vs {A.shape}")
    ctx.check(D.ndims == A.ndim, f"{what}-ndims", D.ndims)
    if D.data.shape == A.shape:
        d = ref.den(D)
        ok = ref.same_exact(d, A) if cmp is None else cmp(d)
        ctx.check(ok, f"{what}-denotes", ref.diff_info(d, A))
        if cmp is None:
            ctx.check(D.nnz == int(np.count_nonzero(A)), f"{what}-nnz", f"{D.nnz} vs {np.count_nonzero(A)}")


def _check_ndarray(ctx, a, A, what, cmp=None):
    ctx.require(isinstance(a, np.ndarray), f"{what}-returns-ndarray", type(a).__name__)
    ctx.check(a.dtype == np.float64, f"{what}-float64", str(a.dtype))
    ctx.check(a.shape == A.shape, f"{what}-shape", f"{a.shape} vs {A.shape}")
    if a.shape == A.shape:
        ok = ref.same_exact(a, A) if cmp is None else cmp(np.asarray(a, dtype=float))
        ctx.check(ok, f"{what}-denotes", ref.diff_info(a, A))


# --------------------------------------------------------------------------
# 1. dense -> sparse -> dense
# --------------------------------------------------------------------------


@cell("C01/dense/to_sptensor", strategy=lambda tier: dense_holder(tier, min_order=1), quick=600, thorough=12000)
def dense_to_sparse(ctx, case):
    X, A = build_dense(case)
    _labels(ctx, case)
    _dense_labels(ctx, case, X)
    ctx.nt = _nt_array(A)
    live = Live(ctx)  # every object obtained below stays alive and is judged again after the others were edited
    live.keep("operand", X)
    # what the dense holder itself reports
    ctx.check(tup(X.shape) == A.shape and X.ndims == A.ndim, "tensor-shape")
    ctx.check(ref.same_exact(ref.den(X), A), "tensor-constructor-denotes", ref.diff_info(ref.den(X), A))
    n = int(np.count_nonzero(A))
    _stage(ctx, "tensor.nnz", lambda: X.nnz, lambda nz: ctx.check(nz == n, "tensor-nnz", f"{nz} vs {n}"))
    live.keep("tensor.double", _stage(ctx, "tensor.double", X.double, lambda a: _check_ndarray(ctx, a, A, "tensor.double")))
    live.keep("tensor.full", _stage(ctx, "tensor.full", X.full, lambda F: _check_tensor(ctx, F, A, "tensor.full")))

    # find(): exactly the nonzeros, each with its value
    def chk_find(r):
        ctx.require(isinstance(r, tuple) and len(r) == 2 and all(isinstance(x, np.ndarray) for x in r),
                    "find-returns-arrays")
        subs, vals = r
        ctx.require(subs.shape == (n, A.ndim) and vals.shape == (n, 1), "find-shapes",
                    f"{subs.shape} {vals.shape} n={n}")
        if n:
            ctx.require(np.issubdtype(subs.dtype, np.integer), "find-subs-integer", str(subs.dtype))
            got = {tuple(int(i) for i in r): float(v) for r, v in zip(subs, vals[:, 0])}
            want = {tuple(int(i) for i in r): float(A[tuple(r)]) for r in np.argwhere(A != 0)}
            ctx.check(len(got) == n and got == want, "find-lists-the-nonzeros")

    live.keep("tensor.find", _stage(ctx, "tensor.find", X.find, chk_find))
    # dense -> sparse
    S = _stage(ctx, "tensor.to_sptensor", X.to_sptensor, lambda S: _check_sptensor(ctx, S, A, "to_sptensor"))
    live.keep("to_sptensor", S)
    if S is not None:
        # ... and back, three ways
        live.keep("to_sptensor.full",
                  _stage(ctx, "sptensor.full", S.full, lambda D: _check_tensor(ctx, D, A, "to_sptensor.full")))
        live.keep("to_sptensor.to_tensor", _stage(ctx, "sptensor.to_tensor", S.to_tensor,
                                                  lambda D: _check_tensor(ctx, D, A, "to_sptensor.to_tensor")))
        live.keep("to_sptensor.double", _stage(ctx, "sptensor.double", S.double,
                                               lambda a: _check_ndarray(ctx, a, A, "to_sptensor.double")))
    # a second call on the same object gives the same tensor (the k-th call depends only on its arguments)
    live.keep("to_sptensor-again", _stage(ctx, "tensor.to_sptensor-again", X.to_sptensor,
                                          lambda S: _check_sptensor(ctx, S, A, "to_sptensor-again")))
    # the operand is untouched by the conversions
    ctx.check(ref.same_exact(ref.den(X), A), "operand-unchanged")
    live.judge("later-conversions")
    # ... and after the object is edited in place through the public API, the same conversion gives the new tensor
    # (no result may be remembered from the earlier calls)
    if A.size and A.dtype != bool and case.get("dtype") != "bool":
        pos = tuple(int(i) for i in np.unravel_index(case.get("prov_k", 0) % A.size, A.shape))
        A2 = A.copy()
        A2[pos] = 0.0 if A[pos] != 0 else 3.0
        try:
            with ctx.sut("tensor.__setitem__"):
                X[np.array([pos], dtype=int)] = float(A2[pos])
        except Abort:
            return
        live.touched(X)
        live.judge("edit-of-operand")  # what was converted before the edit is still what it was
        if ref.same_exact(ref.den(X), A2) and tup(X.shape) == A.shape:  # assignment itself is judged by C04
            live.keep("to_sptensor-after-edit", _stage(ctx, "tensor.to_sptensor-after-edit", X.to_sptensor,
                                                      lambda S: _check_sptensor(ctx, S, A2, "to_sptensor-after-edit")))
    # each object in turn is edited in place through the public interface: all the others stay what they were
    ctx.label(f"live-edits-{min(live.edit_all(), 9)}")


# --------------------------------------------------------------------------
# 2. sparse (any stored order) -> dense -> sparse
# --------------------------------------------------------------------------


@cell("C01/sparse/full", strategy=lambda tier: sparse_holder(tier, min_order=1), quick=600, thorough=12000)
def sparse_to_dense(ctx, case):
    S, A = build_sparse(case)
    _labels(ctx, case)
    _sparse_labels(ctx, case, S)
    ctx.nt = _nt_array(A)
    ctx.check(tup(S.shape) == A.shape and S.ndims == A.ndim, "sptensor-shape")
    n = len(case["subs"])
    # an operand holding explicitly stored zeros counts them (it is an input here, not a conversion result); every
    # object converted *from* it must report the nonzero count of the array
    ez = has_explicit_zero(S)
    stored = n + (len(case["zsubs"]) if ez else 0)
    _stage(ctx, "sptensor.nnz", lambda: S.nnz,
           lambda nz: ctx.check(nz == stored, "sptensor-nnz", f"{nz} vs {stored}"))
    live = Live(ctx)
    live.keep("operand", S)
    D1 = _stage(ctx, "sptensor.full", S.full, lambda D: _check_tensor(ctx, D, A, "full"))
    live.keep("full", D1)
    live.keep("to_tensor", _stage(ctx, "sptensor.to_tensor", S.to_tensor, lambda D: _check_tensor(ctx, D, A, "to_tensor")))
    live.keep("double", _stage(ctx, "sptensor.double", S.double, lambda a: _check_ndarray(ctx, a, A, "double")))
    if D1 is not None:
        live.keep("full.to_sptensor", _stage(ctx, "tensor.to_sptensor", D1.to_sptensor,
                                             lambda S2: _check_sptensor(ctx, S2, A, "full.to_sptensor")))
    if len(case["shape"]) == 2:

        def chk_sp(m):
            ctx.require(hasattr(m, "toarray") and hasattr(m, "nnz"), "spmatrix-returns-scipy-sparse",
                        type(m).__name__)
            ctx.check(tup(m.shape) == A.shape, "spmatrix-shape", m.shape)
            ctx.check(ref.same_exact(np.asarray(m.toarray()), A), "spmatrix-denotes")
            # scipy's nnz is by its own definition the number of *stored* entries
            ctx.check(int(m.nnz) == stored, "spmatrix-nnz", m.nnz)

        live.keep("spmatrix", _stage(ctx, "sptensor.spmatrix", S.spmatrix, chk_sp))
    live.keep("full-again", _stage(ctx, "sptensor.full-again", S.full, lambda D: _check_tensor(ctx, D, A, "full-again")))
    ctx.check(ref.same_exact(ref.den(S), A) and S.nnz == stored, "operand-unchanged")
    live.judge("later-conversions")
    # edited in place through the public API, the same conversion gives the new tensor
    if A.size and not np.issubdtype(np.asarray(S.vals).dtype, np.unsignedinteger):
        pos = tuple(int(i) for i in np.unravel_index(case.get("prov_k", 0) % A.size, A.shape))
        A2 = A.copy()
        A2[pos] = 0.0 if A[pos] != 0 else 3.0
        try:
            with ctx.sut("sptensor.__setitem__"):
                S[np.array([pos], dtype=int)] = float(A2[pos])
        except Abort:
            return
        live.touched(S)
        live.judge("edit-of-operand")
        if tup(S.shape) == A.shape and not ref.sptensor_problems(S, allow_explicit_zero=True) and ref.same_exact(
                ref.den(S), A2):  # assignment itself is judged by C04
            live.keep("full-after-edit", _stage(ctx, "sptensor.full-after-edit", S.full,
                                                lambda D: _check_tensor(ctx, D, A2, "full-after-edit")))
    ctx.label(f"live-edits-{min(live.edit_all(), 9)}")


# --------------------------------------------------------------------------
# round 3: structured values - exactly special, epsilon-perturbed special, generic
# --------------------------------------------------------------------------

SPECIAL_KINDS = ["identity", "identity", "permutation", "diagonal", "orthonormal", "unit-columns", "ones", "zero",
                 "generic"]
PERTURB = ["exact", "exact", "eps-diag", "eps-offdiag", "eps-all"]


@st.composite
def special_matrix(draw, s, c):
    """An s x c matrix of a special structure (identity / permutation / diagonal / orthonormal columns and rows /
    unit-norm but not orthogonal columns / all ones / zero; rectangular ones are the leading block of the square
    structure) - exactly, or perturbed by relative 1e-12..1e-5 (on its nonzeros: eps-diag; on its zeros: eps-offdiag;
    everywhere: eps-all) - or a generic matrix.  dict(rows, kind, pert)."""
    kind = draw(st.sampled_from(SPECIAL_KINDS))
    r = min(s, c)
    M = np.zeros((s, c))
    if kind == "identity":
        M[range(r), range(r)] = 1.0
    elif kind == "permutation":
        p_, q_ = draw(st.permutations(range(s))), draw(st.permutations(range(c)))
        for i in range(r):
            M[p_[i], q_[i]] = 1.0
    elif kind == "diagonal":
        d = draw(st.lists(gen.NZ_GEN_VALUES, min_size=r, max_size=r))
        M[range(r), range(r)] = d
    elif kind == "orthonormal":
        n = max(s, c)
        Q = np.eye(n)
        if n >= 2:
            for _ in range(draw(st.integers(1, 3))):
                i = draw(st.integers(0, n - 1))
                j = (i + draw(st.integers(1, n - 1))) % n
                th = draw(st.floats(-3.0, 3.0, allow_nan=False, width=64))
                G = np.eye(n)
                G[i, i] = G[j, j] = np.cos(th)
                G[i, j], G[j, i] = -np.sin(th), np.sin(th)
                Q = Q @ G
        if draw(st.booleans()):
            Q[:, 0] = -Q[:, 0]
        M = Q[:s, :c].copy()
    elif kind == "unit-columns":
        G = np.array(draw(st.lists(st.lists(gen.NZ_GEN_VALUES, min_size=c, max_size=c), min_size=s, max_size=s)))
        M = G / np.sqrt((G * G).sum(axis=0, keepdims=True))
    elif kind == "ones":
        M[:] = 1.0
    elif kind == "generic":
        M = np.array(draw(st.lists(st.lists(gen.values("float"), min_size=c, max_size=c), min_size=s, max_size=s)),
                     dtype=float).reshape(s, c)
    pert = draw(st.sampled_from(PERTURB)) if kind != "generic" else "exact"
    if pert != "exact":
        e = draw(st.integers(5, 12))
        m = draw(st.lists(st.sampled_from([-3.0, -1.0, 1.0, 2.0]), min_size=s * c, max_size=s * c))
        E = (10.0 ** -e) * np.array(m).reshape(s, c)
        if pert == "eps-diag":
            M = M * (1.0 + E)
        elif pert == "eps-offdiag":
            M = M + E * (M == 0)
        else:
            M = M + E
    return dict(rows=[[float(v) for v in row] for row in M], kind=kind, pert=pert)


@st.composite
def special_weights(draw, r):
    """Kruskal weights: all exactly one / within 1e-12..1e-5 of one / generic / of magnitude 1e-9..1e-12 / zero in
    places; (kind, list)"""
    kind = draw(st.sampled_from(["ones", "near-one", "near-one", "generic", "tiny", "some-zero"]))
    if kind == "ones":
        return kind, [1.0] * r
    if kind == "near-one":
        e = draw(st.integers(5, 12))
        m = draw(st.lists(st.sampled_from([-3.0, -1.0, 0.0, 1.0, 2.0]), min_size=r, max_size=r))
        return kind, [1.0 + v * 10.0 ** -e for v in m]
    w = draw(st.lists(gen.NZ_GEN_VALUES, min_size=r, max_size=r))
    if kind == "tiny":
        e = draw(st.integers(9, 12))
        w = [v * 10.0 ** -e for v in w]
    elif kind == "some-zero":
        w[draw(st.integers(0, r - 1))] = 0.0
    return kind, w


# --------------------------------------------------------------------------
# 3. Kruskal -> dense
# --------------------------------------------------------------------------


KT_PROVS = ["ctor", "ctor", "redistribute", "arrange-perm", "fixsigns", "extract", "negneg", "normalize",
            "normalize-mode", "normalize-all"]
KT_EXACT = {"ctor", "redistribute", "arrange-perm", "fixsigns", "extract", "negneg"}  # no rounding for integer data
SCALES = [1.0, 1.0, 1e-6, 1e6, 1e-12]


@st.composite
def kt_case(draw, tier, **kw):
    """gen.ktensor_case + provenance (a public operation that leaves the same Kruskal tensor in another state:
    weights absorbed into a factor, components reordered, columns rescaled ...) + a scale on the weights"""
    c = draw(gen.ktensor_case(tier, **kw))
    c["kprov"] = draw(st.sampled_from(KT_PROVS))
    c["prov_k"] = draw(st.integers(0, 10**4))
    c["wscale"] = draw(st.sampled_from(SCALES))
    return c


def _kt_weights(case):
    return np.array(case["weights"], dtype=float) * float(case.get("wscale", 1.0))


def _kt_exact(case):
    return (case["vkind"] == "int" and case.get("wscale", 1.0) >= 1.0 and case.get("kprov", "ctor") in KT_EXACT
            and not case.get("special"))


def _kt_ref(case):
    w = _kt_weights(case)
    fm = [np.array(f, dtype=float).reshape(n, case["rank"]) for f, n in zip(case["factors"], case["shape"])]
    return ref.den_kruskal(w, fm), ref.abs_kruskal(w, fm)


def build_kt(case):
    """ktensor of the case in the state its provenance asks for (falls back to the constructor when the operation
    does not apply or does not reproduce the tensor within the bound: those operations are judged elsewhere)"""
    fm = [np.array(f, dtype=float).reshape(n, case["rank"]) for f, n in zip(case["factors"], case["shape"])]
    w = _kt_weights(case)
    prov, k = case.get("kprov", "ctor"), case.get("prov_k", 0)
    N, R = len(fm), case["rank"]
    if prov != "ctor":
        try:
            K = ttb.ktensor([f.copy() for f in fm], w.copy())
            if prov == "redistribute":
                K.redistribute(k % N)
            elif prov == "arrange-perm":
                perms = list(itertools.permutations(range(R)))
                K.arrange(permutation=np.array(perms[k % len(perms)], dtype=int))
            elif prov == "fixsigns":
                K.fixsigns()
            elif prov == "extract":
                perms = list(itertools.permutations(range(R)))
                K = K.extract(np.array(perms[k % len(perms)], dtype=int))
            elif prov == "negneg":
                K = -(-K)
            elif prov == "normalize":
                K.normalize(sort=bool(k % 2))
            elif prov == "normalize-mode":
                K.normalize(weight_factor=k % N)
            elif prov == "normalize-all":
                K.normalize(weight_factor="all")
            A, B = ref.den_kruskal(w, fm), ref.abs_kruskal(w, fm)
            if isinstance(K, ttb.ktensor) and tup(K.shape) == A.shape and K.ncomponents == R:
                d = ref.den(K)
                if ref.same_exact(d, A) if _kt_exact(case) else ref.same_bound(d, A, B, R):
                    return K
        except Exception:  # noqa: BLE001
            pass
    return ttb.ktensor(fm, w)


def kt_state(K):
    out = []
    if any(f.ndim == 2 and min(f.shape) >= 2 and not f.flags["F_CONTIGUOUS"] for f in K.factor_matrices):
        out.append("state-factor-not-F")
    if np.all(np.asarray(K.weights) == 1):
        out.append("state-unit-weights")
    return out or ["state-plain"]


def _kt_snapshot(K):
    return np.array(K.weights, copy=True), [np.array(f, copy=True) for f in K.factor_matrices]


def _kt_unchanged(K, snap):
    return np.array_equal(K.weights, snap[0]) and len(K.factor_matrices) == len(snap[1]) and all(
        np.array_equal(f, g) for f, g in zip(K.factor_matrices, snap[1]))


def _cmp_sum(A, B, nterms, exact):
    if exact:
        return lambda d: ref.same_exact(d, A)
    return lambda d: ref.same_bound(d, A, B, nterms)


@cell("C01/ktensor/full", strategy=lambda tier: kt_case(tier, min_order=1), quick=500, thorough=10000)
def ktensor_full(ctx, case):
    A, B = _kt_ref(case)
    K = build_kt(case)
    snap = _kt_snapshot(K)
    ctx.label(*gen.shape_classes(case["shape"]), f"rank{case['rank']}", "v-" + case["vkind"],
              "prov-" + case.get("kprov", "ctor"), *kt_state(K), f"wscale-{case.get('wscale', 1.0):g}")
    ctx.nt = _nt_array(A)
    cmp = _cmp_sum(A, B, case["rank"], _kt_exact(case))
    ctx.check(tup(K.shape) == A.shape and K.ndims == A.ndim, "ktensor-shape", K.shape)
    live = Live(ctx)
    live.keep("operand", K)
    live.keep("full", _stage(ctx, "ktensor.full", K.full, lambda D: _check_tensor(ctx, D, A, "full", cmp)))
    live.keep("to_tensor", _stage(ctx, "ktensor.to_tensor", K.to_tensor, lambda D: _check_tensor(ctx, D, A, "to_tensor", cmp)))
    live.keep("double", _stage(ctx, "ktensor.double", K.double, lambda a: _check_ndarray(ctx, a, A, "double", cmp)))
    # the k-th conversion depends only on the object: a second call gives the same tensor
    live.keep("full-again", _stage(ctx, "ktensor.full-again", K.full, lambda D: _check_tensor(ctx, D, A, "full-again", cmp)))
    ctx.check(_kt_unchanged(K, snap), "operand-unchanged")
    live.judge("later-conversions")
    # the results are edited in place one after the other: the Kruskal tensor and the other results stay what they
    # were, and the same conversion still gives the tensor; then the Kruskal tensor's own arrays are edited
    live.edit_all(only=("full", "to_tensor", "double", "full-again"))
    _stage(ctx, "ktensor.full-after-result-edits", K.full, lambda D: _check_tensor(ctx, D, A, "full-after-result-edits", cmp))
    live.edit_all(only=("operand",))


@st.composite
def _kt_special_case(draw, tier, max_order=None):
    """Kruskal tensor whose factor matrices and weights are special / nearly special (class: tolerance-based
    shortcuts), or badly balanced: a column of norm ~1e-18 carried by a weight ~1e+18 (and the other way round)"""
    shape = draw(gen.shapes(tier, min_order=1, max_order=max_order or (4 if tier == "quick" else 5)))
    r = draw(st.integers(1, 4))
    fs = [draw(special_matrix(n, r)) for n in shape]
    wkind, w = draw(special_weights(r))
    factors = [f["rows"] for f in fs]
    balance = draw(st.sampled_from(["none", "none", "weight-huge", "weight-tiny"]))
    if balance != "none":
        j, k = draw(st.integers(0, r - 1)), draw(st.integers(0, len(shape) - 1))
        big = 1e18 if balance == "weight-huge" else 1e-18
        w = list(w)
        w[j] = w[j] * big
        factors[k] = [[v / big if jj == j else v for jj, v in enumerate(row)] for row in factors[k]]
    return dict(shape=list(shape), rank=r, weights=[float(v) for v in w], factors=factors, vkind="float", special=True,
                fkinds=[f["kind"] + "/" + f["pert"] for f in fs], wkind=wkind, balance=balance,
                kprov=draw(st.sampled_from(KT_PROVS)), prov_k=draw(st.integers(0, 10**4)),
                wscale=draw(st.sampled_from([1.0, 1.0, 1.0, 1e-6, 1e6, 1e-12])))


def _special_labels(ctx, case):
    for fk in case.get("fkinds", []):
        ctx.label("factor-" + fk.split("/")[0], "factor-" + fk.split("/")[1])
    if "wkind" in case:
        ctx.label("weights-" + case["wkind"], "balance-" + case.get("balance", "none"))
    if "ckind" in case:
        ctx.label("core-kind-" + case["ckind"])
    sq = [len(f) == len(f[0]) for f in case["factors"] if f and f[0]]
    ctx.label("all-factors-square" if sq and all(sq) else ("some-factor-square" if any(sq) else "no-factor-square"))


@cell("C01/ktensor/special", strategy=_kt_special_case, quick=250, thorough=5000)
def ktensor_special(ctx, case):
    """ktensor_full on factor matrices / weights that are exactly special, epsilon-perturbed special, badly balanced"""
    _special_labels(ctx, case)
    ktensor_full(ctx, case)


# --------------------------------------------------------------------------
# 4. Tucker -> dense
# --------------------------------------------------------------------------


def _tt_core(case):
    return gen.arr_F(case["cshape"], case["core"]) * float(case.get("cscale", 1.0))


def _tt_exact(case):
    return case["vkind"] == "int" and case.get("cscale", 1.0) >= 1.0 and not case.get("special")


def _tt_ref(case):
    core = _tt_core(case)
    fm = [np.array(f, dtype=float).reshape(s, c) for f, s, c in zip(case["factors"], case["shape"], case["cshape"])]
    return ref.den_tucker(core, fm), ref.den_tucker(np.abs(core), [np.abs(f) for f in fm])


@st.composite
def _ttensor_case(draw, tier):
    c = draw(gen.ttensor_case(tier, min_order=1))
    if c["sparse_core"]:
        # sparse core stored in a generated order
        core = gen.arr_F(c["cshape"], c["core"])
        sc = gen.sparse_case_from_dense(core)
        n = len(sc["subs"])
        c["core_perm"] = list(draw(st.permutations(range(n)))) if n > 1 else list(range(n))
    # factor matrices handed over as scipy COO matrices (the constructor documents both); zero-heavy so that the
    # sparse core's ttm result stays sparse and full() has to densify it
    c["cscale"] = draw(st.sampled_from(SCALES))
    c["core_prov"] = draw(st.sampled_from(["ctor", "ctor"] + GROWN_PROVS))
    c["prov_k"] = draw(st.integers(0, 10**4))
    c["sparse_factors"] = draw(st.booleans()) and draw(st.booleans())
    if c["sparse_factors"]:
        for f in c["factors"]:
            for row in f:
                keep = draw(st.lists(st.booleans(), min_size=len(row), max_size=len(row)))
                for j, k in enumerate(keep):
                    if not k:
                        row[j] = 0.0
    return c


def build_ttensor(case):
    from scipy import sparse

    core = _tt_core(case)
    fm = [np.array(f, dtype=float).reshape(s, c) for f, s, c in zip(case["factors"], case["shape"], case["cshape"])]
    if case.get("sparse_factors"):
        fm = [sparse.coo_matrix(f) for f in fm]
    if case.get("sparse_core"):
        C = gen.build_sptensor(gen.sparse_case_from_dense(core, case.get("core_perm")))
    else:
        C = None
        if case.get("core_prov", "ctor") != "ctor":
            C = _derive_dense(core, case["core_prov"], case.get("prov_k", 0))
        if C is None:
            C = ttb.tensor(core.copy(order="F"), tuple(case["cshape"]))
    return ttb.ttensor(C, fm)


@cell("C01/ttensor/full", strategy=_ttensor_case, quick=400, thorough=8000)
def ttensor_full(ctx, case):
    A, B = _tt_ref(case)
    T = build_ttensor(case)
    ctx.label(*gen.shape_classes(case["shape"]), "sparse-core" if case["sparse_core"] else "dense-core",
              "v-" + case["vkind"], "core-" + ("1" if ref.prod(case["cshape"]) == 1 else "n"),
              "coo-factors" if case.get("sparse_factors") else "ndarray-factors")
    if not case["sparse_core"]:
        ctx.label("core-" + ",".join(dense_state(T.core)))
    ctx.nt = _nt_array(A)
    ctx.label(f"cscale-{case.get('cscale', 1.0):g}")
    cmp = _cmp_sum(A, B, ref.prod(case["cshape"]), _tt_exact(case))
    ctx.check(tup(T.shape) == A.shape and T.ndims == A.ndim, "ttensor-shape", T.shape)
    live = Live(ctx)
    live.keep("operand", T)
    live.keep("full", _stage(ctx, "ttensor.full", T.full, lambda D: _check_tensor(ctx, D, A, "full", cmp)))
    live.keep("to_tensor", _stage(ctx, "ttensor.to_tensor", T.to_tensor, lambda D: _check_tensor(ctx, D, A, "to_tensor", cmp)))
    live.keep("double", _stage(ctx, "ttensor.double", T.double, lambda a: _check_ndarray(ctx, a, A, "double", cmp)))
    live.keep("reconstruct", _stage(ctx, "ttensor.reconstruct", T.reconstruct,
                                    lambda D: _check_tensor(ctx, D, A, "reconstruct", cmp)))
    live.keep("full-again", _stage(ctx, "ttensor.full-again", T.full, lambda D: _check_tensor(ctx, D, A, "full-again", cmp)))
    ctx.check(ref.same_exact(ref.den(T.core), _tt_core(case)), "operand-unchanged")
    live.judge("later-conversions")
    # results edited in place (a result may not be the core or a view of it, whatever the factors are), the same
    # conversion once more, then the Tucker tensor's own core and factors edited
    live.edit_all(only=("full", "to_tensor", "double", "reconstruct", "full-again"))
    _stage(ctx, "ttensor.full-after-result-edits", T.full, lambda D: _check_tensor(ctx, D, A, "full-after-result-edits", cmp))
    live.edit_all(only=("operand",))


@st.composite
def _special_core(draw, cshape):
    """(kind, flat F-order list): generic pattern / superdiagonal (the identity tensor) / all ones / zero but one, each
    exactly or with every entry moved by 1e-12..1e-5"""
    n = ref.prod(cshape)
    kind = draw(st.sampled_from(["generic", "generic", "superdiagonal", "ones", "single"]))
    if kind == "generic":
        return kind, _pattern(draw, n, draw(st.sampled_from(["one", "some", "all", "all"])), draw(
            st.sampled_from(["int", "float"])))
    C = np.zeros(tuple(cshape))
    if kind == "superdiagonal":
        for i in range(min(cshape)):
            C[(i,) * len(cshape)] = 1.0
    elif kind == "ones":
        C[...] = 1.0
    else:
        C[tuple(draw(st.integers(0, c - 1)) for c in cshape)] = draw(gen.NZ_GEN_VALUES)
    if draw(st.booleans()):
        e = draw(st.integers(5, 12))
        m = draw(st.lists(st.sampled_from([-3.0, -1.0, 1.0, 2.0]), min_size=n, max_size=n))
        C = C + (10.0 ** -e) * np.array(m).reshape(tuple(cshape), order="F")
        kind += "+eps"
    return kind, [float(v) for v in np.ravel(C, order="F")]


@st.composite
def _ttensor_special_case(draw, tier):
    """Tucker tensor whose factor matrices (square half of the time: an uncompressed mode) and core are exactly
    special, epsilon-perturbed special or generic"""
    shape = draw(gen.shapes(tier, min_order=1, max_order=3 if tier == "quick" else 4))
    cshape = [s if draw(st.booleans()) else draw(st.integers(1, 3)) for s in shape]
    ckind, core = draw(_special_core(cshape))
    fs = [draw(special_matrix(s, c)) for s, c in zip(shape, cshape)]
    c = dict(shape=list(shape), cshape=cshape, core=core, factors=[f["rows"] for f in fs], vkind="float", special=True,
             sparse_core=draw(st.booleans()), fkinds=[f["kind"] + "/" + f["pert"] for f in fs], ckind=ckind,
             cscale=draw(st.sampled_from([1.0, 1.0, 1.0, 1e-6, 1e6, 1e-12])), core_prov="ctor",
             prov_k=draw(st.integers(0, 10**4)), sparse_factors=False)
    if c["sparse_core"]:
        nnz = sum(1 for v in core if v != 0)
        c["core_perm"] = list(draw(st.permutations(range(nnz)))) if nnz > 1 else list(range(nnz))
    return c


@cell("C01/ttensor/special", strategy=_ttensor_special_case, quick=300, thorough=6000)
def ttensor_special(ctx, case):
    """ttensor_full on factor matrices / cores that are exactly special, epsilon-perturbed special, generic"""
    _special_labels(ctx, case)
    ttensor_full(ctx, case)


# --------------------------------------------------------------------------
# 5. sum -> dense
# --------------------------------------------------------------------------


@st.composite
def _kt_part(draw, tier, shape, vkind):
    c = draw(kt_case(tier, kinds=(vkind,), shape=shape, max_rank=3))
    c["holder"] = "ktensor"
    c["wscale"] = 1.0  # the sum case scales all of its parts together
    return c


@st.composite
def _tt_part(draw, tier, shape, vkind):
    cshape = [draw(st.integers(1, 2)) for _ in shape]
    core = _pattern(draw, ref.prod(cshape), draw(st.sampled_from(["one", "some", "all"])), vkind)
    factors = [draw(st.lists(st.lists(gen.values(vkind), min_size=c, max_size=c), min_size=s, max_size=s))
               for s, c in zip(shape, cshape)]
    return dict(holder="ttensor", shape=list(shape), cshape=cshape, core=core, factors=factors, vkind=vkind,
                sparse_core=draw(st.booleans()))


@st.composite
def _sum_case(draw, tier):
    shape = draw(gen.shapes(tier, min_order=1, max_order=3 if tier == "quick" else 4))
    vkind = draw(st.sampled_from(["int", "float"]))
    k = draw(st.integers(1, 3))
    parts = []
    for _ in range(k):
        kind = draw(st.sampled_from(["tensor", "sptensor", "ktensor", "ttensor"]))
        # a dense / sparse part may hold integer-valued data in an integer dtype, also next to fractional parts
        as_int = kind in ("tensor", "sptensor") and draw(st.integers(0, 2)) == 0
        if kind == "tensor":
            p = draw(dense_holder(tier, shape=shape, kinds=("int",) if as_int else (vkind,)))
            p["dtype"] = "int64" if as_int else "float64"
            p["data"] = [float(v) for v in p["data"]] if as_int else p["data"]
            p["layout"] = "F"
        elif kind == "sptensor":
            p = draw(sparse_holder(tier, shape=shape, kinds=("int",) if as_int else (vkind,)))
            p["dtype"] = "int64" if as_int else "float64"
            p["vals"] = [float(v) for v in p["vals"]] if as_int else p["vals"]
        elif kind == "ktensor":
            p = draw(_kt_part(tier, shape, vkind))
        else:
            p = draw(_tt_part(tier, shape, vkind))
            if draw(st.integers(0, 3)) == 0:  # factor matrices exactly / nearly special (square: uncompressed modes)
                p["cshape"] = [s if draw(st.booleans()) else c for s, c in zip(shape, p["cshape"])]
                p["core"] = _pattern(draw, ref.prod(p["cshape"]), "all", vkind)
                fs = [draw(special_matrix(s, c)) for s, c in zip(shape, p["cshape"])]
                p["factors"], p["special"] = [f["rows"] for f in fs], True
        parts.append(p)
    # a part may be followed by its own negation (exact cancellation: the sum has fewer nonzeros than its parts)
    cancel = draw(st.integers(0, 3)) == 0
    if cancel:
        j = draw(st.integers(0, len(parts) - 1))
        parts.insert(draw(st.integers(j + 1, len(parts))), _negated(parts[j]))
    # one scale for all parts (the property is scale-free; the bounds are relative to the magnitudes)
    scale = draw(st.sampled_from(SCALES))
    if any(p.get("dtype") == "int64" for p in parts):
        scale = 1.0 if scale < 1.0 else scale  # integer dtypes hold integers
    if scale != 1.0:
        parts = [_scaled(p, scale) for p in parts]
    return dict(shape=list(shape), vkind=vkind, parts=parts, via_add=draw(st.booleans()), scale=scale, cancel=cancel)


def _negated(p):
    q = json.loads(json.dumps(p))
    h = q["holder"]
    if h == "tensor":
        q["data"] = [-v for v in q["data"]]
    elif h == "sptensor":
        q["vals"] = [-v for v in q["vals"]]
        q["prov"] = "ctor" if q.get("prov") in ("ctor-zeros", "scaled-zeros") else q.get("prov", "ctor")
    elif h == "ktensor":
        q["weights"] = [-v for v in q["weights"]]
    else:
        q["core"] = [-v for v in q["core"]]
    return q


def _scaled(p, scale):
    q = dict(p)
    h = q["holder"]
    if h == "tensor":
        q["data"] = [v * scale for v in q["data"]]
    elif h == "sptensor":
        q["vals"] = [v * scale for v in q["vals"]]
    elif h == "ktensor":
        q["wscale"] = scale
    else:
        q["cscale"] = scale
    return q


def _build_part(p):
    """(pyttb object, denoted array, abs-bound array, number of summed terms)"""
    h = p["holder"]
    if h == "tensor":
        X, A = build_dense(p)
        return X, A, np.abs(A), 1
    if h == "sptensor":
        X, A = build_sparse(p)
        return X, A, np.abs(A), 1
    if h == "ktensor":
        A, B = _kt_ref(p)
        return build_kt(p), A, B, p["rank"]
    A, B = _tt_ref(p)
    return build_ttensor(p), A, B, ref.prod(p["cshape"])


def _sum_exact(case):
    return case["vkind"] == "int" and case.get("scale", 1.0) >= 1.0 and all(
        p.get("kprov", "ctor") in KT_EXACT for p in case["parts"] if p["holder"] == "ktensor") and not any(
        p.get("special") for p in case["parts"])


@cell("C01/sumtensor/full", strategy=_sum_case, quick=400, thorough=8000)
def sumtensor_full(ctx, case):
    built = [_build_part(p) for p in case["parts"]]
    A = sum(b[1] for b in built)
    B = sum(b[2] for b in built)
    nterms = sum(b[3] for b in built) + len(built)
    kinds = [p["holder"] for p in case["parts"]]
    ctx.label(*gen.shape_classes(case["shape"]), f"parts{len(kinds)}", "first-" + kinds[0], *sorted(set(kinds)))
    dts = {p.get("dtype", "float64") for p in case["parts"]}
    ctx.label("part-dtypes-" + ("mixed" if len(dts) > 1 else dts.pop()),
              "first-part-" + case["parts"][0].get("dtype", "float64"))
    for p, b in zip(case["parts"], built):
        if p["holder"] == "tensor":
            ctx.label("dense-part-" + ",".join(dense_state(b[0])))
        elif p["holder"] == "sptensor":
            ctx.label("sparse-part-" + ",".join(sparse_state(b[0])))
    ctx.nt = _nt_array(A) and len(kinds) >= 2
    ctx.label(f"scale-{case.get('scale', 1.0):g}", "with-cancelling-part" if case.get("cancel") else "no-cancelling-part")
    cmp = _cmp_sum(A, B, nterms, _sum_exact(case))
    with ctx.sut("sumtensor"):
        if case["via_add"] and len(built) >= 2:
            Sm = ttb.sumtensor([built[0][0]])
            for b in built[1:]:
                Sm = Sm + b[0]
        else:
            Sm = ttb.sumtensor([b[0] for b in built])
    ctx.require(isinstance(Sm, ttb.sumtensor), "sumtensor-built")
    ctx.check(tup(Sm.shape) == A.shape and Sm.ndims == A.ndim, "sumtensor-shape", Sm.shape)
    live = Live(ctx)
    live.keep("operand", Sm)
    for i, b in enumerate(built):  # the objects the sum was built from stay alive too
        live.keep(f"part{i}-as-given", b[0])
    live.keep("full", _stage(ctx, "sumtensor.full", Sm.full, lambda D: _check_tensor(ctx, D, A, "full", cmp)))
    live.keep("to_tensor", _stage(ctx, "sumtensor.to_tensor", Sm.to_tensor, lambda D: _check_tensor(ctx, D, A, "to_tensor", cmp)))
    live.keep("double", _stage(ctx, "sumtensor.double", Sm.double, lambda a: _check_ndarray(ctx, a, A, "double", cmp)))
    live.keep("full-again", _stage(ctx, "sumtensor.full-again", Sm.full, lambda D: _check_tensor(ctx, D, A, "full-again", cmp)))
    # converting must not change the parts
    ok = all(ref.same_bound(ref.den(p), b[1], b[2] + 1.0, b[3]) for p, b in zip(Sm.parts, built))
    ctx.check(ok, "parts-unchanged")
    live.judge("later-conversions")
    live.edit_all(only=("full", "to_tensor", "double", "full-again"))
    _stage(ctx, "sumtensor.full-after-result-edits", Sm.full, lambda D: _check_tensor(ctx, D, A, "full-after-result-edits", cmp))
    live.edit_all(only=("operand",) + tuple(f"part{i}-as-given" for i in range(len(built))))


# --------------------------------------------------------------------------
# mode splits
# --------------------------------------------------------------------------


def expected_split(N, spec):
    """(rdims, cdims) a request must produce — from the documented conventions, independent of pyttb."""
    form = spec["form"]
    if form == "both":
        return list(spec["rdims"]), list(spec["cdims"])
    if form == "rdims":
        r = list(spec["rdims"])
        return r, [m for m in range(N) if m not in r]
    if form == "cdims":
        c = list(spec["cdims"])
        return [m for m in range(N) if m not in c], c
    n = spec["n"]
    if form == "fc":
        return [n], list(range(n + 1, N)) + list(range(0, n))
    if form == "bc":
        return [n], list(range(n - 1, -1, -1)) + list(range(N - 1, n, -1))
    if form == "t":
        return [m for m in range(N) if m != n], [n]
    raise ValueError(form)


def split_kwargs(spec):
    form = spec["form"]
    ia = lambda v: np.array(v, dtype=int)  # noqa: E731
    if form == "both":
        return dict(rdims=ia(spec["rdims"]), cdims=ia(spec["cdims"]))
    if form == "rdims":
        return dict(rdims=ia(spec["rdims"]))
    if form == "cdims":
        return dict(cdims=ia(spec["cdims"]))
    return dict(rdims=ia([spec["n"]]), cdims_cyclic=form)


@st.composite
def split_spec(draw, N):
    form = draw(st.sampled_from(["both", "both", "both", "rdims", "cdims", "fc", "bc", "t"]))
    if form in ("fc", "bc", "t"):
        return dict(form=form, n=draw(st.integers(0, N - 1)))
    r, c = draw(gen.ordered_partition(N))
    if form == "both":
        return dict(form=form, rdims=r, cdims=c)
    if form == "rdims":
        # a single row mode without a cyclic flag takes the same code path as several
        return dict(form=form, rdims=r)
    return dict(form=form, cdims=c)


def all_split_specs(N):
    out = [dict(form="both", rdims=r, cdims=c) for r, c in gen.ordered_partitions(N)]
    for k in range(N + 1):
        for sub in itertools.permutations(range(N), k):
            out.append(dict(form="rdims", rdims=list(sub)))
            out.append(dict(form="cdims", cdims=list(sub)))
    for n in range(N):
        for f in ("fc", "bc", "t"):
            out.append(dict(form=f, n=n))
    return out


def _nt_split(shape, rd, cd):
    N = len(shape)
    trivial = len(set(shape)) == 1 and rd == [0] and cd == list(range(1, N))
    return N >= 2 and not trivial


def _split_labels(ctx, spec, rd, cd):
    ctx.label("form-" + spec["form"], "rows-empty" if not rd else ("cols-empty" if not cd else "both-sides"),
              "ascending" if (rd == sorted(rd) and cd == sorted(cd)) else "unsorted-side")


def _check_tenmat(ctx, M, A, rd, cd, what, cmp=None):
    """M is a tenmat reporting split (rd, cd) of a tensor shaped like A and holding the formula matrix."""
    ctx.require(isinstance(M, ttb.tenmat), f"{what}-returns-tenmat", type(M).__name__)
    ctx.check(_ints(M.rindices) == rd, f"{what}-rindices", f"{M.rindices} vs {rd}")
    ctx.check(_ints(M.cindices) == cd, f"{what}-cindices", f"{M.cindices} vs {cd}")
    ctx.check(_shape_of_t(M.tshape) == A.shape, f"{what}-tshape", f"{M.tshape} vs {A.shape}")
    E = ref.matricize(A, rd, cd)
    ctx.require(isinstance(M.data, np.ndarray) and M.data.ndim == 2, f"{what}-data-2d")
    ctx.check(M.data.shape == E.shape and tup(M.shape) == E.shape, f"{what}-matrix-shape",
              f"{M.data.shape}/{M.shape} vs {E.shape}")
    if M.data.shape == E.shape:
        got = np.asarray(M.data, dtype=float)
        ok = ref.same_exact(got, E) if cmp is None else cmp(got, rd, cd)
        ctx.check(ok, f"{what}-index-formula", ref.diff_info(got, E))
    return E


def _shape_of_t(ts):
    try:
        return tuple(int(s) for s in ts)
    except Exception:  # noqa: BLE001
        return None


@st.composite
def _tenmat_case(draw, tier):
    c = draw(dense_holder(tier, min_order=1))
    if c["dtype"] == "bool":
        c["dtype"] = "int64"  # tenmat documents and asserts a *numeric* array; boolean tensors are outside its domain
    c["split"] = draw(split_spec(len(c["shape"])))
    c["copy"] = draw(st.booleans())
    return c


def _tenmat_body(ctx, case):
    X, A = build_dense(case)
    N = A.ndim
    spec = case["split"]
    rd, cd = expected_split(N, spec)
    _labels(ctx, case)
    _dense_labels(ctx, case, X)
    _split_labels(ctx, spec, rd, cd)
    ctx.nt = _nt_array(A) and _nt_split(case["shape"], rd, cd)
    kw = split_kwargs(spec)
    with ctx.sut("tensor.to_tenmat"):
        M = X.to_tenmat(copy=case.get("copy", True), **kw)
    E = _check_tenmat(ctx, M, A, rd, cd, "to_tenmat")
    # the tensor and everything converted from it stay alive; with copy=False the tensor and its matricized form are
    # allowed to share their data (one group), with the default they are not
    live = Live(ctx)
    grp = None if case.get("copy", True) else "nocopy"
    live.keep("operand", X, grp)
    live.keep("to_tenmat", M, grp)
    live.keep("tenmat.double", _stage(ctx, "tenmat.double", M.double, lambda a: _check_ndarray(ctx, a, E, "tenmat.double")))
    live.keep("tenmat.to_tensor", _stage(ctx, "tenmat.to_tensor", M.to_tensor,
                                         lambda D: _check_tensor(ctx, D, A, "tenmat.to_tensor")))
    Mt = _stage(ctx, "tenmat.ctranspose", M.ctranspose, lambda Mt: _check_tenmat(ctx, Mt, A, cd, rd, "ctranspose"))
    live.keep("ctranspose", Mt)
    if Mt is not None:
        live.keep("ctranspose.to_tensor", _stage(ctx, "tenmat.ctranspose.to_tensor", Mt.to_tensor,
                                                 lambda D: _check_tensor(ctx, D, A, "ctranspose.to_tensor")))
    live.keep("tenmat.copy", _stage(ctx, "tenmat.copy", M.copy, lambda Mc: _check_tenmat(ctx, Mc, A, rd, cd, "tenmat.copy")))
    if case.get("copy", True):
        live.keep("to_tenmat-again", _stage(ctx, "tensor.to_tenmat-again", lambda: X.to_tenmat(**kw),
                                            lambda M2: _check_tenmat(ctx, M2, A, rd, cd, "to_tenmat-again")))
    # the no-copy form may share memory with M: it is not kept (and not read again)
    _stage(ctx, "tenmat.to_tensor-nocopy", lambda: M.to_tensor(copy=False),
           lambda D: _check_tensor(ctx, D, A, "tenmat.to_tensor-nocopy"))
    ctx.check(ref.same_exact(ref.den(X), A), "operand-unchanged")
    live.judge("later-conversions")
    # every kept object in turn is edited in place (T[...] = B, M[:, :] = B, a[...] = B): all the others stay what
    # they were; then the conversions are asked for once more from the edited tenmat
    ctx.label(f"live-edits-{min(live.edit_all(), 9)}")
    if isinstance(M.data, np.ndarray) and M.data.shape == E.shape:
        E2 = np.asarray(M.data, dtype=float).copy()
        A2 = ref.unmatricize(E2, rd, cd, A.shape)
        _stage(ctx, "tenmat.to_tensor-after-edits", M.to_tensor,
               lambda D: _check_tensor(ctx, D, A2, "tenmat.to_tensor-after-edits"))
        _stage(ctx, "tenmat.double-after-edits", M.double, lambda a: _check_ndarray(ctx, a, E2, "tenmat.double-after-edits"))


@cell("C01/tenmat/tensor", strategy=_tenmat_case, quick=600, thorough=12000)
def tenmat_tensor(ctx, case):
    _tenmat_body(ctx, case)


ENUM_SHAPES_QUICK = [(3,), (2, 3), (3, 3), (3, 2, 4), (2, 3, 1), (2, 3, 2, 2)]
ENUM_SHAPES_THOROUGH = [(1,), (1, 4), (2, 2, 2), (4, 1, 3), (1, 2, 3, 4), (3, 2, 1, 2), (2, 3, 2, 1, 2), (2, 1, 2, 3, 2)]


def _enum_data(shape):
    n = ref.prod(shape)
    return [float(((i * 7) % 11) - 3) if (i * 7) % 11 != 3 else 0.0 for i in range(n)]


def _enum_splits(tier):
    shapes = list(ENUM_SHAPES_QUICK) + (ENUM_SHAPES_THOROUGH if tier == "thorough" else [])
    for sh in shapes:
        for spec in all_split_specs(len(sh)):
            for holder in ("tensor", "tensor-grown", "sptensor"):
                yield dict(shape=list(sh), split=spec, holder=holder)


@cell("C01/split/enumerated", enum=_enum_splits, shards=(4, 16))
def split_enumerated(ctx, case):
    """every way of requesting every ordered mode split of fixed shapes, dense and sparse"""
    sh = case["shape"]
    data = _enum_data(sh)
    if case["holder"] in ("tensor", "tensor-grown"):
        # the grown holder: the way of growing is a fixed function of the request (deterministic enumeration)
        k = zlib.crc32(repr((sh, sorted(case["split"].items()))).encode())
        prov = GROWN_PROVS[k % len(GROWN_PROVS)] if case["holder"] == "tensor-grown" else "ctor"
        _tenmat_body(ctx, dict(holder="tensor", shape=sh, data=data, vkind="int", pattern="some", dtype="float64",
                               layout="F", split=case["split"], copy=True, prov=prov, prov_k=k // 8))
    else:
        sc = gen.sparse_case_from_dense(gen.arr_F(sh, data))
        sc["subs"], sc["vals"] = sc["subs"][::-1], sc["vals"][::-1]
        sc.update(holder="sptensor", vkind="int", pattern="some", order="reverse", dtype="float64",
                  split=case["split"])
        _sptenmat_body(ctx, sc)


@st.composite
def _tenmat_ctor_case(draw, tier):
    c = draw(dense_holder(tier, min_order=1, kinds=("int", "float", "wide")))
    c["dtype"] = draw(st.sampled_from(["float64", "int64", "int32"])) if c["vkind"] == "int" else "float64"
    if c["dtype"] == "float64" and c["vkind"] == "int":
        c["data"] = [float(v) for v in c["data"]]
    c["layout"] = draw(st.sampled_from(["F", "C"]))
    c["prov"] = "ctor"
    N = len(c["shape"])
    r, cdims = draw(gen.ordered_partition(N))
    form = draw(st.sampled_from(["both", "both", "rdims", "cdims", "vector"]))
    if form == "vector":
        r, cdims = [], list(draw(st.permutations(range(N))))
    c["split"] = dict(form="both" if form == "vector" else form, rdims=r, cdims=cdims)
    if form == "rdims":
        c["split"] = dict(form="rdims", rdims=r)
    elif form == "cdims":
        c["split"] = dict(form="cdims", cdims=cdims)
    c["ctor"] = form
    c["copy"] = draw(st.booleans())
    return c


@cell("C01/tenmat/constructor", strategy=_tenmat_ctor_case, quick=500, thorough=10000)
def tenmat_constructor(ctx, case):
    """tenmat(data, rdims, cdims, tshape) built from the formula matrix must denote the tensor"""
    A = gen.arr_F(case["shape"], case["data"])
    N = A.ndim
    spec = case["split"]
    rd, cd = expected_split(N, spec)
    _labels(ctx, case)
    _split_labels(ctx, spec, rd, cd)
    ctx.label("ctor-" + case["ctor"])
    ctx.nt = _nt_array(A) and _nt_split(case["shape"], rd, cd)
    E = ref.matricize(A, rd, cd)
    Ed = E.astype(case.get("dtype", "float64"))
    data = np.ascontiguousarray(Ed) if case["layout"] == "C" else np.asfortranarray(Ed)
    kw = split_kwargs(spec)
    if case["ctor"] == "vector":
        data = Ed.reshape(-1).copy()
        kw = dict(cdims=kw["cdims"])
    with ctx.sut("tenmat()"):
        M = ttb.tenmat(data, tshape=tuple(case["shape"]), copy=case["copy"], **kw)
    _check_tenmat(ctx, M, A, rd, cd, "tenmat()")
    live = Live(ctx)
    grp = None if case["copy"] else "nocopy"
    live.keep("array-as-given", data, grp)
    live.keep("tenmat()", M, grp)
    live.keep("tenmat().to_tensor", _stage(ctx, "tenmat.to_tensor", M.to_tensor,
                                           lambda D: _check_tensor(ctx, D, A, "tenmat().to_tensor")))
    live.keep("tenmat().double", _stage(ctx, "tenmat.double", M.double, lambda a: _check_ndarray(ctx, a, E, "tenmat().double")))
    live.judge("later-conversions")
    live.edit_all()


@st.composite
def _kt_tenmat_case(draw, tier):
    c = draw(kt_case(tier, min_order=1)) if draw(st.integers(0, 3)) else draw(_kt_special_case(tier))
    c["split"] = draw(split_spec(len(c["shape"])))
    return c


@cell("C01/tenmat/ktensor", strategy=_kt_tenmat_case, quick=300, thorough=6000)
def tenmat_ktensor(ctx, case):
    A, B = _kt_ref(case)
    K = build_kt(case)
    spec = case["split"]
    rd, cd = expected_split(A.ndim, spec)
    ctx.label(*gen.shape_classes(case["shape"]), "v-" + case["vkind"], "prov-" + case.get("kprov", "ctor"),
              *kt_state(K), f"wscale-{case.get('wscale', 1.0):g}")
    _split_labels(ctx, spec, rd, cd)
    ctx.nt = _nt_array(A) and _nt_split(case["shape"], rd, cd)
    exact = _kt_exact(case)

    def cmp(got, r, c):
        E = ref.matricize(A, r, c)
        return ref.same_exact(got, E) if exact else ref.same_bound(got, E, ref.matricize(B, r, c), case["rank"])

    with ctx.sut("ktensor.to_tenmat"):
        M = K.to_tenmat(**split_kwargs(spec))
    _check_tenmat(ctx, M, A, rd, cd, "to_tenmat", cmp)
    live = Live(ctx)
    live.keep("operand", K)
    live.keep("to_tenmat", M)
    live.keep("tenmat.to_tensor", _stage(
        ctx, "tenmat.to_tensor", M.to_tensor,
        lambda D: _check_tensor(ctx, D, A, "tenmat.to_tensor", _cmp_sum(A, B, case["rank"], exact))))
    live.judge("later-conversions")
    live.edit_all()


# --------------------------------------------------------------------------
# 7. sparse matricization
# --------------------------------------------------------------------------


from ._spwf import sptenmat_problems  # noqa: E402


def _check_sptenmat(ctx, M, A, rd, cd, what):
    ctx.require(isinstance(M, ttb.sptenmat), f"{what}-returns-sptenmat", type(M).__name__)
    probs = sptenmat_problems(M)
    ctx.require(not probs, f"{what}-wellformed", probs)
    ctx.check(_ints(M.rdims) == rd, f"{what}-rdims", f"{M.rdims} vs {rd}")
    ctx.check(_ints(M.cdims) == cd, f"{what}-cdims", f"{M.cdims} vs {cd}")
    ctx.check(_shape_of_t(M.tshape) == A.shape, f"{what}-tshape", f"{M.tshape} vs {A.shape}")
    E = ref.matricize(A, rd, cd)
    ctx.check(tup(M.shape) == E.shape, f"{what}-matrix-shape", f"{M.shape} vs {E.shape}")
    ctx.check(M.nnz == int(np.count_nonzero(A)), f"{what}-nnz", f"{M.nnz} vs {np.count_nonzero(A)}")
    if _ints(M.rdims) == rd and _ints(M.cdims) == cd and _shape_of_t(M.tshape) == A.shape:
        G = np.zeros(E.shape)
        if M.subs.size:
            for r, v in zip(M.subs, np.asarray(M.vals).reshape(-1)):
                G[int(r[0]), int(r[1])] += v
        ctx.check(ref.same_exact(G, E), f"{what}-index-formula", ref.diff_info(G, E))
    return E


def _sptenmat_conversions(ctx, M, A, E, rd, cd, what, live=None):
    """sptenmat -> scipy sparse / dense tenmat / sptensor"""

    def chk_scipy(m):
        ctx.require(hasattr(m, "toarray") and hasattr(m, "nnz"), f"{what}.double-returns-scipy-sparse",
                    type(m).__name__)
        ctx.check(tup(m.shape) == E.shape, f"{what}.double-shape", f"{m.shape} vs {E.shape}")
        if tup(m.shape) == E.shape:
            ctx.check(ref.same_exact(np.asarray(m.toarray()), E), f"{what}.double-denotes")
        ctx.check(int(m.nnz) == int(np.count_nonzero(E)), f"{what}.double-nnz", m.nnz)

    live = live or Live(ctx)
    live.keep(f"{what}.double", _stage(ctx, "sptenmat.double", M.double, chk_scipy))
    live.keep(f"{what}.full", _stage(ctx, "sptenmat.full", M.full, lambda Fm: _check_tenmat(ctx, Fm, A, rd, cd, f"{what}.full")))
    live.keep(f"{what}.to_sptensor", _stage(ctx, "sptenmat.to_sptensor", M.to_sptensor,
                                            lambda S2: _check_sptensor(ctx, S2, A, f"{what}.to_sptensor")))


@st.composite
def _sptenmat_case(draw, tier):
    c = draw(sparse_holder(tier, min_order=1))
    c["split"] = draw(split_spec(len(c["shape"])))
    return c


def _sptenmat_body(ctx, case):
    S, A = build_sparse(case)
    N = A.ndim
    spec = case["split"]
    rd, cd = expected_split(N, spec)
    _labels(ctx, case)
    _sparse_labels(ctx, case, S)
    _split_labels(ctx, spec, rd, cd)
    ctx.label("nnz0" if not case["subs"] else ("nnz1" if len(case["subs"]) == 1 else "nnz2+"))
    ctx.nt = _nt_array(A) and _nt_split(case["shape"], rd, cd)
    stored = S.nnz
    with ctx.sut("sptensor.to_sptenmat"):
        M = S.to_sptenmat(**split_kwargs(spec))
    E = _check_sptenmat(ctx, M, A, rd, cd, "to_sptenmat")
    live = Live(ctx)
    live.keep("operand", S)
    live.keep("to_sptenmat", M)
    _sptenmat_conversions(ctx, M, A, E, rd, cd, "sptenmat", live)
    live.keep("sptenmat.copy", _stage(ctx, "sptenmat.copy", M.copy, lambda Mc: _check_sptenmat(ctx, Mc, A, rd, cd, "sptenmat.copy")))
    live.keep("to_sptenmat-again", _stage(ctx, "sptensor.to_sptenmat-again", lambda: S.to_sptenmat(**split_kwargs(spec)),
                                          lambda M2: _check_sptenmat(ctx, M2, A, rd, cd, "to_sptenmat-again")))
    ctx.check(ref.same_exact(ref.den(S), A) and S.nnz == stored, "operand-unchanged")
    live.judge("later-conversions")
    ctx.label(f"live-edits-{min(live.edit_all(), 9)}")


@cell("C01/sptenmat/sptensor", strategy=_sptenmat_case, quick=600, thorough=12000)
def sptenmat_sptensor(ctx, case):
    _sptenmat_body(ctx, case)


@st.composite
def _sptenmat_ctor_case(draw, tier):
    c = draw(sparse_holder(tier, min_order=1))
    c["dtype"] = draw(st.sampled_from(["float64", "int64"])) if c["vkind"] == "int" and c["dtype"] != "uint8" else (
        "float64")
    N = len(c["shape"])
    r, cd = draw(gen.ordered_partition(N))
    form = draw(st.sampled_from(["both", "both", "rdims", "cdims"]))
    c["split"] = dict(form="both", rdims=r, cdims=cd) if form == "both" else (
        dict(form="rdims", rdims=r) if form == "rdims" else dict(form="cdims", cdims=cd))
    # subs-nocopy: the documented reference-only constructor form (no sorting, no aggregation) given distinct
    # subscripts in the stored order of the case - an sptenmat in a state the checked constructor never leaves
    c["source"] = draw(st.sampled_from(["subs", "subs-zero", "subs-nocopy", "dense", "coo", "csr", "csc", "coo-dups",
                                        "coo-zero"]))
    c["extra"] = draw(st.integers(0, 10**6))  # which entry is split in two / where the explicit zero goes
    return c


@cell("C01/sptenmat/constructor", strategy=_sptenmat_ctor_case, quick=500, thorough=10000)
def sptenmat_constructor(ctx, case):
    """sptenmat(subs, vals, ...) / sptenmat.from_array(dense | scipy sparse, ...) built from the formula matrix"""
    from scipy import sparse

    A = gen.dense_of_sparse_case(case)
    N = A.ndim
    spec = case["split"]
    rd, cd = expected_split(N, spec)
    _labels(ctx, case)
    _split_labels(ctx, spec, rd, cd)
    ctx.label("source-" + case["source"], "nnz0" if not case["subs"] else ("nnz1" if len(case["subs"]) == 1 else "nnz2+"))
    ctx.nt = _nt_array(A) and _nt_split(case["shape"], rd, cd)
    E = ref.matricize(A, rd, cd)
    # (row, col, value) triples in the stored order of the case
    rows = [ref.lin_index([s[d] for d in rd], [case["shape"][d] for d in rd]) for s in case["subs"]]
    cols = [ref.lin_index([s[d] for d in cd], [case["shape"][d] for d in cd]) for s in case["subs"]]
    vdt = case.get("dtype", "float64")
    ctx.label("vals-" + vdt)
    vals = np.array(case["vals"], dtype=float)
    kw = split_kwargs(spec)
    ts = tuple(case["shape"])
    src = case["source"]
    given = []
    with ctx.sut(f"sptenmat-from-{src}"):
        if src == "subs-nocopy" and rows:
            given = [np.array([rows, cols], dtype=int).T.copy(), vals.astype(vdt).reshape(-1, 1)]
            M = ttb.sptenmat(given[0], given[1], tshape=ts, copy=False, **kw)
        elif src in ("subs", "subs-zero", "subs-nocopy"):
            r_, c_, v_ = list(rows), list(cols), [float(v) for v in vals]
            zs = np.argwhere(E == 0)
            if src == "subs-zero" and len(zs):
                # an explicitly stored zero at a cell that is zero anyway: the same matrix
                z = zs[case["prov_k"] % len(zs)]
                pos = case["prov_k"] % (len(v_) + 1)
                r_.insert(pos, int(z[0])), c_.insert(pos, int(z[1])), v_.insert(pos, 0.0)
            if r_:
                given = [np.array([r_, c_], dtype=int).T.copy(), np.array(v_).astype(vdt).reshape(-1, 1)]
                M = ttb.sptenmat(given[0], given[1], tshape=ts, **kw)
            else:
                M = ttb.sptenmat(tshape=ts, **kw)
        elif src == "dense":
            given = [E.astype(vdt)]
            M = ttb.sptenmat.from_array(given[0], tshape=ts, **kw)
        else:
            r_, c_, v_ = list(rows), list(cols), [float(v) for v in vals]
            if src == "coo-dups" and v_:
                # one entry given as two summands (2v and -v: exact in floating point)
                # (only for magnitudes where doubling neither overflows nor leaves the normal range)
                safe = [i for i, v in enumerate(v_) if 1e-300 < abs(v) < 1e300]
                if safe:
                    k = safe[case["extra"] % len(safe)]
                    r_.append(r_[k]), c_.append(c_[k]), v_.append(-v_[k])
                    v_[k] = 2.0 * v_[k]
            if src == "coo-zero":
                # an explicitly stored zero at a cell that is zero anyway: the matrix denotes the same array
                zs = np.argwhere(E == 0)
                if len(zs):
                    z = zs[case["extra"] % len(zs)]
                    pos = case["extra"] % (len(v_) + 1)
                    r_.insert(pos, int(z[0])), c_.insert(pos, int(z[1])), v_.insert(pos, 0.0)
            coo = sparse.coo_matrix((np.array(v_, dtype=float).astype(vdt), (np.array(r_, dtype=int),
                                                                              np.array(c_, dtype=int))), shape=E.shape)
            m = coo.tocsr() if src == "csr" else (coo.tocsc() if src == "csc" else coo)
            given = [m]
            M = ttb.sptenmat.from_array(m, tshape=ts, **kw)
    _check_sptenmat(ctx, M, A, rd, cd, "sptenmat()")
    live = Live(ctx)
    live.keep("sptenmat()", M, "nocopy" if src == "subs-nocopy" else None)
    for i, g in enumerate(given):  # the arrays / matrix the object was built from stay alive too
        live.keep(f"given{i}", g, "nocopy" if src == "subs-nocopy" else None)
    _sptenmat_conversions(ctx, M, A, E, rd, cd, "sptenmat()", live)
    live.judge("later-conversions")
    live.edit_all()


# --------------------------------------------------------------------------
# round 3: sizes above internal thresholds.  (1) a few large holders per run - dense tensors of ~27000 cells, sparse
# tensors with 1e4..5e4 stored nonzeros - through the same bodies as the small ones (the case is stored in compact
# form and expanded by a PRNG: Hypothesis cannot draw that much data); (2) sparse tensors whose modes are longer
# than 2**40, 2**53 (indices that pass through float64 lose their last bits) and whose cell count exceeds 2**63 (key
# arithmetic in int64 overflows), converted to sparse-matricized form and back, judged entry by entry with Python
# integers.
# --------------------------------------------------------------------------

LARGE_DENSE_SHAPES = [[30, 30, 30], [20, 25, 6, 9], [150, 180], [27000], [30, 1, 30, 30]]
LARGE_SPARSE_SHAPES = [[40, 40, 40], [30, 50, 35], [250, 300], [25, 20, 10, 12], [60000], [40, 1, 40, 40]]
_LARGE = {}


def _large_case(kind):
    """strategy of compact cases dict(big=dict(seed, kind, simplest), shape, split, copy)"""
    from ._live import run_salt

    @st.composite
    def strat(draw, tier):
        raw = draw(st.integers(0, 2**32 - 1))
        shapes = LARGE_DENSE_SHAPES if kind == "dense" else LARGE_SPARSE_SHAPES
        shape = shapes[draw(st.integers(0, len(shapes) - 1))]
        return dict(big=dict(seed=(raw ^ run_salt()) & 0xFFFFFFFF, kind=kind, simplest=raw == 0), shape=list(shape),
                    split=draw(split_spec(len(shape))), copy=draw(st.booleans()))

    return strat


def _expand_large(case):
    key = json.dumps(case, sort_keys=True)
    if key in _LARGE:
        return _LARGE[key]
    rs = np.random.RandomState(case["big"]["seed"])
    shape = case["shape"]
    n = ref.prod(shape)
    vkind = ["int", "float"][rs.randint(2)]
    if case["big"]["kind"] == "dense":
        data = np.round(rs.uniform(-6, 6, size=n)) if vkind == "int" else rs.uniform(-3, 3, size=n)
        data[rs.uniform(size=n) < [0.0, 0.3, 0.9][rs.randint(3)]] = 0.0
        out = dict(holder="tensor", shape=shape, data=[float(v) for v in data], vkind=vkind, pattern="some",
                   dtype=["float64", "float64", "int64" if vkind == "int" else "float32"][rs.randint(3)],
                   layout=["F", "C", "flat"][rs.randint(3)], prov="ctor", prov_k=int(rs.randint(10**4)))
    else:
        lo, hi = [(10001, 12000), (16385, 20000), (20001, 50000)][rs.randint(3)]
        nnz = min(int(rs.randint(lo, hi + 1)), int(0.8 * n))
        keys = np.sort(rs.choice(n, size=nnz, replace=False))
        subs = np.array(np.unravel_index(keys, tuple(shape), order="F")).T
        vals = rs.choice([-3.0, -2.0, -1.0, 1.0, 2.0, 3.0], size=nnz) if vkind == "int" else rs.uniform(0.5, 3, size=nnz)
        order = ["sorted", "reverse", "random"][rs.randint(3)]
        idx = np.arange(nnz) if order == "sorted" else (np.arange(nnz)[::-1] if order == "reverse" else rs.permutation(nnz))
        out = dict(holder="sptensor", shape=shape, subs=subs[idx].tolist(), vals=[float(v) for v in vals[idx]],
                   vkind=vkind, pattern="some", order=order, dtype=["float64", "int64" if vkind == "int" else "float64"][
                       rs.randint(2)], prov="ctor", prov_k=int(rs.randint(10**4)), shapekind=SHAPE_KINDS[rs.randint(
                           len(SHAPE_KINDS))], zsubs=[], zpos=[], junk=[])
    out["split"], out["copy"] = case["split"], case["copy"]
    if len(_LARGE) > 2:
        _LARGE.clear()
    _LARGE[key] = out
    return out


def _large_body(body):
    def run(ctx, case):
        if case["big"].get("simplest"):
            ctx.skip("simplest-example-is-the-same-in-every-shard")
        full = _expand_large(case)
        ctx.label("big-shape-" + "x".join(str(v) for v in case["shape"]))
        if "subs" in full:
            n = len(full["subs"])
            ctx.label("stored-" + ("<=12000" if n <= 12000 else ("<=20000" if n <= 20000 else ">20000")))
        body(ctx, full)

    return run


cell("C01/large/dense-to-sparse", strategy=_large_case("dense"), quick=2, thorough=6)(_large_body(dense_to_sparse))
cell("C01/large/tenmat", strategy=_large_case("dense"), quick=2, thorough=6)(_large_body(_tenmat_body))
cell("C01/large/sparse-to-dense", strategy=_large_case("sparse"), quick=2, thorough=6)(_large_body(sparse_to_dense))
cell("C01/large/sptenmat", strategy=_large_case("sparse"), quick=2, thorough=6)(_large_body(_sptenmat_body))


HUGE_MODES = [2**40 + 7, 2**45 + 1, 2**53 + 5, 2**53 + 5, 2**60 + 1, 2**62]  # (an accidental dense result fails at once)
SMALL_MODES = [1, 2, 3, 5]


@st.composite
def _huge_case(draw, tier):
    """sparse tensor with 1..4 modes at least one of which is longer than 2**40 / 2**53 / 2**60, 0..6 stored entries
    whose subscripts sit at the ends of the modes and just above 2**53, and an ordered mode split both sides of which
    have fewer than 2**63 rows / columns (the whole tensor may have more cells than that)"""
    N = draw(st.integers(1, 4))
    for _ in range(20):
        shape = [draw(st.sampled_from(HUGE_MODES + SMALL_MODES)) for _ in range(N)]
        if max(shape) < 2**40:
            shape[draw(st.integers(0, N - 1))] = draw(st.sampled_from(HUGE_MODES))
        rd, cd = draw(gen.ordered_partition(N))
        if ref.prod(shape[d] for d in rd) < 2**63 and ref.prod(shape[d] for d in cd) < 2**63:
            break
    else:
        shape, rd, cd = [2**53 + 5] + [2] * (N - 1), [0], list(range(1, N))
    k = draw(st.integers(0, 6))
    subs = set()
    for _ in range(k):
        row = []
        for n in shape:
            how = draw(st.sampled_from(["zero", "last", "last", "near-last", "above-2^53", "above-2^40", "any"]))
            v = {"zero": 0, "last": n - 1, "near-last": max(0, n - 1 - draw(st.integers(1, 3))), "above-2^53": 2**53 + draw(
                st.integers(0, 3)), "above-2^40": 2**40 + draw(st.integers(0, 3))}.get(how)
            if v is None or v >= n:
                v = draw(st.integers(0, n - 1))
            row.append(int(v))
        subs.add(tuple(row))
    subs = [list(r) for r in draw(st.permutations(sorted(subs)))]
    vals = draw(st.lists(gen.NZ_INT_VALUES, min_size=len(subs), max_size=len(subs)))
    return dict(shape=shape, rdims=rd, cdims=cd, subs=subs, vals=vals,
                form=draw(st.sampled_from(["both", "both", "rdims", "cdims"])))


def _sp_entries(S):
    return {tuple(int(i) for i in r): float(v) for r, v in zip(np.asarray(S.subs).reshape(-1, len(S.shape)),
                                                              np.asarray(S.vals).reshape(-1))} if S.subs.size else {}


def _check_huge_sptensor(ctx, S, case, what):
    want = {tuple(r): float(v) for r, v in zip(case["subs"], case["vals"])}
    ctx.require(isinstance(S, ttb.sptensor), f"{what}-returns-sptensor", type(S).__name__)
    ctx.check([int(n) for n in S.shape] == case["shape"], f"{what}-shape", f"{S.shape} vs {case['shape']}")
    ctx.check(S.nnz == len(want), f"{what}-nnz", f"{S.nnz} vs {len(want)}")
    ok = not S.subs.size or (np.issubdtype(S.subs.dtype, np.integer) and S.subs.shape == (len(case["subs"]), len(case["shape"])))
    ctx.require(ok, f"{what}-subs-integer-array", f"{S.subs.dtype} {S.subs.shape}")
    got = _sp_entries(S)
    ctx.check(got == want, f"{what}-entries", f"{sorted(got.items())[:4]} vs {sorted(want.items())[:4]}")


def _check_huge_sptenmat(ctx, M, case, what):
    shape, rd, cd = case["shape"], case["rdims"], case["cdims"]
    ctx.require(isinstance(M, ttb.sptenmat), f"{what}-returns-sptenmat", type(M).__name__)
    ctx.check(_ints(M.rdims) == rd and _ints(M.cdims) == cd, f"{what}-split", f"{M.rdims} {M.cdims} vs {rd} {cd}")
    ctx.check(_shape_of_t(M.tshape) == tuple(shape), f"{what}-tshape", f"{M.tshape}")
    shape2 = (ref.prod(shape[d] for d in rd), ref.prod(shape[d] for d in cd))
    ctx.check(tuple(int(v) for v in M.shape) == shape2, f"{what}-matrix-shape", f"{M.shape} vs {shape2}")
    want = {(ref.lin_index([s[d] for d in rd], [shape[d] for d in rd]), ref.lin_index([s[d] for d in cd], [shape[d] for d in cd])):
            float(v) for s, v in zip(case["subs"], case["vals"])}
    ctx.check(M.nnz == len(want), f"{what}-nnz", f"{M.nnz} vs {len(want)}")
    if M.subs.size:
        ctx.require(np.issubdtype(M.subs.dtype, np.integer) and M.subs.ndim == 2 and M.subs.shape[1] == 2,
                    f"{what}-subs-integer-array", f"{M.subs.dtype} {M.subs.shape}")
        got = {(int(r[0]), int(r[1])): float(v) for r, v in zip(M.subs, np.asarray(M.vals).reshape(-1))}
    else:
        got = {}
    ctx.check(got == want, f"{what}-index-formula", f"{sorted(got.items())[:3]} vs {sorted(want.items())[:3]}")
    return want


@cell("C01/huge/sptenmat", strategy=_huge_case, quick=150, thorough=3000)
def huge_sptenmat(ctx, case):
    """sparse <-> sparse-matricized on modes longer than 2**40 / 2**53 / 2**60 and more than 2**63 cells"""
    shape, rd, cd = case["shape"], case["rdims"], case["cdims"]
    N = len(shape)
    ctx.label(f"order{N}", "cells>2^63" if ref.prod(shape) >= 2**63 else "cells<2^63",
              "mode>2^53" if max(shape) > 2**53 else "mode<=2^53", f"nnz{min(len(case['subs']), 3)}",
              "subscript>2^53" if any(v > 2**53 for r in case["subs"] for v in r) else "subscripts<=2^53",
              "form-" + case["form"], "rows-empty" if not rd else ("cols-empty" if not cd else "both-sides"))
    ctx.nt = len(case["subs"]) >= 2 and N >= 2
    ia = lambda v: np.array(v, dtype=int)  # noqa: E731
    kw = dict(rdims=ia(rd), cdims=ia(cd)) if case["form"] == "both" else (
        dict(rdims=ia(rd)) if case["form"] == "rdims" else dict(cdims=ia(cd)))
    if case["form"] == "rdims":
        case = dict(case, cdims=[m for m in range(N) if m not in rd])
    elif case["form"] == "cdims":
        case = dict(case, rdims=[m for m in range(N) if m not in cd])
    if ref.prod(shape[d] for d in case["rdims"]) >= 2**63 or ref.prod(shape[d] for d in case["cdims"]) >= 2**63:
        ctx.skip("a side of the split has 2**63 or more rows / columns")
    with ctx.sut("sptensor()"):
        if case["subs"]:
            S = ttb.sptensor(np.array(case["subs"], dtype=np.int64).reshape(-1, N),
                             np.array(case["vals"], dtype=float).reshape(-1, 1), tuple(shape))
        else:
            S = ttb.sptensor(shape=tuple(shape))
    _check_huge_sptensor(ctx, S, case, "sptensor()")
    live = Live(ctx)
    live.keep("operand", S)
    with ctx.sut("sptensor.to_sptenmat"):
        M = S.to_sptenmat(**kw)
    want = _check_huge_sptenmat(ctx, M, case, "to_sptenmat")
    live.keep("to_sptenmat", M)
    live.keep("sptenmat.to_sptensor", _stage(ctx, "sptenmat.to_sptensor", M.to_sptensor,
                                             lambda S2: _check_huge_sptensor(ctx, S2, case, "sptenmat.to_sptensor")))
    live.keep("sptenmat.copy", _stage(ctx, "sptenmat.copy", M.copy, lambda Mc: _check_huge_sptenmat(ctx, Mc, case, "sptenmat.copy")))
    live.keep("sptensor.copy", _stage(ctx, "sptensor.copy", S.copy, lambda S2: _check_huge_sptensor(ctx, S2, case, "sptensor.copy")))
    if want:
        rc = sorted(want)
        if len(rc) > 1 and case["vals"][0] > 0:
            rc = rc[::-1]

        def ctor():
            return ttb.sptenmat(np.array([list(k) for k in rc], dtype=np.int64).reshape(-1, 2),
                                np.array([want[k] for k in rc]).reshape(-1, 1), tshape=tuple(shape), **kw)

        M2 = _stage(ctx, "sptenmat()", ctor, lambda M2: _check_huge_sptenmat(ctx, M2, case, "sptenmat()"))
        if M2 is not None:
            _stage(ctx, "sptenmat().to_sptensor", M2.to_sptensor,
                   lambda S2: _check_huge_sptensor(ctx, S2, case, "sptenmat().to_sptensor"))
    live.judge("later-conversions")
    live.edit_all()


# --------------------------------------------------------------------------
# predicates for known findings
# --------------------------------------------------------------------------


def _split_sides(case):
    N = len(case["shape"])
    return expected_split(N, case["split"])


def _case_nnz(case):
    if "subs" in case:
        return len(case["subs"])
    return sum(1 for v in _enum_data(case["shape"]) if v != 0)  # C01/split/enumerated


PREDICATES = {
    "order1": lambda c: len(c["shape"]) == 1,
    "sum_has_order1_ktensor": lambda c: len(c["shape"]) == 1 and any(p["holder"] == "ktensor" for p in c["parts"]),
    "empty_side_and_nonzeros": lambda c: (not _split_sides(c)[0] or not _split_sides(c)[1]) and _case_nnz(c) > 0,
    "no_nonzeros": lambda c: _case_nnz(c) == 0,
    "from_csc": lambda c: c.get("source") == "csc",
    "from_coo_zero": lambda c: c.get("source") == "coo-zero",
    "order1_sparse_core": lambda c: len(c["shape"]) == 1 and bool(c["sparse_core"]) and any(v != 0 for v in c["core"]),
    "sum_has_order1_sparse_core_ttensor": lambda c: len(c["shape"]) == 1 and any(
        p["holder"] == "ttensor" and p["sparse_core"] and any(v != 0 for v in p["core"]) for p in c["parts"]),
    "ttensor_coo_factor_nocopy": lambda c: c.get("kind") == "ttensor" and c.get("copy") is False and any(
        "coo" in f for f in c.get("fforms", [])),
}

from . import _c01_present  # noqa: E402,F401  (round 4: cells C01/present/*)
