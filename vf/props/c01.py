"""C01 — converting between tensor representations preserves the tensor.

Every cell builds one object from a JSON case, computes in plain NumPy the N-way
array it denotes (from the *case*, not from pyttb), converts the object with the
public conversion methods and compares what the result denotes (``ref.den``:
public attributes only) and what it reports (shape, ndims, nnz, row/column
modes, tshape) with that array.
"""

from __future__ import annotations

import itertools
import logging

import numpy as np
from hypothesis import strategies as st

import pyttb as ttb

from .. import gen, ref
from ..core import Abort, cell

logging.getLogger().setLevel(logging.ERROR)  # pyttb logs a warning for every copy=False it cannot honour

PROPERTY = "C01"
RULE = (
    "cases = (holder data [dense: zero pattern none/one/some/all, values integer / bounded float / full-range "
    "double, dtype float64/int64/bool, C/F/flat input layout; sparse: the same patterns stored in sorted / reversed / "
    "random order; Kruskal rank 1..4 with zero/negative weights; Tucker dense or sparse core; sums of 1..3 parts of the "
    "four kinds], and for matricizations a mode split given as (rdims,cdims) | rdims only | cdims only | "
    "('fc'|'bc'|'t', n)); all ordered partitions of <=4 modes (<=5 thorough) are enumerated for fixed shapes. "
    "Oracle = the array computed in NumPy from the case (einsum for Kruskal/Tucker, the first-listed-mode-fastest index "
    "formula for matricizations); exact equality for data movement, integer data exact / 64*n*eps*|.|-einsum bound "
    "for Kruskal, Tucker and sums.  Non-trivial: N>=2, >=2 distinct entries in the denoted array, and for "
    "matricizations a split other than ([0],[1..N-1]) on a cubical shape."
)
ASSUMPTIONS = [
    "den(object) is reconstructed from public attributes only (vf/ref.py); the expected array comes from the case",
    "Kruskal/Tucker/sum results: exact for integer-valued data, otherwise |got-ref| <= 64*n*eps*einsum(|.|) with n = "
    "number of summed terms (rank, core cells, or their sum over the parts)",
    "NaN/inf are not real numbers and are not generated; -0.0 == 0.0 accepted",
    "find()/to_sptensor(): the set of (subscript, value) pairs is checked, not their order",
]


def tup(shape):
    return tuple(int(s) for s in shape)


def _ints(x):
    """list of python ints from an array-like of integer-valued entries, else None (never raises)"""
    try:
        a = np.asarray(x)
        if a.size == 0:
            return []
        if a.ndim != 1:
            return None
        if not (np.issubdtype(a.dtype, np.integer) or np.all(a == np.round(a))):
            return None
        return [int(v) for v in a]
    except Exception:  # noqa: BLE001
        return None


def _shape_of(x):
    try:
        return tup(x.shape)
    except Exception:  # noqa: BLE001
        return None


def _nt_array(A):
    return A.ndim >= 2 and len(np.unique(A)) >= 2


# --------------------------------------------------------------------------
# value / holder strategies (local: wide-range doubles, dtypes, layouts)
# --------------------------------------------------------------------------

WIDE = st.floats(allow_nan=False, allow_infinity=False, width=64).filter(lambda v: v != 0.0)
EXTREMES = st.sampled_from([5e-324, -5e-324, 2.2250738585072014e-308, 1.7976931348623157e308,
                            -1.7976931348623157e308, 1.0000000000000002, -0.1, 3.0])


def _nz(vkind):
    if vkind == "wide":
        return st.one_of(WIDE, EXTREMES)
    return gen.values(vkind, nonzero=True)


def _pattern(draw, n, pattern, vkind):
    if n == 0:
        return []
    if pattern == "none":
        return [0.0] * n
    if pattern == "all":
        return draw(st.lists(_nz(vkind), min_size=n, max_size=n))
    if pattern == "one":
        pos = draw(st.integers(0, n - 1))
        out = [0.0] * n
        out[pos] = draw(_nz(vkind))
        return out
    mask = draw(st.lists(st.booleans(), min_size=n, max_size=n))
    vals = draw(st.lists(_nz(vkind), min_size=n, max_size=n))
    return [v if m else 0.0 for m, v in zip(mask, vals)]


@st.composite
def dense_holder(draw, tier, shape=None, kinds=("int", "float", "wide"), **kw):
    if shape is None:
        shape = draw(gen.shapes(tier, **kw))
    vkind = draw(st.sampled_from(list(kinds)))
    pattern = draw(st.sampled_from(["none", "one", "some", "all"]))
    data = _pattern(draw, ref.prod(shape), pattern, vkind)
    dtype = "float64"
    if vkind == "int":
        dtype = draw(st.sampled_from(["float64", "int64", "bool"]))
    layout = draw(st.sampled_from(["F", "C", "flat"]))
    return dict(holder="tensor", shape=list(shape), data=data, vkind=vkind, pattern=pattern, dtype=dtype,
                layout=layout)


def dense_array(case):
    """(array as handed to pyttb, float array it denotes)"""
    A = gen.arr_F(case["shape"], case["data"])
    dt = case.get("dtype", "float64")
    if dt == "bool":
        B = A != 0
    elif dt == "int64":
        B = A.astype(np.int64)
    else:
        B = A.copy()
    return B, B.astype(float)


def build_dense(case):
    B, A = dense_array(case)
    lay = case.get("layout", "F")
    if lay == "C":
        X = ttb.tensor(np.ascontiguousarray(B))
    elif lay == "flat":
        X = ttb.tensor(np.ravel(B, order="F").copy(), tuple(case["shape"]))
    else:
        X = ttb.tensor(np.asfortranarray(B), tuple(case["shape"]))
    return X, A


@st.composite
def sparse_holder(draw, tier, shape=None, kinds=("int", "float", "wide"), **kw):
    if shape is None:
        shape = draw(gen.shapes(tier, **kw))
    vkind = draw(st.sampled_from(list(kinds)))
    pattern = draw(st.sampled_from(["none", "one", "some", "all"]))
    flat = _pattern(draw, ref.prod(shape), pattern, vkind)
    entries = [(list(s), v) for s, v in zip(ref.all_subs_F(shape), flat) if v != 0.0]
    order = draw(st.sampled_from(["sorted", "reverse", "random"]))
    if order == "reverse":
        entries = entries[::-1]
    elif order == "random" and len(entries) > 1:
        p = draw(st.permutations(range(len(entries))))
        entries = [entries[i] for i in p]
    dtype = "float64"
    if vkind == "int":
        dtype = draw(st.sampled_from(["float64", "int64"]))
    return dict(holder="sptensor", shape=list(shape), subs=[e[0] for e in entries], vals=[e[1] for e in entries],
                vkind=vkind, pattern=pattern, order=order, dtype=dtype)


def build_sparse(case):
    shape = tuple(case["shape"])
    A = gen.dense_of_sparse_case(case)
    if len(case["subs"]) == 0:
        return ttb.sptensor(shape=shape), A
    subs = np.array(case["subs"], dtype=int).reshape(len(case["subs"]), len(shape))
    vals = np.array(case["vals"], dtype=float).reshape(-1, 1)
    if case.get("dtype") == "int64":
        vals = vals.astype(np.int64)
    return ttb.sptensor(subs, vals, shape), A


def _stage(ctx, what, call, check=None):
    """Run one conversion and its checks; a failure inside is recorded but does not hide the later stages."""
    try:
        with ctx.sut(what):
            r = call()
        if check is not None:
            check(r)
        return r
    except Abort:
        return None


def _labels(ctx, case):
    ctx.label(*gen.shape_classes(case["shape"]), "pattern-" + case.get("pattern", "?"), "v-" + case.get("vkind", "?"))
    if "order" in case:
        ctx.label("stored-" + case["order"])
    if "layout" in case:
        ctx.label("layout-" + case["layout"], "dtype-" + case["dtype"])


def _check_sptensor(ctx, S, A, what, exact_nnz=True):
    """S must be a well-formed sptensor denoting A and reporting A's shape / nnz."""
    ctx.require(isinstance(S, ttb.sptensor), f"{what}-returns-sptensor", type(S).__name__)
    probs = ref.sptensor_problems(S)
    ctx.require(not probs, f"{what}-wellformed", probs)
    ctx.check(tup(S.shape) == A.shape, f"{what}-shape", f"{S.shape} vs {A.shape}")
    ctx.check(S.ndims == A.ndim, f"{what}-ndims", S.ndims)
    if exact_nnz:
        ctx.check(S.nnz == int(np.count_nonzero(A)), f"{what}-nnz", f"{S.nnz} vs {np.count_nonzero(A)}")
    if tup(S.shape) == A.shape:
        d = ref.den(S)
        ctx.check(ref.same_exact(d, A), f"{what}-denotes", ref.diff_info(d, A))


def _check_tensor(ctx, D, A, what, cmp=None):
    ctx.require(isinstance(D, ttb.tensor), f"{what}-returns-tensor", type(D).__name__)
    ctx.require(isinstance(D.data, np.ndarray), f"{what}-data-ndarray", type(D.data).__name__)
    ctx.check(tup(D.shape) == A.shape and D.data.shape == A.shape, f"{what}-shape",
              f"{D.shape}/{D.data.shape} vs {A.shape}")
    ctx.check(D.ndims == A.ndim, f"{what}-ndims", D.ndims)
    if D.data.shape == A.shape:
        d = ref.den(D)
        ok = ref.same_exact(d, A) if cmp is None else cmp(d)
        ctx.check(ok, f"{what}-denotes", ref.diff_info(d, A))
        if cmp is None:
            ctx.check(D.nnz == int(np.count_nonzero(A)), f"{what}-nnz", f"{D.nnz} vs {np.count_nonzero(A)}")


def _check_ndarray(ctx, a, A, what, cmp=None):
    ctx.require(isinstance(a, np.ndarray), f"{what}-returns-ndarray", type(a).__name__)
    ctx.check(a.dtype == np.float64, f"{what}-float64", str(a.dtype))
    ctx.check(a.shape == A.shape, f"{what}-shape", f"{a.shape} vs {A.shape}")
    if a.shape == A.shape:
        ok = ref.same_exact(a, A) if cmp is None else cmp(np.asarray(a, dtype=float))
        ctx.check(ok, f"{what}-denotes", ref.diff_info(a, A))


# --------------------------------------------------------------------------
# 1. dense -> sparse -> dense
# --------------------------------------------------------------------------


@cell("C01/dense/to_sptensor", strategy=lambda tier: dense_holder(tier, min_order=1), quick=600, thorough=12000)
def dense_to_sparse(ctx, case):
    X, A = build_dense(case)
    _labels(ctx, case)
    ctx.nt = _nt_array(A)
    # what the dense holder itself reports
    ctx.check(tup(X.shape) == A.shape and X.ndims == A.ndim, "tensor-shape")
    ctx.check(ref.same_exact(ref.den(X), A), "tensor-constructor-denotes", ref.diff_info(ref.den(X), A))
    n = int(np.count_nonzero(A))
    _stage(ctx, "tensor.nnz", lambda: X.nnz, lambda nz: ctx.check(nz == n, "tensor-nnz", f"{nz} vs {n}"))
    _stage(ctx, "tensor.double", X.double, lambda a: _check_ndarray(ctx, a, A, "tensor.double"))
    _stage(ctx, "tensor.full", X.full, lambda F: _check_tensor(ctx, F, A, "tensor.full"))

    # find(): exactly the nonzeros, each with its value
    def chk_find(r):
        ctx.require(isinstance(r, tuple) and len(r) == 2 and all(isinstance(x, np.ndarray) for x in r),
                    "find-returns-arrays")
        subs, vals = r
        ctx.require(subs.shape == (n, A.ndim) and vals.shape == (n, 1), "find-shapes",
                    f"{subs.shape} {vals.shape} n={n}")
        if n:
            ctx.require(np.issubdtype(subs.dtype, np.integer), "find-subs-integer", str(subs.dtype))
            got = {tuple(int(i) for i in r): float(v) for r, v in zip(subs, vals[:, 0])}
            want = {tuple(int(i) for i in r): float(A[tuple(r)]) for r in np.argwhere(A != 0)}
            ctx.check(len(got) == n and got == want, "find-lists-the-nonzeros")

    _stage(ctx, "tensor.find", X.find, chk_find)
    # dense -> sparse
    S = _stage(ctx, "tensor.to_sptensor", X.to_sptensor, lambda S: _check_sptensor(ctx, S, A, "to_sptensor"))
    if S is not None:
        # ... and back, three ways
        _stage(ctx, "sptensor.full", S.full, lambda D: _check_tensor(ctx, D, A, "to_sptensor.full"))
        _stage(ctx, "sptensor.to_tensor", S.to_tensor, lambda D: _check_tensor(ctx, D, A, "to_sptensor.to_tensor"))
        _stage(ctx, "sptensor.double", S.double, lambda a: _check_ndarray(ctx, a, A, "to_sptensor.double"))
    # the operand is untouched by the conversions
    ctx.check(ref.same_exact(ref.den(X), A), "operand-unchanged")


# --------------------------------------------------------------------------
# 2. sparse (any stored order) -> dense -> sparse
# --------------------------------------------------------------------------


@cell("C01/sparse/full", strategy=lambda tier: sparse_holder(tier, min_order=1), quick=600, thorough=12000)
def sparse_to_dense(ctx, case):
    S, A = build_sparse(case)
    _labels(ctx, case)
    ctx.nt = _nt_array(A)
    ctx.check(tup(S.shape) == A.shape and S.ndims == A.ndim, "sptensor-shape")
    n = len(case["subs"])
    _stage(ctx, "sptensor.nnz", lambda: S.nnz, lambda nz: ctx.check(nz == n, "sptensor-nnz", f"{nz} vs {n}"))
    D1 = _stage(ctx, "sptensor.full", S.full, lambda D: _check_tensor(ctx, D, A, "full"))
    _stage(ctx, "sptensor.to_tensor", S.to_tensor, lambda D: _check_tensor(ctx, D, A, "to_tensor"))
    _stage(ctx, "sptensor.double", S.double, lambda a: _check_ndarray(ctx, a, A, "double"))
    if D1 is not None:
        _stage(ctx, "tensor.to_sptensor", D1.to_sptensor, lambda S2: _check_sptensor(ctx, S2, A, "full.to_sptensor"))
    if len(case["shape"]) == 2:

        def chk_sp(m):
            ctx.require(hasattr(m, "toarray") and hasattr(m, "nnz"), "spmatrix-returns-scipy-sparse",
                        type(m).__name__)
            ctx.check(tup(m.shape) == A.shape, "spmatrix-shape", m.shape)
            ctx.check(ref.same_exact(np.asarray(m.toarray()), A), "spmatrix-denotes")
            ctx.check(int(m.nnz) == n, "spmatrix-nnz", m.nnz)

        _stage(ctx, "sptensor.spmatrix", S.spmatrix, chk_sp)
    ctx.check(ref.same_exact(ref.den(S), A) and S.nnz == len(case["subs"]), "operand-unchanged")


# --------------------------------------------------------------------------
# 3. Kruskal -> dense
# --------------------------------------------------------------------------


def _kt_ref(case):
    w = np.array(case["weights"], dtype=float)
    fm = [np.array(f, dtype=float).reshape(n, case["rank"]) for f, n in zip(case["factors"], case["shape"])]
    return ref.den_kruskal(w, fm), ref.abs_kruskal(w, fm)


def _cmp_sum(A, B, nterms, exact):
    if exact:
        return lambda d: ref.same_exact(d, A)
    return lambda d: ref.same_bound(d, A, B, nterms)


@cell("C01/ktensor/full", strategy=lambda tier: gen.ktensor_case(tier, min_order=1), quick=500, thorough=10000)
def ktensor_full(ctx, case):
    A, B = _kt_ref(case)
    K = gen.build_ktensor(case)
    ctx.label(*gen.shape_classes(case["shape"]), f"rank{case['rank']}", "v-" + case["vkind"])
    ctx.nt = _nt_array(A)
    cmp = _cmp_sum(A, B, case["rank"], case["vkind"] == "int")
    ctx.check(tup(K.shape) == A.shape and K.ndims == A.ndim, "ktensor-shape", K.shape)
    _stage(ctx, "ktensor.full", K.full, lambda D: _check_tensor(ctx, D, A, "full", cmp))
    _stage(ctx, "ktensor.to_tensor", K.to_tensor, lambda D: _check_tensor(ctx, D, A, "to_tensor", cmp))
    _stage(ctx, "ktensor.double", K.double, lambda a: _check_ndarray(ctx, a, A, "double", cmp))
    ok = np.array_equal(K.weights, np.array(case["weights"])) and all(
        np.array_equal(f, np.array(g, dtype=float).reshape(f.shape)) for f, g in zip(K.factor_matrices, case["factors"]))
    ctx.check(ok, "operand-unchanged")


# --------------------------------------------------------------------------
# 4. Tucker -> dense
# --------------------------------------------------------------------------


def _tt_ref(case):
    core = gen.arr_F(case["cshape"], case["core"])
    fm = [np.array(f, dtype=float).reshape(s, c) for f, s, c in zip(case["factors"], case["shape"], case["cshape"])]
    return ref.den_tucker(core, fm), ref.den_tucker(np.abs(core), [np.abs(f) for f in fm])


@st.composite
def _ttensor_case(draw, tier):
    c = draw(gen.ttensor_case(tier, min_order=1))
    if c["sparse_core"]:
        # sparse core stored in a generated order
        core = gen.arr_F(c["cshape"], c["core"])
        sc = gen.sparse_case_from_dense(core)
        n = len(sc["subs"])
        c["core_perm"] = list(draw(st.permutations(range(n)))) if n > 1 else list(range(n))
    # factor matrices handed over as scipy COO matrices (the constructor documents both); zero-heavy so that the
    # sparse core's ttm result stays sparse and full() has to densify it
    c["sparse_factors"] = draw(st.booleans()) and draw(st.booleans())
    if c["sparse_factors"]:
        for f in c["factors"]:
            for row in f:
                keep = draw(st.lists(st.booleans(), min_size=len(row), max_size=len(row)))
                for j, k in enumerate(keep):
                    if not k:
                        row[j] = 0.0
    return c


def build_ttensor(case):
    from scipy import sparse

    core = gen.arr_F(case["cshape"], case["core"])
    fm = [np.array(f, dtype=float).reshape(s, c) for f, s, c in zip(case["factors"], case["shape"], case["cshape"])]
    if case.get("sparse_factors"):
        fm = [sparse.coo_matrix(f) for f in fm]
    if case.get("sparse_core"):
        C = gen.build_sptensor(gen.sparse_case_from_dense(core, case.get("core_perm")))
    else:
        C = ttb.tensor(core.copy(order="F"), tuple(case["cshape"]))
    return ttb.ttensor(C, fm)


@cell("C01/ttensor/full", strategy=_ttensor_case, quick=400, thorough=8000)
def ttensor_full(ctx, case):
    A, B = _tt_ref(case)
    T = build_ttensor(case)
    ctx.label(*gen.shape_classes(case["shape"]), "sparse-core" if case["sparse_core"] else "dense-core",
              "v-" + case["vkind"], "core-" + ("1" if ref.prod(case["cshape"]) == 1 else "n"),
              "coo-factors" if case.get("sparse_factors") else "ndarray-factors")
    ctx.nt = _nt_array(A)
    cmp = _cmp_sum(A, B, ref.prod(case["cshape"]), case["vkind"] == "int")
    ctx.check(tup(T.shape) == A.shape and T.ndims == A.ndim, "ttensor-shape", T.shape)
    _stage(ctx, "ttensor.full", T.full, lambda D: _check_tensor(ctx, D, A, "full", cmp))
    _stage(ctx, "ttensor.to_tensor", T.to_tensor, lambda D: _check_tensor(ctx, D, A, "to_tensor", cmp))
    _stage(ctx, "ttensor.double", T.double, lambda a: _check_ndarray(ctx, a, A, "double", cmp))
    _stage(ctx, "ttensor.reconstruct", T.reconstruct, lambda D: _check_tensor(ctx, D, A, "reconstruct", cmp))
    ctx.check(ref.same_exact(ref.den(T.core), gen.arr_F(case["cshape"], case["core"])), "operand-unchanged")


# --------------------------------------------------------------------------
# 5. sum -> dense
# --------------------------------------------------------------------------


@st.composite
def _kt_part(draw, tier, shape, vkind):
    c = draw(gen.ktensor_case(tier, kinds=(vkind,), shape=shape, max_rank=3))
    c["holder"] = "ktensor"
    return c


@st.composite
def _tt_part(draw, tier, shape, vkind):
    cshape = [draw(st.integers(1, 2)) for _ in shape]
    core = _pattern(draw, ref.prod(cshape), draw(st.sampled_from(["one", "some", "all"])), vkind)
    factors = [draw(st.lists(st.lists(gen.values(vkind), min_size=c, max_size=c), min_size=s, max_size=s))
               for s, c in zip(shape, cshape)]
    return dict(holder="ttensor", shape=list(shape), cshape=cshape, core=core, factors=factors, vkind=vkind,
                sparse_core=draw(st.booleans()))


@st.composite
def _sum_case(draw, tier):
    shape = draw(gen.shapes(tier, min_order=1, max_order=3 if tier == "quick" else 4))
    vkind = draw(st.sampled_from(["int", "float"]))
    k = draw(st.integers(1, 3))
    parts = []
    for _ in range(k):
        kind = draw(st.sampled_from(["tensor", "sptensor", "ktensor", "ttensor"]))
        if kind == "tensor":
            p = draw(dense_holder(tier, shape=shape, kinds=(vkind,)))
            p["dtype"], p["layout"] = "float64", "F"
        elif kind == "sptensor":
            p = draw(sparse_holder(tier, shape=shape, kinds=(vkind,)))
            p["dtype"] = "float64"
        elif kind == "ktensor":
            p = draw(_kt_part(tier, shape, vkind))
        else:
            p = draw(_tt_part(tier, shape, vkind))
        parts.append(p)
    return dict(shape=list(shape), vkind=vkind, parts=parts, via_add=draw(st.booleans()))


def _build_part(p):
    """(pyttb object, denoted array, abs-bound array, number of summed terms)"""
    h = p["holder"]
    if h == "tensor":
        X, A = build_dense(p)
        return X, A, np.abs(A), 1
    if h == "sptensor":
        X, A = build_sparse(p)
        return X, A, np.abs(A), 1
    if h == "ktensor":
        A, B = _kt_ref(p)
        return gen.build_ktensor(p), A, B, p["rank"]
    A, B = _tt_ref(p)
    return build_ttensor(p), A, B, ref.prod(p["cshape"])


@cell("C01/sumtensor/full", strategy=_sum_case, quick=400, thorough=8000)
def sumtensor_full(ctx, case):
    built = [_build_part(p) for p in case["parts"]]
    A = sum(b[1] for b in built)
    B = sum(b[2] for b in built)
    nterms = sum(b[3] for b in built) + len(built)
    kinds = [p["holder"] for p in case["parts"]]
    ctx.label(*gen.shape_classes(case["shape"]), f"parts{len(kinds)}", "first-" + kinds[0], *sorted(set(kinds)))
    ctx.nt = _nt_array(A) and len(kinds) >= 2
    cmp = _cmp_sum(A, B, nterms, case["vkind"] == "int")
    with ctx.sut("sumtensor"):
        if case["via_add"] and len(built) >= 2:
            Sm = ttb.sumtensor([built[0][0]])
            for b in built[1:]:
                Sm = Sm + b[0]
        else:
            Sm = ttb.sumtensor([b[0] for b in built])
    ctx.require(isinstance(Sm, ttb.sumtensor), "sumtensor-built")
    ctx.check(tup(Sm.shape) == A.shape and Sm.ndims == A.ndim, "sumtensor-shape", Sm.shape)
    _stage(ctx, "sumtensor.full", Sm.full, lambda D: _check_tensor(ctx, D, A, "full", cmp))
    _stage(ctx, "sumtensor.to_tensor", Sm.to_tensor, lambda D: _check_tensor(ctx, D, A, "to_tensor", cmp))
    _stage(ctx, "sumtensor.double", Sm.double, lambda a: _check_ndarray(ctx, a, A, "double", cmp))
    # converting must not change the parts
    ok = all(ref.same_bound(ref.den(p), b[1], b[2] + 1.0, b[3]) for p, b in zip(Sm.parts, built))
    ctx.check(ok, "parts-unchanged")


# --------------------------------------------------------------------------
# mode splits
# --------------------------------------------------------------------------


def expected_split(N, spec):
    """(rdims, cdims) a request must produce — from the documented conventions, independent of pyttb."""
    form = spec["form"]
    if form == "both":
        return list(spec["rdims"]), list(spec["cdims"])
    if form == "rdims":
        r = list(spec["rdims"])
        return r, [m for m in range(N) if m not in r]
    if form == "cdims":
        c = list(spec["cdims"])
        return [m for m in range(N) if m not in c], c
    n = spec["n"]
    if form == "fc":
        return [n], list(range(n + 1, N)) + list(range(0, n))
    if form == "bc":
        return [n], list(range(n - 1, -1, -1)) + list(range(N - 1, n, -1))
    if form == "t":
        return [m for m in range(N) if m != n], [n]
    raise ValueError(form)


def split_kwargs(spec):
    form = spec["form"]
    ia = lambda v: np.array(v, dtype=int)  # noqa: E731
    if form == "both":
        return dict(rdims=ia(spec["rdims"]), cdims=ia(spec["cdims"]))
    if form == "rdims":
        return dict(rdims=ia(spec["rdims"]))
    if form == "cdims":
        return dict(cdims=ia(spec["cdims"]))
    return dict(rdims=ia([spec["n"]]), cdims_cyclic=form)


@st.composite
def split_spec(draw, N):
    form = draw(st.sampled_from(["both", "both", "both", "rdims", "cdims", "fc", "bc", "t"]))
    if form in ("fc", "bc", "t"):
        return dict(form=form, n=draw(st.integers(0, N - 1)))
    r, c = draw(gen.ordered_partition(N))
    if form == "both":
        return dict(form=form, rdims=r, cdims=c)
    if form == "rdims":
        # a single row mode without a cyclic flag takes the same code path as several
        return dict(form=form, rdims=r)
    return dict(form=form, cdims=c)


def all_split_specs(N):
    out = [dict(form="both", rdims=r, cdims=c) for r, c in gen.ordered_partitions(N)]
    for k in range(N + 1):
        for sub in itertools.permutations(range(N), k):
            out.append(dict(form="rdims", rdims=list(sub)))
            out.append(dict(form="cdims", cdims=list(sub)))
    for n in range(N):
        for f in ("fc", "bc", "t"):
            out.append(dict(form=f, n=n))
    return out


def _nt_split(shape, rd, cd):
    N = len(shape)
    trivial = len(set(shape)) == 1 and rd == [0] and cd == list(range(1, N))
    return N >= 2 and not trivial


def _split_labels(ctx, spec, rd, cd):
    ctx.label("form-" + spec["form"], "rows-empty" if not rd else ("cols-empty" if not cd else "both-sides"),
              "ascending" if (rd == sorted(rd) and cd == sorted(cd)) else "unsorted-side")


def _check_tenmat(ctx, M, A, rd, cd, what, cmp=None):
    """M is a tenmat reporting split (rd, cd) of a tensor shaped like A and holding the formula matrix."""
    ctx.require(isinstance(M, ttb.tenmat), f"{what}-returns-tenmat", type(M).__name__)
    ctx.check(_ints(M.rindices) == rd, f"{what}-rindices", f"{M.rindices} vs {rd}")
    ctx.check(_ints(M.cindices) == cd, f"{what}-cindices", f"{M.cindices} vs {cd}")
    ctx.check(_shape_of_t(M.tshape) == A.shape, f"{what}-tshape", f"{M.tshape} vs {A.shape}")
    E = ref.matricize(A, rd, cd)
    ctx.require(isinstance(M.data, np.ndarray) and M.data.ndim == 2, f"{what}-data-2d")
    ctx.check(M.data.shape == E.shape and tup(M.shape) == E.shape, f"{what}-matrix-shape",
              f"{M.data.shape}/{M.shape} vs {E.shape}")
    if M.data.shape == E.shape:
        got = np.asarray(M.data, dtype=float)
        ok = ref.same_exact(got, E) if cmp is None else cmp(got, rd, cd)
        ctx.check(ok, f"{what}-index-formula", ref.diff_info(got, E))
    return E


def _shape_of_t(ts):
    try:
        return tuple(int(s) for s in ts)
    except Exception:  # noqa: BLE001
        return None


@st.composite
def _tenmat_case(draw, tier):
    c = draw(dense_holder(tier, min_order=1))
    if c["dtype"] == "bool":
        c["dtype"] = "int64"  # tenmat documents and asserts a *numeric* array; boolean tensors are outside its domain
    c["split"] = draw(split_spec(len(c["shape"])))
    c["copy"] = draw(st.booleans())
    return c


def _tenmat_body(ctx, case):
    X, A = build_dense(case)
    N = A.ndim
    spec = case["split"]
    rd, cd = expected_split(N, spec)
    _labels(ctx, case)
    _split_labels(ctx, spec, rd, cd)
    ctx.nt = _nt_array(A) and _nt_split(case["shape"], rd, cd)
    kw = split_kwargs(spec)
    with ctx.sut("tensor.to_tenmat"):
        M = X.to_tenmat(copy=case.get("copy", True), **kw)
    E = _check_tenmat(ctx, M, A, rd, cd, "to_tenmat")
    _stage(ctx, "tenmat.double", M.double, lambda a: _check_ndarray(ctx, a, E, "tenmat.double"))
    _stage(ctx, "tenmat.to_tensor", M.to_tensor, lambda D: _check_tensor(ctx, D, A, "tenmat.to_tensor"))
    Mt = _stage(ctx, "tenmat.ctranspose", M.ctranspose, lambda Mt: _check_tenmat(ctx, Mt, A, cd, rd, "ctranspose"))
    if Mt is not None:
        _stage(ctx, "tenmat.ctranspose.to_tensor", Mt.to_tensor,
               lambda D: _check_tensor(ctx, D, A, "ctranspose.to_tensor"))
    _stage(ctx, "tenmat.copy", M.copy, lambda Mc: _check_tenmat(ctx, Mc, A, rd, cd, "tenmat.copy"))
    # last: the no-copy form may share memory with M, so nothing is read from M afterwards
    _stage(ctx, "tenmat.to_tensor-nocopy", lambda: M.to_tensor(copy=False),
           lambda D: _check_tensor(ctx, D, A, "tenmat.to_tensor-nocopy"))
    ctx.check(ref.same_exact(ref.den(X), A), "operand-unchanged")


@cell("C01/tenmat/tensor", strategy=_tenmat_case, quick=600, thorough=12000)
def tenmat_tensor(ctx, case):
    _tenmat_body(ctx, case)


ENUM_SHAPES_QUICK = [(3,), (2, 3), (3, 3), (3, 2, 4), (2, 3, 1), (2, 3, 2, 2)]
ENUM_SHAPES_THOROUGH = [(1,), (1, 4), (2, 2, 2), (4, 1, 3), (1, 2, 3, 4), (3, 2, 1, 2), (2, 3, 2, 1, 2), (2, 1, 2, 3, 2)]


def _enum_data(shape):
    n = ref.prod(shape)
    return [float(((i * 7) % 11) - 3) if (i * 7) % 11 != 3 else 0.0 for i in range(n)]


def _enum_splits(tier):
    shapes = list(ENUM_SHAPES_QUICK) + (ENUM_SHAPES_THOROUGH if tier == "thorough" else [])
    for sh in shapes:
        for spec in all_split_specs(len(sh)):
            for holder in ("tensor", "sptensor"):
                yield dict(shape=list(sh), split=spec, holder=holder)


@cell("C01/split/enumerated", enum=_enum_splits, shards=(4, 16))
def split_enumerated(ctx, case):
    """every way of requesting every ordered mode split of fixed shapes, dense and sparse"""
    sh = case["shape"]
    data = _enum_data(sh)
    if case["holder"] == "tensor":
        _tenmat_body(ctx, dict(holder="tensor", shape=sh, data=data, vkind="int", pattern="some", dtype="float64",
                               layout="F", split=case["split"], copy=True))
    else:
        sc = gen.sparse_case_from_dense(gen.arr_F(sh, data))
        sc["subs"], sc["vals"] = sc["subs"][::-1], sc["vals"][::-1]
        sc.update(holder="sptensor", vkind="int", pattern="some", order="reverse", dtype="float64",
                  split=case["split"])
        _sptenmat_body(ctx, sc)


@st.composite
def _tenmat_ctor_case(draw, tier):
    c = draw(dense_holder(tier, min_order=1, kinds=("int", "float", "wide")))
    c["dtype"], c["layout"] = "float64", draw(st.sampled_from(["F", "C"]))
    N = len(c["shape"])
    r, cdims = draw(gen.ordered_partition(N))
    form = draw(st.sampled_from(["both", "both", "rdims", "cdims", "vector"]))
    if form == "vector":
        r, cdims = [], list(draw(st.permutations(range(N))))
    c["split"] = dict(form="both" if form == "vector" else form, rdims=r, cdims=cdims)
    if form == "rdims":
        c["split"] = dict(form="rdims", rdims=r)
    elif form == "cdims":
        c["split"] = dict(form="cdims", cdims=cdims)
    c["ctor"] = form
    c["copy"] = draw(st.booleans())
    return c


@cell("C01/tenmat/constructor", strategy=_tenmat_ctor_case, quick=500, thorough=10000)
def tenmat_constructor(ctx, case):
    """tenmat(data, rdims, cdims, tshape) built from the formula matrix must denote the tensor"""
    A = gen.arr_F(case["shape"], case["data"])
    N = A.ndim
    spec = case["split"]
    rd, cd = expected_split(N, spec)
    _labels(ctx, case)
    _split_labels(ctx, spec, rd, cd)
    ctx.label("ctor-" + case["ctor"])
    ctx.nt = _nt_array(A) and _nt_split(case["shape"], rd, cd)
    E = ref.matricize(A, rd, cd)
    data = np.ascontiguousarray(E) if case["layout"] == "C" else np.asfortranarray(E)
    kw = split_kwargs(spec)
    if case["ctor"] == "vector":
        data = E.reshape(-1).copy()
        kw = dict(cdims=kw["cdims"])
    with ctx.sut("tenmat()"):
        M = ttb.tenmat(data, tshape=tuple(case["shape"]), copy=case["copy"], **kw)
    _check_tenmat(ctx, M, A, rd, cd, "tenmat()")
    _stage(ctx, "tenmat.to_tensor", M.to_tensor, lambda D: _check_tensor(ctx, D, A, "tenmat().to_tensor"))


@st.composite
def _kt_tenmat_case(draw, tier):
    c = draw(gen.ktensor_case(tier, min_order=1))
    c["split"] = draw(split_spec(len(c["shape"])))
    return c


@cell("C01/tenmat/ktensor", strategy=_kt_tenmat_case, quick=300, thorough=6000)
def tenmat_ktensor(ctx, case):
    A, B = _kt_ref(case)
    K = gen.build_ktensor(case)
    spec = case["split"]
    rd, cd = expected_split(A.ndim, spec)
    ctx.label(*gen.shape_classes(case["shape"]), "v-" + case["vkind"])
    _split_labels(ctx, spec, rd, cd)
    ctx.nt = _nt_array(A) and _nt_split(case["shape"], rd, cd)
    exact = case["vkind"] == "int"

    def cmp(got, r, c):
        E = ref.matricize(A, r, c)
        return ref.same_exact(got, E) if exact else ref.same_bound(got, E, ref.matricize(B, r, c), case["rank"])

    with ctx.sut("ktensor.to_tenmat"):
        M = K.to_tenmat(**split_kwargs(spec))
    _check_tenmat(ctx, M, A, rd, cd, "to_tenmat", cmp)
    _stage(ctx, "tenmat.to_tensor", M.to_tensor,
           lambda D: _check_tensor(ctx, D, A, "tenmat.to_tensor", _cmp_sum(A, B, case["rank"], exact)))


# --------------------------------------------------------------------------
# 7. sparse matricization
# --------------------------------------------------------------------------


from ._spwf import sptenmat_problems  # noqa: E402


def _check_sptenmat(ctx, M, A, rd, cd, what):
    ctx.require(isinstance(M, ttb.sptenmat), f"{what}-returns-sptenmat", type(M).__name__)
    probs = sptenmat_problems(M)
    ctx.require(not probs, f"{what}-wellformed", probs)
    ctx.check(_ints(M.rdims) == rd, f"{what}-rdims", f"{M.rdims} vs {rd}")
    ctx.check(_ints(M.cdims) == cd, f"{what}-cdims", f"{M.cdims} vs {cd}")
    ctx.check(_shape_of_t(M.tshape) == A.shape, f"{what}-tshape", f"{M.tshape} vs {A.shape}")
    E = ref.matricize(A, rd, cd)
    ctx.check(tup(M.shape) == E.shape, f"{what}-matrix-shape", f"{M.shape} vs {E.shape}")
    ctx.check(M.nnz == int(np.count_nonzero(A)), f"{what}-nnz", f"{M.nnz} vs {np.count_nonzero(A)}")
    if _ints(M.rdims) == rd and _ints(M.cdims) == cd and _shape_of_t(M.tshape) == A.shape:
        G = np.zeros(E.shape)
        if M.subs.size:
            for r, v in zip(M.subs, np.asarray(M.vals).reshape(-1)):
                G[int(r[0]), int(r[1])] += v
        ctx.check(ref.same_exact(G, E), f"{what}-index-formula", ref.diff_info(G, E))
    return E


def _sptenmat_conversions(ctx, M, A, E, rd, cd, what):
    """sptenmat -> scipy sparse / dense tenmat / sptensor"""

    def chk_scipy(m):
        ctx.require(hasattr(m, "toarray") and hasattr(m, "nnz"), f"{what}.double-returns-scipy-sparse",
                    type(m).__name__)
        ctx.check(tup(m.shape) == E.shape, f"{what}.double-shape", f"{m.shape} vs {E.shape}")
        if tup(m.shape) == E.shape:
            ctx.check(ref.same_exact(np.asarray(m.toarray()), E), f"{what}.double-denotes")
        ctx.check(int(m.nnz) == int(np.count_nonzero(E)), f"{what}.double-nnz", m.nnz)

    _stage(ctx, "sptenmat.double", M.double, chk_scipy)
    _stage(ctx, "sptenmat.full", M.full, lambda Fm: _check_tenmat(ctx, Fm, A, rd, cd, f"{what}.full"))
    _stage(ctx, "sptenmat.to_sptensor", M.to_sptensor, lambda S2: _check_sptensor(ctx, S2, A, f"{what}.to_sptensor"))


@st.composite
def _sptenmat_case(draw, tier):
    c = draw(sparse_holder(tier, min_order=1))
    c["split"] = draw(split_spec(len(c["shape"])))
    return c


def _sptenmat_body(ctx, case):
    S, A = build_sparse(case)
    N = A.ndim
    spec = case["split"]
    rd, cd = expected_split(N, spec)
    _labels(ctx, case)
    _split_labels(ctx, spec, rd, cd)
    ctx.label("nnz0" if not case["subs"] else ("nnz1" if len(case["subs"]) == 1 else "nnz2+"))
    ctx.nt = _nt_array(A) and _nt_split(case["shape"], rd, cd)
    with ctx.sut("sptensor.to_sptenmat"):
        M = S.to_sptenmat(**split_kwargs(spec))
    E = _check_sptenmat(ctx, M, A, rd, cd, "to_sptenmat")
    _sptenmat_conversions(ctx, M, A, E, rd, cd, "sptenmat")
    _stage(ctx, "sptenmat.copy", M.copy, lambda Mc: _check_sptenmat(ctx, Mc, A, rd, cd, "sptenmat.copy"))
    ctx.check(ref.same_exact(ref.den(S), A) and S.nnz == len(case["subs"]), "operand-unchanged")


@cell("C01/sptenmat/sptensor", strategy=_sptenmat_case, quick=600, thorough=12000)
def sptenmat_sptensor(ctx, case):
    _sptenmat_body(ctx, case)


@st.composite
def _sptenmat_ctor_case(draw, tier):
    c = draw(sparse_holder(tier, min_order=1))
    c["dtype"] = "float64"
    N = len(c["shape"])
    r, cd = draw(gen.ordered_partition(N))
    form = draw(st.sampled_from(["both", "both", "rdims", "cdims"]))
    c["split"] = dict(form="both", rdims=r, cdims=cd) if form == "both" else (
        dict(form="rdims", rdims=r) if form == "rdims" else dict(form="cdims", cdims=cd))
    c["source"] = draw(st.sampled_from(["subs", "dense", "coo", "csr", "csc", "coo-dups", "coo-zero"]))
    c["extra"] = draw(st.integers(0, 10**6))  # which entry is split in two / where the explicit zero goes
    return c


@cell("C01/sptenmat/constructor", strategy=_sptenmat_ctor_case, quick=500, thorough=10000)
def sptenmat_constructor(ctx, case):
    """sptenmat(subs, vals, ...) / sptenmat.from_array(dense | scipy sparse, ...) built from the formula matrix"""
    from scipy import sparse

    A = gen.dense_of_sparse_case(case)
    N = A.ndim
    spec = case["split"]
    rd, cd = expected_split(N, spec)
    _labels(ctx, case)
    _split_labels(ctx, spec, rd, cd)
    ctx.label("source-" + case["source"], "nnz0" if not case["subs"] else ("nnz1" if len(case["subs"]) == 1 else "nnz2+"))
    ctx.nt = _nt_array(A) and _nt_split(case["shape"], rd, cd)
    E = ref.matricize(A, rd, cd)
    # (row, col, value) triples in the stored order of the case
    rows = [ref.lin_index([s[d] for d in rd], [case["shape"][d] for d in rd]) for s in case["subs"]]
    cols = [ref.lin_index([s[d] for d in cd], [case["shape"][d] for d in cd]) for s in case["subs"]]
    vals = np.array(case["vals"], dtype=float)
    kw = split_kwargs(spec)
    ts = tuple(case["shape"])
    src = case["source"]
    with ctx.sut(f"sptenmat-from-{src}"):
        if src == "subs":
            if rows:
                M = ttb.sptenmat(np.array([rows, cols], dtype=int).T.copy(), vals.reshape(-1, 1), tshape=ts, **kw)
            else:
                M = ttb.sptenmat(tshape=ts, **kw)
        elif src == "dense":
            M = ttb.sptenmat.from_array(E.copy(), tshape=ts, **kw)
        else:
            r_, c_, v_ = list(rows), list(cols), [float(v) for v in vals]
            if src == "coo-dups" and v_:
                # one entry given as two summands (2v and -v: exact in floating point)
                # (only for magnitudes where doubling neither overflows nor leaves the normal range)
                safe = [i for i, v in enumerate(v_) if 1e-300 < abs(v) < 1e300]
                if safe:
                    k = safe[case["extra"] % len(safe)]
                    r_.append(r_[k]), c_.append(c_[k]), v_.append(-v_[k])
                    v_[k] = 2.0 * v_[k]
            if src == "coo-zero":
                # an explicitly stored zero at a cell that is zero anyway: the matrix denotes the same array
                zs = np.argwhere(E == 0)
                if len(zs):
                    z = zs[case["extra"] % len(zs)]
                    pos = case["extra"] % (len(v_) + 1)
                    r_.insert(pos, int(z[0])), c_.insert(pos, int(z[1])), v_.insert(pos, 0.0)
            coo = sparse.coo_matrix((np.array(v_, dtype=float), (np.array(r_, dtype=int), np.array(c_, dtype=int))),
                                    shape=E.shape)
            m = coo.tocsr() if src == "csr" else (coo.tocsc() if src == "csc" else coo)
            M = ttb.sptenmat.from_array(m, tshape=ts, **kw)
    _check_sptenmat(ctx, M, A, rd, cd, "sptenmat()")
    _sptenmat_conversions(ctx, M, A, E, rd, cd, "sptenmat()")


# --------------------------------------------------------------------------
# predicates for known findings
# --------------------------------------------------------------------------


def _split_sides(case):
    N = len(case["shape"])
    return expected_split(N, case["split"])


def _case_nnz(case):
    if "subs" in case:
        return len(case["subs"])
    return sum(1 for v in _enum_data(case["shape"]) if v != 0)  # C01/split/enumerated


PREDICATES = {
    "order1": lambda c: len(c["shape"]) == 1,
    "sum_has_order1_ktensor": lambda c: len(c["shape"]) == 1 and any(p["holder"] == "ktensor" for p in c["parts"]),
    "empty_side_and_nonzeros": lambda c: (not _split_sides(c)[0] or not _split_sides(c)[1]) and _case_nnz(c) > 0,
    "no_nonzeros": lambda c: _case_nnz(c) == 0,
    "from_csc": lambda c: c.get("source") == "csc",
    "from_coo_zero": lambda c: c.get("source") == "coo-zero",
    "order1_sparse_core": lambda c: len(c["shape"]) == 1 and bool(c["sparse_core"]) and any(v != 0 for v in c["core"]),
    "sum_has_order1_sparse_core_ttensor": lambda c: len(c["shape"]) == 1 and any(
        p["holder"] == "ttensor" and p["sparse_core"] and any(v != 0 for v in p["core"]) for p in c["parts"]),
}
