"""Round-2 extensions of the C05 registry, applied to *every* registered operation by ``_c05_reg.op``:

1. derived operand states and storage dtypes.  After a cell's strategy has drawn its case, ``annotate`` walks the case
   and gives every tensor-like sub-case (dense: shape+data, sparse: shape+subs+vals, Kruskal: factors+weights+rank,
   Tucker: cshape+core+factors) a state ``_st`` (how the object comes into being: constructor, or a short history of
   public operations - growth by assignment, permute, explicitly stored zeros, numpy-int shape,
   normalize(weight_factor=k), a grown / zero-holding core ...; the builders are those of ``_c02_states``) and, for
   integer-valued data, a storage dtype ``_dt``.  The builders below replace ``gen.build_*`` in the C05 modules.
   ``_aux`` asks for integer / structured auxiliary arrays (vectors, matrices, factors: all ones, all zeros, a zero
   row), honoured by the helpers that build them.
2. state across calls (``_seq``): the operation is called a second time on the same (verified bit-identical)
   operands - the two results must be independent objects (a module-level or per-object cache would hand out the same
   arrays) and, for deterministic operations, equal; and, in a second history, the operation is primed, the value
   arrays of its operands are edited in place, and it is called again - the result must equal the result of the same
   call on freshly built operands edited the same way before any call (nothing remembered from before the edit).
"""

from __future__ import annotations

from typing import Any, Dict, List

import numpy as np
from hypothesis import strategies as st

import pyttb as ttb

from .. import gen, ref
from . import _c02_states as ST
from . import _c05_helpers as H

INT_DT = (None, None, "int64", "int32")
# (round 4, class 11) storage dtypes that need no integer-valued data: C05 never judges values against a reference, only
# bit-identity of operands, independence of results and agreement of two identical calls
ANY_DT = (None, None, None, None, None, "float32")

# (round 4, class 11) how a caller presents one array argument.  'coo' / 'csr' apply to matrices only.
ARRAY_FORMS = ("C", "F", "strided", "neg-strided", "readonly", "readonly-F", "float32", "int64", "int32")
FACTOR_FORMS = (None, None, None, "coo", "coo", "coo", "C", "F", "strided", "readonly", "readonly-F", "float32")
KFACTOR_FORMS = (None, None, None, None, "C", "F", "strided", "readonly", "readonly-F")  # (ktensor wants float64 factors)


def present(a, form):
    """the array ``a`` as a caller might hand it over: C- / Fortran-ordered, a strided or reversed view into a bigger
    buffer, read-only, single precision, an integer dtype (integer-valued data only), or - for a matrix - a
    scipy.sparse COO / CSR matrix.  The values are those of ``a`` (float32: rounded once)."""
    import scipy.sparse as sp

    a = np.asarray(a)
    if form is None:
        return a
    if form == "C":
        return np.ascontiguousarray(a)
    if form == "F":
        return np.asfortranarray(a)
    if form == "strided" and a.ndim >= 1:
        big = np.full(tuple(2 * n + 1 for n in a.shape), 9, dtype=a.dtype)
        v = big[tuple(slice(1, 2 * n + 1, 2) for n in a.shape)]
        v[...] = a
        return v
    if form == "neg-strided" and a.ndim >= 1:
        back = a[tuple(slice(None, None, -1) for _ in a.shape)].copy()
        return back[tuple(slice(None, None, -1) for _ in a.shape)]
    if form in ("readonly", "readonly-F"):
        b = np.array(a, order="F" if form == "readonly-F" else "C")
        b.setflags(write=False)
        return b
    if form == "float32" and a.dtype.kind == "f":
        return a.astype(np.float32)
    if form in ("int64", "int32") and a.dtype.kind == "f":
        return a.astype(np.dtype(form)) if a.size and np.all(np.isfinite(a)) and np.all(a == np.round(a)) and np.all(
            np.abs(a) < 2**31) else a
    if form == "coo" and a.ndim == 2:
        return sp.coo_matrix(a)
    if form == "csr" and a.ndim == 2:
        return sp.csr_matrix(a)
    return a


def present_label(a) -> str:
    import scipy.sparse as sp

    if sp.issparse(a):
        return "scipy-" + type(a).__name__
    a = np.asarray(a)
    out = "ro-" if not a.flags.writeable else ""
    out += "contig" if (a.flags["C_CONTIGUOUS"] or a.flags["F_CONTIGUOUS"]) else "strided"
    return out + ("" if a.dtype == np.float64 else "-" + str(a.dtype))


# --------------------------------------------------------------------------
# annotation of drawn cases
# --------------------------------------------------------------------------


def case_kind(c) -> str:
    if not isinstance(c, dict) or "shape" not in c:
        return ""
    if "factors" in c and "weights" in c and "rank" in c:
        return "ktensor"
    if "cshape" in c and "core" in c and "factors" in c:
        return "ttensor"
    if "subs" in c and "vals" in c:
        return "sptensor"
    if isinstance(c.get("data"), list) and len(c["data"]) == ref.prod(c["shape"]):
        return "tensor"
    return ""


def _intvalued(xs) -> bool:
    return all(float(x) == round(float(x)) for x in xs)


MAGS = (1e-9, 1e-12, 1e-10, 1e9, 1e12)


def rescale(c, k, f):
    """(round 3, classes 6 and 8) the tensor-like sub-case ``c`` in units of ``f``: values far below every absolute
    tolerance (1e-9 .. 1e-12) or far above one.  The values themselves are rewritten, so every builder sees them."""
    if k == "tensor":
        c["data"] = [v * f for v in c["data"]]
    elif k == "sptensor":
        c["vals"] = [v * f for v in c["vals"]]
    elif k == "ktensor":
        c["weights"] = [v * f for v in c["weights"]]
    elif k == "ttensor":
        c["core"] = [v * f for v in c["core"]]
    c["_mag"] = f


def annotate(draw, c, depth=0, mag=True):
    if not isinstance(c, dict) or depth > 6:
        return
    k = case_kind(c)
    shape = list(c.get("shape") or [])
    if mag and k and len(shape) >= 1 and draw(st.integers(0, 5)) == 0:
        rescale(c, k, draw(st.sampled_from(MAGS)))
    if k == "tensor" and len(shape) >= 1:
        c["_st"] = draw(ST.dense_state(shape))
        if not c.get("_mag") and _intvalued(c["data"]):
            c["_dt"] = draw(st.sampled_from(INT_DT))
        if not c.get("_dt") and not c.get("_mag"):
            c["_dt"] = draw(st.sampled_from(ANY_DT))
    elif k == "sptensor" and len(shape) >= 1:
        c["_st"] = draw(ST.sparse_state(shape, len(c["subs"])))
        if not c.get("_mag") and _intvalued(c["vals"]):
            c["_dt"] = draw(st.sampled_from(INT_DT))
        if not c.get("_dt") and not c.get("_mag"):
            c["_dt"] = draw(st.sampled_from(ANY_DT))
    elif k == "ktensor" and len(shape) >= 1:
        c["_st"] = draw(ST.kruskal_state(shape, c["rank"]))
        # (round 4, class 11) how the factor matrices are presented to the constructor (list / tuple; C- / F-ordered,
        # strided, read-only): all of that is over once the constructor has
        # copied - every object built must still be independent of what it was built from (judged in ktensor/ctor-copy)
        c["_fp"] = [draw(st.sampled_from(KFACTOR_FORMS)) for _ in shape]
        c["_fseq"] = draw(st.sampled_from(["list", "list", "tuple"]))
    elif k == "ttensor" and len(shape) >= 1:
        c["_st"] = draw(ST.tucker_state(dict(shape=shape, cshape=c["cshape"], core=c["core"], sparse_core=c.get("sparse_core"))))
        if not c.get("_mag") and _intvalued(c["core"]) and all(_intvalued(r) for f in c["factors"] for r in f):
            c["_dt"] = draw(st.sampled_from(INT_DT))  # core storage
            c["_fdt"] = [draw(st.sampled_from(INT_DT)) for _ in shape]  # factor matrices
        # (round 4, class 11) factor matrices as scipy.sparse COO matrices (accepted by the constructor; they stay COO
        # matrices inside the object, so every derived operation sees them), strided / read-only / C- or F-ordered /
        # float32 arrays, handed over in a list or a tuple
        c["_fp"] = [draw(st.sampled_from(FACTOR_FORMS)) for _ in shape]
        c["_fseq"] = draw(st.sampled_from(["list", "list", "tuple"]))
    for key in list(c):
        if key.startswith("_"):
            continue
        v = c[key]
        if isinstance(v, dict):
            annotate(draw, v, depth + 1, mag)
        elif isinstance(v, list):
            for x in v:
                if isinstance(x, dict):
                    annotate(draw, x, depth + 1, mag)


def annotated(strategy, seq=True, heavy=False):
    """tier -> strategy that draws the cell's case and then the round-2 annotations"""

    @st.composite
    def s(draw, tier):
        c = draw(strategy(tier))
        if isinstance(c, dict):
            # (the algorithms have preconditions on their data - counts, non-negativity - and run long on badly scaled
            # data: their cases keep magnitudes of order one)
            annotate(draw, c, mag=not heavy)
            c["_aux"] = draw(st.sampled_from([None, None, None, None, "int64", "ones", "zeros", "zero-row", "F-order", "strided",
                                              "identity", "near-identity", "tiny", "huge",
                                              # (round 4, class 11) presentations of the caller's vectors / matrices
                                              "readonly", "readonly", "float32", "int32", "neg-strided", "coo"]))
            # (round 4, class 13) process environment: the root logger at DEBUG (with a NullHandler) while the operation
            # runs - diagnostic output must not change what an operation does to its operands
            # (round 4, class 11) a list of multiplicands (ttv / ttm / mttkrp) handed over as a list or as a tuple
            c["_lseq"] = draw(st.sampled_from(["list", "list", "tuple"]))
            c["_log"] = draw(st.sampled_from([None, None, None, None, None, "debug"]))
            if seq:
                # second call on the same operands (most cases); primed-edit-call history (some)
                c["_seq"] = dict(again=(draw(st.integers(0, 3)) == 0) if heavy else (draw(st.integers(0, 3)) > 0),
                                 edit=draw(st.integers(0, 5 if heavy else 3)) == 0)
        return c

    return lambda tier: s(tier)


# --------------------------------------------------------------------------
# builders (replace gen.build_* in the C05 modules)
# --------------------------------------------------------------------------


def build_tensor(c):
    if "_st" not in c and "_dt" not in c:
        return gen.build_tensor(c)
    A = gen.arr_F(c["shape"], c["data"]).astype(np.dtype(c.get("_dt") or "float64"))
    return ST.build_dense(A, c.get("_st"))


def build_sptensor(c):
    if "_st" not in c and "_dt" not in c:
        return gen.build_sptensor(c)
    return ST.build_sparse(c["subs"], c["vals"], c["shape"], np.dtype(c.get("_dt") or "float64"), c.get("_st"),
                           gen.dense_of_sparse_case(c))


def build_ktensor(c):
    if "_st" not in c:
        return gen.build_ktensor(c)
    fm = [np.array(f, dtype=float).reshape(n, c["rank"]) for f, n in zip(c["factors"], c["shape"])]
    if (c["_st"] or {}).get("how", "ctor") == "ctor" and any(c.get("_fp") or []):
        fm = [present(f, p) for f, p in zip(fm, c["_fp"])]
        return ttb.ktensor(tuple(fm) if c.get("_fseq") == "tuple" else fm, np.array(c["weights"], dtype=float))
    return ST.build_kruskal(np.array(c["weights"], dtype=float), fm, c["_st"])


def tucker_factors(c):
    """the factor matrices of a Tucker case in the presentation the case asks for (``_fdt`` storage dtype, then ``_fp``)"""
    k = len(c["shape"])
    fm = [np.array(f, dtype=float).reshape(n, r).astype(np.dtype(d or "float64"))
          for f, n, r, d in zip(c["factors"], c["shape"], c["cshape"], c.get("_fdt") or [None] * k)]
    fm = [present(f, p) for f, p in zip(fm, c.get("_fp") or [None] * k)]
    return tuple(fm) if c.get("_fseq") == "tuple" else fm


def build_ttensor(c):
    if "_st" not in c:
        return gen.build_ttensor(c)
    s = c["_st"]
    core = gen.arr_F(c["cshape"], c["core"])
    fm = tucker_factors(c)
    cdt = np.dtype(c.get("_dt") or "float64")
    if c.get("sparse_core"):
        sc = gen.sparse_case_from_dense(core)
        if not sc["subs"]:
            return gen.build_ttensor(c)
        co = ST.build_sparse(sc["subs"], sc["vals"], c["cshape"], cdt, s.get("core"), core)
    else:
        co = ST.build_dense(core.astype(cdt), s.get("core"))
    if s.get("how") == "core-nocopy":
        # (an explicit no-copy construction wants a list of F-ordered arrays)
        # (copy=False with scipy COO factors fails in ttensor._matches_order: outside C05's claim, not generated)
        fm = [np.array(f.toarray() if not isinstance(f, np.ndarray) else f, order="F") for f in fm]
        return ttb.ttensor(co, fm, copy=False)
    return ttb.ttensor(co, fm)


def state_labels(c, prefix="") -> List[str]:
    """labels of the states asked for anywhere in the case"""
    out = []
    if isinstance(c, dict):
        k = case_kind(c)
        if k and "_st" in c:
            out.append(f"{prefix}state-{k}-{c['_st'].get('how', 'ctor')}")
            if k == "ttensor" and c["_st"].get("core"):
                out.append(f"{prefix}state-core-{c['_st']['core'].get('how', 'ctor')}")
        if k and c.get("_dt"):
            out.append(f"{prefix}dtype-{k}-{c['_dt']}")
        if k and c.get("_mag"):
            out.append(f"{prefix}mag-{k}-{c['_mag']:g}")
        if k in ("ttensor", "ktensor") and c.get("_fp"):
            out += [f"{prefix}factors-{k}-{p}" for p in c["_fp"] if p]
            if c.get("_fseq") == "tuple":
                out.append(f"{prefix}factors-{k}-in-tuple")
        for key, v in c.items():
            if key.startswith("_"):
                continue
            if isinstance(v, dict):
                out += state_labels(v, "arg:")
            elif isinstance(v, list):
                for x in v:
                    if isinstance(x, dict):
                        out += state_labels(x, "arg:")
    return sorted(set(out))


def object_labels(operands: Dict[str, Any]) -> List[str]:
    out = []
    for n, o in operands.items():
        out += ST.object_labels(o, "self:" if n == "self" else "arg:")
    out += sorted(set(ST.BUILD_NOTES))
    del ST.BUILD_NOTES[:]
    return sorted(set(out))


# --------------------------------------------------------------------------
# auxiliary arrays
# --------------------------------------------------------------------------


def seq(c, items):
    """a list of multiplicands as the case's ``_lseq`` asks: the list itself, or a tuple"""
    if isinstance(c, dict) and c.get("_lseq") == "tuple" and isinstance(items, list):
        return tuple(items)
    return items


PRESENT_ONLY = ("readonly", "float32", "int32", "int64", "neg-strided", "strided", "F-order")


def aux_present(c, a):
    """like ``aux``, restricted to the modes that keep the values (used for the values of an item assignment)"""
    return aux(c, a) if isinstance(c, dict) and c.get("_aux") in PRESENT_ONLY else a


def aux(c, a):
    """vector / matrix ``a`` as the case's ``_aux`` asks: integer dtype (integer-valued data only), all ones, all
    zeros, a zero first row, Fortran order or a strided view; unchanged otherwise"""
    m = c.get("_aux") if isinstance(c, dict) else None
    a = np.asarray(a)
    if m is None or a.dtype.kind != "f":
        return a
    if m == "int64":
        return a.astype(np.int64) if a.size and np.all(a == np.round(a)) else a
    if m == "ones":
        return np.ones_like(a)
    if m == "zeros":
        return np.zeros_like(a)
    if m == "zero-row":
        b = a.copy()
        if b.ndim >= 1 and b.shape[0] >= 1:
            b[0] = 0
        return b
    if m in ("identity", "near-identity"):
        # (round 3) the identity matrix / first unit vector, exactly or perturbed by 1e-9: what a tolerance-based
        # "nothing to do" shortcut would take for the identity and answer with the operand itself
        b = np.eye(*a.shape) if a.ndim == 2 else (np.arange(a.size) == 0).astype(float).reshape(a.shape)
        return b if m == "identity" else b + 1e-9 * np.sign(a)
    if m == "tiny":
        return a * 1e-9
    if m == "huge":
        return a * 1e9
    if m == "F-order":
        return np.asfortranarray(a)
    if m in ("readonly", "float32", "int32", "neg-strided"):
        return present(a, m)
    if m == "coo":
        # scipy.sparse matrices are documented multiplicands of tensor.ttm only; elsewhere the request is rejected (and
        # must then leave its operands alone: class 12)
        return present(a, "coo") if a.ndim == 2 and a.size else a
    if m == "strided" and a.ndim >= 1 and a.size:
        big = np.full(tuple(2 * n for n in a.shape), 9.0)
        v = big[tuple(slice(0, 2 * n, 2) for n in a.shape)]
        v[...] = a
        return v
    return a


# --------------------------------------------------------------------------
# in-place edits of value arrays (history 2)
# --------------------------------------------------------------------------

VALUE_OPERANDS = ("self", "other", "vector", "matrix", "factor", "U", "W", "data", "init", "mask", "weights", "elements",
                  "tensors", "core", "factors", "factor_matrices", "value", "input0", "input1", "array", "vals")
_VALUE_ATTRS = {
    ttb.tensor: ("data",), ttb.sptensor: ("vals",), ttb.ktensor: ("weights", "factor_matrices"),
    ttb.ttensor: ("core", "factor_matrices"), ttb.sumtensor: ("parts",), ttb.tenmat: ("data",), ttb.sptenmat: ("vals",),
}


def _value_arrays(obj, out, depth=0):
    if depth > 6:
        return out
    if isinstance(obj, np.ndarray):
        if obj.dtype.kind in "fiu" and obj.size >= 1 and obj.flags.writeable:
            out.append(obj)
        return out
    for cls, attrs in _VALUE_ATTRS.items():
        if type(obj) is cls:
            for a in attrs:
                _value_arrays(getattr(obj, a, None), out, depth + 1)
            return out
    if isinstance(obj, (list, tuple)):
        for x in obj:
            _value_arrays(x, out, depth + 1)
    return out


def edit_in_place(operands: Dict[str, Any]) -> int:
    """overwrite, in place, every value array (data / vals / weights / factor matrices / vectors / matrices; never
    an index-like array) reachable from the value operands with its entries in reverse order plus one; returns the
    number of arrays whose content changed"""
    arrs: List[np.ndarray] = []
    for n, o in operands.items():
        if n in VALUE_OPERANDS:
            _value_arrays(o, arrs)
    seen, n_changed = [], 0
    for a in arrs:
        if any(a is s or np.shares_memory(a, s) for s in seen):
            continue
        seen.append(a)
        new = (a.ravel()[::-1].reshape(a.shape) + a.dtype.type(1)).astype(a.dtype)
        if not np.array_equal(new, a):
            n_changed += 1
        a[...] = new
    return n_changed
