"""Registration helper and shared strategies for the C05 cells."""

from __future__ import annotations

import copy as _copy
from typing import Any, Callable, Dict, List, Optional

import numpy as np
from hypothesis import strategies as st

import pyttb as ttb

from .. import gen, ref
from ..core import cell
from . import _c05_helpers as H
from . import _c05_states as CS

import logging as _logging

_logging.getLogger().setLevel(_logging.ERROR)  # pyttb logs 'must copy' warnings on the root logger

PREDICATES: Dict[str, Callable[[Any], bool]] = {}


def pred(name):
    def deco(fn):
        PREDICATES[name] = fn
        return fn

    return deco


NONDETERMINISTIC = ("nvecs", "alg/cp_als", "alg/tucker_als")  # ARPACK start vectors differ from call to call
HEAVY = ("alg/",)


class _Mute:
    """stand-in for ctx while a cell function is run again only to build a second set of operands"""

    notes: Dict[str, Any] = {}

    def label(self, *a):
        pass

    def skip(self, why):
        raise _NotApplicable()


class _NotApplicable(Exception):
    pass


class _root_logger_at_debug:
    """(round 4, class 13) the root logger at DEBUG with a NullHandler (nothing is printed) while the operation runs;
    ``core.evaluate`` disables logging up to WARNING around every cell, which is undone here and restored afterwards"""

    def __init__(self, on):
        self.on = on

    def __enter__(self):
        if self.on:
            root = _logging.getLogger()
            self.level, self.disabled = root.level, root.manager.disable
            # (a module-level logging.warning() call installs a stderr handler on the root logger once and for all:
            # set aside while the level is DEBUG, so that nothing is printed)
            self.handlers = list(root.handlers)
            for h in self.handlers:
                root.removeHandler(h)
            self.handler = _logging.NullHandler()
            root.addHandler(self.handler)
            root.setLevel(_logging.DEBUG)
            _logging.disable(_logging.NOTSET)
        return self

    def __exit__(self, *exc):
        if self.on:
            root = _logging.getLogger()
            for h in list(root.handlers):
                root.removeHandler(h)
            for h in self.handlers:
                root.addHandler(h)
            root.setLevel(self.level)
            _logging.disable(self.disabled)
        return False


def _seeded(case, call):
    if isinstance(case, dict) and "np_seed" in case:
        def seeded():
            np.random.seed(case["np_seed"])
            return call()
        return seeded
    return call


def _edit_history(ctx, name, fn, case, result_of):
    """prime the operation, edit the value arrays of its operands in place, call again; the same edit applied to
    freshly built operands that were never used must give the same result (nothing remembered across the edit)"""
    try:
        if "np_seed" in case:
            np.random.seed(case["np_seed"])
        a = fn(_Mute(), case)
        if "np_seed" in case:
            np.random.seed(case["np_seed"])
        b = fn(_Mute(), case)
    except _NotApplicable:
        return
    if a is None or b is None:
        return
    (ops_a, call_a), (ops_b, call_b) = (a[0], _seeded(case, a[1])), (b[0], _seeded(case, b[1]))
    try:
        call_a()
    except Exception:  # noqa: BLE001
        ctx.label("edit-history:prime-raised")
        return
    n_a, n_b = CS.edit_in_place(ops_a), CS.edit_in_place(ops_b)
    if n_a == 0 or n_a != n_b:
        ctx.label("edit-history:nothing-to-edit")
        return
    res = []
    for call in (call_a, call_b):
        try:
            r = call()
            res.append(("returned", H.snap_values(result_of(r) if result_of is not None else r)))
        except Exception as e:  # noqa: BLE001
            res.append(("raised", type(e).__name__))
    ctx.label("edit-history:" + res[0][0] + "/" + res[1][0])
    if res[0][0] != res[1][0]:
        ctx.check(False, "edit-history-outcome-differs",
                  f"{name}: after prime+edit the call {res[0][0]} ({res[0][1] if res[0][0] == 'raised' else ''}), on fresh "
                  f"operands with the same edit it {res[1][0]} ({res[1][1] if res[1][0] == 'raised' else ''})")
    elif res[0][0] == "returned":
        d = H.snap_diff(res[1][1], res[0][1])
        ctx.check(d is None, "stale-after-in-place-edit", f"{name}: fresh operands vs primed-then-edited operands: {d}")


def op(name: str, strategy, quick: int = 40, thorough: int = 600, inplace: Optional[str] = None, shards=(1, 2),
       result_of=None, rejected: bool = False):
    """Register cell ``C05/<name>``.  The decorated function maps (ctx, case) to (operands, call)."""
    deterministic = not any(name.endswith(x) or name == x for x in NONDETERMINISTIC)
    heavy = any(name.startswith(x) for x in HEAVY)

    def deco(fn):
        def body(ctx, case, fn=fn):
            if isinstance(case, dict) and "np_seed" in case:
                np.random.seed(case["np_seed"])
            del CS.ST.BUILD_NOTES[:]
            out = fn(ctx, case)
            if out is None:
                ctx.skip("not-applicable")
            operands, call = out[0], out[1]
            ip = out[2] if len(out) > 2 and out[2] is not None else inplace
            post = out[3] if len(out) > 3 else None
            if isinstance(case, dict):
                ctx.label(*CS.state_labels(case), *CS.object_labels(operands))
                if case.get("_aux"):
                    ctx.label("aux-" + case["_aux"])
            call = _seeded(case, call)
            seq = (case.get("_seq") or {}) if isinstance(case, dict) else {}

            box = {}
            inner2 = call

            def call2():
                box["ret"] = inner2()
                return box["ret"]

            debug = isinstance(case, dict) and case.get("_log") == "debug"
            if debug:
                ctx.label("root-logger-DEBUG")
            with _root_logger_at_debug(debug):
                H.check_op(ctx, name, operands, call2, inplace=ip, result_of=result_of, again=bool(seq.get("again")),
                           deterministic=deterministic, rejected_nt=rejected)
            if post is not None and "ret" in box:
                post(ctx, box["ret"])
            if seq.get("edit") and ip is None and deterministic and "ret" in box and not any(
                    d.startswith("operand-mutated:") for _, d, _ in ctx.violations):
                _edit_history(ctx, name, fn, case, result_of)

        body.__name__ = "c05_" + name.replace("/", "_")
        body.__doc__ = fn.__doc__
        cell("C05/" + name, strategy=CS.annotated(strategy, heavy=heavy), quick=quick, thorough=thorough, shards=shards)(body)
        return fn

    return deco


# --------------------------------------------------------------------------
# drawing helpers (all take ``draw`` first)
# --------------------------------------------------------------------------

SEED = st.integers(0, 2**31 - 1)


def d_vals(draw, n, vkind="int", nonzero=False):
    return draw(st.lists(gen.values(vkind, nonzero=nonzero), min_size=n, max_size=n))


def d_vecs(draw, shape, vkind="int"):
    """one vector per mode for ttv; (round 3, class 6) in a quarter of the cases unit vectors (the product is then a
    slice of the data: what a shortcut would hand back as a view), sometimes all ones (the product is a plain sum)"""
    special = draw(st.sampled_from([None, None, None, None, None, "unit", "unit", "ones"]))
    if special == "unit":
        return [[1.0 if i == k else 0.0 for i in range(s)] for s, k in ((s, draw(st.integers(0, s - 1))) for s in shape)]
    if special == "ones":
        return [[1.0] * s for s in shape]
    return [d_vals(draw, s, vkind) for s in shape]


def d_dense_like(draw, shape, vkind="int"):
    """Another dense array of the given shape: dict(shape, data)."""
    n = ref.prod(shape)
    pattern = draw(st.sampled_from(["one", "some", "all", "all"]))
    return dict(shape=list(shape), data=gen._pattern_values(draw, n, pattern, vkind), vkind=vkind, pattern=pattern)


def d_sparse_like(draw, shape, vkind="int", patterns=("none", "one", "some", "some", "all")):
    n = ref.prod(shape)
    pattern = draw(st.sampled_from(list(patterns)))
    flat = gen._pattern_values(draw, n, pattern, vkind)
    A = gen.arr_F(shape, flat)
    sc = gen.sparse_case_from_dense(A)
    if len(sc["subs"]) > 1 and draw(st.booleans()):
        p = draw(st.permutations(range(len(sc["subs"]))))
        sc["subs"] = [sc["subs"][i] for i in p]
        sc["vals"] = [sc["vals"][i] for i in p]
    sc["pattern"] = pattern
    return sc


def d_kt_like(draw, shape, vkind="int", rank=None, weights="any", nonneg=False):
    r = rank or draw(st.integers(1, 3))
    V = gen.values(vkind) if not nonneg else gen.values(vkind).map(abs)
    if weights == "unit":
        w = [1.0] * r
    elif weights == "positive" or nonneg:
        w = [abs(x) for x in d_vals(draw, r, vkind, nonzero=True)]
    else:
        w = d_vals(draw, r, vkind)
    factors = [draw(st.lists(st.lists(V, min_size=r, max_size=r), min_size=n, max_size=n)) for n in shape]
    return dict(shape=list(shape), rank=r, weights=w, factors=factors, vkind=vkind)


def d_tt_like(draw, shape, vkind="int", sparse_core=None):
    cshape = [draw(st.integers(1, 2)) for _ in shape]
    n = ref.prod(cshape)
    core = gen._pattern_values(draw, n, draw(st.sampled_from(["one", "some", "all"])), vkind)
    factors = [draw(st.lists(st.lists(gen.values(vkind), min_size=c, max_size=c), min_size=s, max_size=s))
               for s, c in zip(shape, cshape)]
    sc = draw(st.booleans()) if sparse_core is None else sparse_core
    return dict(shape=list(shape), cshape=cshape, core=core, factors=factors, vkind=vkind, sparse_core=sc)


def d_mats(draw, rows, cols, vkind="int"):
    """list of matrices (as nested lists), one per (rows[i], cols[i])."""
    return [draw(st.lists(st.lists(gen.values(vkind), min_size=c, max_size=c), min_size=r, max_size=r))
            for r, c in zip(rows, cols)]


def mat(m, r, c, case=None):
    return CS.aux(case, np.array(m, dtype=float).reshape(r, c))


def d_dims(draw, n, min_size=1, max_size=None, allow_exclude=True, allow_none=False):
    """A mode designation: dict(how='dims'|'exclude'|'none', dims=[..] (unsorted), form='array'|'list'|'int')."""
    hows = ["dims", "dims"] + (["exclude"] if allow_exclude and n >= 2 else []) + (["none"] if allow_none else [])
    how = draw(st.sampled_from(hows))
    if how == "none":
        return dict(how="none", dims=list(range(n)), form="none")
    if how == "exclude":
        ex = draw(gen.mode_subset(n, 1, n - 1))
        form = draw(st.sampled_from(["array", "int"] if len(ex) == 1 else ["array"]))
        return dict(how="exclude", dims=ex, form=form)
    ds = draw(gen.mode_subset(n, min_size, max_size if max_size is not None else n))
    forms = ["array", "list"] + (["int", "int"] if len(ds) == 1 else [])
    return dict(how="dims", dims=ds, form=draw(st.sampled_from(forms)))


def dims_used(d, n):
    """sorted modes the operation acts on."""
    if d["how"] == "exclude":
        return [m for m in range(n) if m not in d["dims"]]
    return sorted(d["dims"])


def dims_kwargs(d, operands: dict):
    """kwargs for (dims=, exclude_dims=); array forms are added to ``operands``."""
    if d["how"] == "none":
        return {}
    key = "dims" if d["how"] == "dims" else "exclude_dims"
    if d["form"] == "int":
        return {key: int(d["dims"][0])}
    if d["form"] == "list":
        v = [int(x) for x in d["dims"]]
        operands[key] = v
        return {key: v}
    a = np.array(d["dims"], dtype=int)
    operands[key] = a
    return {key: a}


def multiplicands(d, n, per_mode: List[Any], full: bool):
    """The list of multiplicands to pass: one per mode of the tensor (full) or one per designated mode, in the
    order in which the caller listed the modes (pyttb pairs them with argsort)."""
    if d["how"] == "none" or (full and not (d["how"] == "dims" and len(d["dims"]) == n)):
        return list(per_mode)
    if d["how"] == "exclude":
        return [per_mode[m] for m in dims_used(d, n)]
    return [per_mode[m] for m in d["dims"]]


def other_of(kind, c):
    if kind == "tensor":
        return CS.build_tensor(c)
    if kind == "sptensor":
        return CS.build_sptensor(c)
    if kind == "ktensor":
        return CS.build_ktensor(c)
    if kind == "ttensor":
        return CS.build_ttensor(c)
    if kind == "sumtensor":
        return build_sumtensor(c)
    raise ValueError(kind)


def d_other(draw, kind, shape, vkind="int"):
    if kind == "tensor":
        return d_dense_like(draw, shape, vkind)
    if kind == "sptensor":
        return d_sparse_like(draw, shape, vkind)
    if kind == "ktensor":
        return d_kt_like(draw, shape, vkind)
    if kind == "ttensor":
        return d_tt_like(draw, shape, vkind)
    if kind == "sumtensor":
        return d_sum_like(draw, shape, vkind)
    raise ValueError(kind)


def d_sum_like(draw, shape, vkind="int", min_parts=1, max_parts=3):
    k = draw(st.integers(min_parts, max_parts))
    parts = []
    for _ in range(k):
        kind = draw(st.sampled_from(["tensor", "sptensor", "ktensor", "ttensor"]))
        parts.append(dict(kind=kind, c=d_other(draw, kind, shape, vkind)))
    return dict(shape=list(shape), parts=parts)


def build_sumtensor(c):
    return ttb.sumtensor([other_of(p["kind"], p["c"]) for p in c["parts"]], copy=False)


@st.composite
def sum_case(draw, tier="quick", min_order=1, max_order=3, min_size=1):
    shape = draw(gen.shapes(tier, min_order=min_order, max_order=max_order, max_cells=36, min_size=min_size))
    return d_sum_like(draw, shape, draw(st.sampled_from(["int", "float"])))


def target_shape(draw, n, max_parts=4):
    parts = []
    rem = n
    while rem > 1 and len(parts) < max_parts - 1:
        divs = [d for d in range(1, rem + 1) if rem % d == 0]
        d = draw(st.sampled_from(divs))
        parts.append(d)
        rem //= d
    parts.append(rem)
    if len(parts) < max_parts and draw(st.booleans()):
        parts.insert(draw(st.integers(0, len(parts))), 1)
    return parts


def as_form(values, form):
    """index-like argument in the requested form; returns (argument, is_container)."""
    if form == "array":
        return np.array(values, dtype=int)
    if form == "list":
        return [int(v) for v in values]
    if form == "tuple":
        return tuple(int(v) for v in values)
    if form == "int":
        return int(values[0])
    raise ValueError(form)


deepcopy = _copy.deepcopy


# --------------------------------------------------------------------------
# (round 4, class 11) how the caller presents the arrays it hands to a constructor
# --------------------------------------------------------------------------

VALUE_FORMS = (None, None, None, "strided", "neg-strided", "readonly", "readonly-F", "float32", "int64", "int32")
INDEX_FORMS = (None, None, None, "int32", "uint8", "uint16", "uint64", "readonly", "strided", "neg-strided")


def d_present(draw, values=(), indices=()):
    """case entry ``_present``: operand name -> presentation"""
    out = {k: draw(st.sampled_from(VALUE_FORMS)) for k in values}
    out.update({k: draw(st.sampled_from(INDEX_FORMS)) for k in indices})
    return out


def presented(ctx, c, key, a):
    """the array ``a`` (operand ``key`` of a constructor cell) as ``c["_present"][key]`` asks"""
    form = (c.get("_present") or {}).get(key)
    if form is None:
        return a
    if form.startswith("uint") and isinstance(a, np.ndarray) and a.dtype.kind in "iu":
        b = a.astype(np.dtype(form)) if a.size == 0 or (a.min() >= 0 and a.max() < 256) else a
    else:
        b = CS.present(a, form)
    ctx.label(f"{key}-presented-{form}")
    return b
