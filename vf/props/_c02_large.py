"""C02 cells, round 3 class 7: operands whose size lies above internal block thresholds.

Vectorised kernels process stored nonzeros / rows / fibres in blocks (1e4 is the MATLAB Tensor Toolbox habit), so a
defect at a block boundary is invisible on every operand of the other cells (<= 400 cells).  Here every operation x
holder class gets a *few large* operands per run:

  sptensor   1e4 < nnz <= 3e4 (5e4 thorough) stored nonzeros in any stored order, 3e4 .. 1e6 cells
  tensor     1e5 .. 1e6 cells
  ktensor    rank 10 .. 20, 3 / 5 / 6 modes
  ttensor    core 10..20 per mode on 3 modes | 2..3 per mode on 5..6 modes | a sparse core with > 1e4 stored nonzeros
  sumtensor  2-3 parts of the above kinds over one shape

A stored case is a *compact description* (shape, sizes, an integer seed drawn by Hypothesis): the body expands it
deterministically with ``numpy.random.default_rng(seed)`` into the ordinary case format of the small cells (plus the
array the holder denotes, computed once with NumPy: matrix products of Khatri-Rao factors / tensordot chains) and
hands it to the ordinary body, so operations, designations, oracles and comparison policy are exactly those of the small
cells (integer-valued data exactly, general floats within the rounding bound of the defining sum on absolute values).
"""

from __future__ import annotations

import numpy as np
from hypothesis import strategies as st

from .. import ref
from ..core import cell
from . import _c02_common as cm
from . import _c02_modes as MD
from . import _c02_mttkrp as MK
from . import _c02_pairs as PR
from . import _c02_unary as UN

SEED = st.integers(0, 2**31 - 1)

# base shapes (jittered and permuted by the strategy); cells of the dense array stay <= ~1e6 so that NumPy on the
# expanded array is a cheap oracle
DENSE_SHAPES = [(40, 50, 60), (64, 64, 64), (100, 30, 40), (20, 20, 20, 20), (10, 12, 8, 15, 9), (300, 400),
                (7, 7, 7, 7, 7, 7), (1, 400, 300), (50, 1, 60, 40), (200000,)]
SPARSE_SHAPES = [(40, 40, 40), (30, 25, 20, 4), (40, 30, 30), (200, 300), (15, 15, 15, 15), (8, 8, 8, 8, 8),
                 (1, 60, 50, 20), (1000, 800), (60000,)]
KRUSKAL_SHAPES = [(6, 5, 7, 4, 6), (5, 4, 6, 5, 4, 5), (40, 40, 40), (8, 7, 6, 8, 7), (4, 4, 4, 4, 4, 4), (30, 50, 20)]
SUM_SHAPES = [(40, 40, 40), (30, 25, 20, 4), (200, 300), (12, 10, 14, 11)]


def _jitter(draw, base, lo, hi):
    shape = [max(1, s + draw(st.integers(-3, 3))) if s > 1 else 1 for s in base]
    shape = [shape[i] for i in draw(st.permutations(range(len(shape))))]
    # keep the number of cells within [lo, hi]: shrink / grow the largest mode
    for _ in range(64):
        p = ref.prod(shape)
        k = max(range(len(shape)), key=lambda m: shape[m])
        if p > hi:
            shape[k] -= max(1, shape[k] // 8)
        elif p < lo:
            shape[k] += max(1, shape[k] // 8)
        else:
            break
    return shape


@st.composite
def big(draw, tier, kind, shape=None, vkind=None, min_order=1, small_nnz=False):
    """compact description of a large holder of class ``kind``"""
    vkind = vkind or draw(st.sampled_from(["int", "float"]))
    thorough = tier != "quick"
    out = dict(kind=kind, vkind=vkind, seed=draw(SEED))
    if kind == "tensor":
        out["shape"] = shape or _jitter(draw, draw(st.sampled_from([x for x in DENSE_SHAPES if len(x) >= min_order])), 100000,
                                        1000000 if thorough else 500000)
        out["density"] = draw(st.sampled_from([1.0, 0.7, 0.3]))
        out["state"] = draw(st.sampled_from(["ctor", "ctor", "permute", "reshape", "arith", "slice"]))
        out["dtype"] = draw(st.sampled_from([None, None, "int64", "int32"])) if vkind == "int" else None
    elif kind == "sptensor":
        out["shape"] = shape or _jitter(draw, draw(st.sampled_from([x for x in SPARSE_SHAPES if len(x) >= min_order])), 70000, 1000000)
        cells = ref.prod(out["shape"])
        top = max(1, min(60000 if thorough else 40000, (cells * 3) // 5))
        if small_nnz:
            # (the *other* operand of a kernel that compares every stored entry of one with every one of the other)
            out["nnz"] = draw(st.integers(min(100, top), min(6000 if thorough else 1500, top)))
        else:
            # mostly above 2e4 / 2**15, so that one operand lies above several plausible block sizes (1e4, 2**14, 2e4,
            # 2**15) at once; sometimes just above 1e4 or 2**14
            lo, hi = draw(st.sampled_from([(20001, 30000), (32769, 40000), (20001, 30000), (32769, 60000), (10001, 12000),
                                           (16385, 20000)]))
            out["nnz"] = draw(st.integers(min(lo, top), min(hi, top)))
        out["order"] = draw(st.sampled_from(["sorted", "reverse", "random", "random"]))
        out["state"] = draw(st.sampled_from(["ctor", "ctor", "ctor", "npshape", "permute", "aggregator", "from-dense",
                                             "zeros-ctor"]))
        out["dtype"] = draw(st.sampled_from([None, None, "int64", "int32"])) if vkind == "int" else None
    elif kind == "ktensor":
        out["shape"] = shape or _jitter(draw, draw(st.sampled_from(KRUSKAL_SHAPES)), 4000, 300000)
        out["rank"] = draw(st.integers(10, 20))
        out["state"] = draw(st.sampled_from(["ctor", "ctor", "normalize-k", "arrange", "sum", "permute"]))
    elif kind == "ttensor":
        variant = "given" if shape is not None else draw(st.sampled_from(["wide-core", "many-modes", "big-sparse-core"]))
        out["variant"] = variant
        if variant == "big-sparse-core":
            out["cshape"] = [draw(st.integers(23, 27)) for _ in range(3)]
            out["shape"] = [c + draw(st.integers(1, 6)) for c in out["cshape"]]
            out["sparse_core"] = True
            out["core_nnz"] = draw(st.integers(10001, (ref.prod(out["cshape"]) * 4) // 5))
        else:
            if variant == "wide-core":
                shape = [draw(st.integers(20, 40)) for _ in range(3)]
            elif variant == "many-modes":
                shape = _jitter(draw, draw(st.sampled_from(KRUSKAL_SHAPES[:2] + KRUSKAL_SHAPES[3:5])), 4000, 300000)
            out["shape"] = list(shape)
            N = len(shape)
            lo, hi = (10, 20) if N <= 3 else ((3, 6) if N == 4 else (2, 3))
            out["cshape"] = [draw(st.integers(min(lo, s), min(hi, s))) for s in shape]
            out["sparse_core"] = draw(st.booleans())
            out["core_density"] = draw(st.sampled_from([1.0, 0.5, 0.2]))
        # (a permuted history is verified by the builder with an unoptimised einsum: too slow at this size)
        out["state"] = draw(st.sampled_from(["ctor", "core-nocopy"]))
    elif kind == "sumtensor":
        out["shape"] = shape or _jitter(draw, draw(st.sampled_from(SUM_SHAPES)), 60000, 150000)
        kinds = draw(st.sampled_from([["tensor", "sptensor"], ["sptensor", "ktensor"], ["sptensor", "tensor", "ktensor"],
                                      ["ktensor", "sptensor", "sptensor"], ["sptensor", "ttensor"]]))
        out["parts"] = [draw(big(tier, k, shape=list(out["shape"]), vkind=vkind)) for k in kinds]
    else:
        raise ValueError(kind)
    return out


# --------------------------------------------------------------------------
# expansion: compact description -> ordinary holder dict (+ the arrays it denotes)
# --------------------------------------------------------------------------


def _values(rng, n, vkind, nonzero=False):
    """n values of the kind the small cells draw: integers in -6..6, or floats with magnitudes in [1e-3, 1e3]"""
    if vkind == "int":
        if nonzero:
            v = rng.integers(1, 7, size=n) * rng.choice([-1, 1], size=n)
        else:
            v = rng.integers(-6, 7, size=n)
        return v.astype(float)
    v = 10.0 ** rng.uniform(-3, 3, size=n) * rng.choice([-1.0, 1.0], size=n)
    if not nonzero:
        v[rng.random(n) < 0.1] = 0.0
    return v


def _kr_rows(mats):
    """rows = all index tuples of the modes in C order (first mode slowest), columns = components"""
    out = mats[0]
    for M in mats[1:]:
        out = (out[:, None, :] * M[None, :, :]).reshape(-1, M.shape[1])
    return out


def den_kruskal_big(w, fm):
    shape = tuple(m.shape[0] for m in fm)
    if len(fm) == 1:
        return fm[0] @ w
    k = max(1, len(fm) // 2)
    return ((_kr_rows(fm[:k]) * w[None, :]) @ _kr_rows(fm[k:]).T).reshape(shape)


def den_tucker_big(core, fm):
    return cm.ref_ttm(core, {m: M for m, M in enumerate(fm)})


def expand(c):
    """ordinary holder dict (see _c02_common) of the compact description ``c``; ``_A`` / ``_Aabs`` = the array it
    denotes / the same sum on absolute values"""
    kind, shape, vkind = c["kind"], [int(s) for s in c["shape"]], c["vkind"]
    rng = np.random.default_rng(c["seed"])
    N = len(shape)
    if kind == "tensor":
        n = ref.prod(shape)
        v = _values(rng, n, vkind, nonzero=True)
        if c["density"] < 1.0:
            v[rng.random(n) >= c["density"]] = 0.0
        A = np.reshape(v, tuple(shape), order="F")
        st_ = dict(how=c["state"])
        if c["state"] == "permute":
            st_.update(perm=[int(i) for i in rng.permutation(N)], k=0)
        elif c["state"] == "arith":
            st_["op"] = "plus0"
        h = dict(holder="tensor", shape=shape, vkind=vkind, pattern="some", data=v.tolist(), state=st_)
        if c.get("dtype"):
            h["dtype"] = c["dtype"]
        h["_A"], h["_Aabs"] = A, np.abs(A)
        return h
    if kind == "sptensor":
        cells = ref.prod(shape)
        nnz = int(c["nnz"])
        lin = np.sort(rng.choice(cells, size=nnz, replace=False))
        if c["order"] == "reverse":
            lin = lin[::-1]
        elif c["order"] == "random":
            lin = rng.permutation(lin)
        subs = np.array(np.unravel_index(lin, tuple(shape), order="F")).T.reshape(nnz, N)
        vals = _values(rng, nnz, vkind, nonzero=True)
        A = np.zeros(tuple(shape))
        A[tuple(subs.T)] = vals
        st_ = dict(how=c["state"])
        if c["state"] == "permute":
            st_["perm"] = [int(i) for i in rng.permutation(N)]
        elif c["state"] == "zeros-ctor" and cells > 200000:
            st_ = dict(how="ctor")  # (the builder enumerates all cells to place the stored zeros)
        elif c["state"] == "zeros-ctor":
            st_["extra"] = [int(i) for i in rng.choice(cells, size=3, replace=False)]
            st_["at"] = [0, nnz // 2, nnz + 2]
        h = dict(holder="sptensor", shape=shape, vkind=vkind, pattern="some", order=c["order"], subs=subs.tolist(),
                 vals=vals.tolist(), state=st_)
        if c.get("dtype"):
            h["dtype"] = c["dtype"]
        h["_A"], h["_Aabs"] = A, np.abs(A)
        return h
    if kind == "ktensor":
        R = int(c["rank"])
        w = _values(rng, R, vkind, nonzero=True)
        fm = [_values(rng, s * R, vkind).reshape(s, R) for s in shape]
        st_ = dict(how=c["state"])
        if c["state"] == "normalize-k":
            st_["mode"] = int(rng.integers(0, N))
        elif c["state"] == "arrange":
            st_["perm"] = [int(i) for i in rng.permutation(R)]
        elif c["state"] == "sum":
            st_["cut"] = int(rng.integers(1, R))
        elif c["state"] == "permute":
            st_["perm"] = [int(i) for i in rng.permutation(N)]
        h = dict(holder="ktensor", shape=shape, vkind=vkind, rank=R, weights=w.tolist(), factors=[m.tolist() for m in fm],
                 state=st_)
        h["_A"], h["_Aabs"] = den_kruskal_big(w, fm), den_kruskal_big(np.abs(w), [np.abs(m) for m in fm])
        return h
    if kind == "ttensor":
        cshape = [int(s) for s in c["cshape"]]
        n = ref.prod(cshape)
        core = _values(rng, n, vkind, nonzero=True)
        if "core_nnz" in c:
            keep = rng.choice(n, size=int(c["core_nnz"]), replace=False)
            mask = np.zeros(n, dtype=bool)
            mask[keep] = True
            core[~mask] = 0.0
        elif c.get("core_density", 1.0) < 1.0:
            core[rng.random(n) >= c["core_density"]] = 0.0
            if not core.any():
                core[0] = 1.0
        G = np.reshape(core, tuple(cshape), order="F")
        fm = [_values(rng, s * k, vkind).reshape(s, k) for s, k in zip(shape, cshape)]
        st_ = dict(how=c["state"], core=dict(how="ctor"))
        if c["state"] == "permute":
            st_["perm"] = [int(i) for i in rng.permutation(N)]
        h = dict(holder="ttensor", shape=shape, cshape=cshape, core=core.tolist(), factors=[m.tolist() for m in fm],
                 vkind=vkind, sparse_core=bool(c["sparse_core"]), core_pattern="some", state=st_)
        h["_A"], h["_Aabs"] = den_tucker_big(G, fm), den_tucker_big(np.abs(G), [np.abs(m) for m in fm])
        return h
    if kind == "sumtensor":
        parts = [expand(p) for p in c["parts"]]
        return dict(holder="sumtensor", shape=shape, vkind=vkind, parts=parts)
    raise ValueError(kind)


def size_labels(c):
    out = ["large:" + c["kind"]]
    if c["kind"] == "sptensor":
        out.append("large:nnz>" + str((int(c["nnz"]) // 10000) * 10000))
    if c["kind"] == "tensor":
        out.append("large:cells>=" + ("5e5" if ref.prod(c["shape"]) >= 500000 else "1e5"))
    if c["kind"] == "ktensor":
        out.append("large:rank>=" + ("15" if c["rank"] >= 15 else "10"))
    if c["kind"] == "ttensor":
        out.append("large:tucker-" + c["variant"])
    if c["kind"] == "sumtensor":
        for p in c["parts"]:
            out += ["part-" + x for x in size_labels(p)]
    return out


def _vec(rng, n, vkind):
    return _values(rng, n, vkind).tolist()


def _other_vkind(draw, vkind):
    return cm.other_vkind(draw, vkind)


# --------------------------------------------------------------------------
# cells: a compact case per operation, expanded and handed to the ordinary body
# --------------------------------------------------------------------------

QUICK, THOROUGH = 4, 12  # cases per cell and run (the runner multiplies the thorough budget)


def _register(op, kind, strategy, body):
    cell(f"C02/large/{op}/{kind}", strategy=strategy, quick=QUICK, thorough=THOROUGH, shards=(1, 2))(body)


# ---- ttv -----------------------------------------------------------------


def _ttv(kind):
    @st.composite
    def s(draw, tier):
        X = draw(big(tier, kind))
        return dict(X=X, des=draw(cm.designation(len(X["shape"]))), aseed=draw(SEED),
                    avkind=_other_vkind(draw, X["vkind"]), junk=draw(st.sampled_from(["empty", "wrong", "right"])))

    def body(ctx, case):
        h = expand(case["X"])
        rng = np.random.default_rng(case["aseed"])
        ctx.label(*size_labels(case["X"]))
        MD.ttv_body(ctx, dict(X=h, des=case["des"], vecs=[_vec(rng, h["shape"][m], case["avkind"]) for m in case["des"]["sel"]],
                              vdtypes=[None] * len(case["des"]["sel"]), vvkind=case["avkind"], junk=case["junk"]))

    _register("ttv", kind, s, body)


for _k in ("tensor", "sptensor", "ktensor", "ttensor", "sumtensor"):
    _ttv(_k)


# ---- ttm -----------------------------------------------------------------


def _ttm(kind):
    @st.composite
    def s(draw, tier):
        X = draw(big(tier, kind))
        des = draw(cm.designation(len(X["shape"])))
        if len(des["sel"]) > 2:
            # at most two modes are multiplied (the product must stay of the size of the operand)
            sel = des["sel"][:2]
            des = dict(form="dims", sel=sel, excl=None, container="array")
        return dict(X=X, des=des, J=[draw(st.integers(1, 4)) for _ in des["sel"]], transpose=draw(st.booleans()),
                    aseed=draw(SEED), avkind=_other_vkind(draw, X["vkind"]),
                    mkind=draw(st.sampled_from(["ndarray", "ndarray", "coo"])) if kind == "sptensor" else "ndarray",
                    junk=draw(st.sampled_from(["empty", "wrong", "right"])))

    def body(ctx, case):
        h = expand(case["X"])
        rng = np.random.default_rng(case["aseed"])
        ctx.label(*size_labels(case["X"]))
        mats = [_values(rng, J * h["shape"][m], case["avkind"]).reshape(J, h["shape"][m]).tolist()
                for m, J in zip(case["des"]["sel"], case["J"])]
        MD.ttm_body(ctx, dict(X=h, des=case["des"], mats=mats, transpose=case["transpose"], mkind=case["mkind"],
                              mdtypes=[None] * len(mats), mvkind=case["avkind"], junk=case["junk"]))

    _register("ttm", kind, s, body)


for _k in ("tensor", "sptensor", "ttensor"):
    _ttm(_k)


# ---- mttkrp / mttkrps ----------------------------------------------------


def _expand_U(case, shape):
    rng = np.random.default_rng(case["aseed"])
    R = int(case["R"])
    vk = case["avkind"]
    factors = [_values(rng, s * R, vk).reshape(s, R).tolist() for s in shape]
    w = [1.0] * R
    if case["ukind"] == "ktensor":
        w = _values(rng, R, vk, nonzero=True).tolist()
        if all(x == 1.0 for x in w):
            w[0] = 2.0
    return dict(kind=case["ukind"], rank=R, weights=w, factors=factors, fdtypes=[None] * len(shape), vkind=vk, state=None)


def _mttkrp(kind):
    @st.composite
    def s(draw, tier):
        X = draw(big(tier, kind, min_order=2))
        return dict(X=X, n=draw(st.integers(0, len(X["shape"]) - 1)), R=draw(st.integers(1, 4)),
                    ukind=draw(st.sampled_from(["list", "ktensor"])), aseed=draw(SEED),
                    avkind=_other_vkind(draw, X["vkind"]), n_numpy=draw(st.booleans()))

    def body(ctx, case):
        if len(case["X"]["shape"]) < 2:
            ctx.skip("mttkrp needs two modes")
        h = expand(case["X"])
        ctx.label(*size_labels(case["X"]))
        MK.mttkrp_body(ctx, dict(X=h, n=case["n"], U=_expand_U(case, h["shape"]), n_numpy=case["n_numpy"]))

    _register("mttkrp", kind, s, body)


for _k in ("tensor", "sptensor", "ktensor", "ttensor", "sumtensor"):
    _mttkrp(_k)


@st.composite
def _mttkrps_s(draw, tier):
    X = draw(big(tier, "tensor", min_order=2))
    return dict(X=X, R=draw(st.integers(1, 4)), ukind=draw(st.sampled_from(["list", "ktensor"])), aseed=draw(SEED),
                avkind=_other_vkind(draw, X["vkind"]))


def _mttkrps_body(ctx, case):
    if len(case["X"]["shape"]) < 2:
        ctx.skip("mttkrps needs two modes")
    h = expand(case["X"])
    ctx.label(*size_labels(case["X"]))
    MK.mttkrps_tensor(ctx, dict(X=h, U=_expand_U(case, h["shape"])))


_register("mttkrps", "tensor", _mttkrps_s, _mttkrps_body)


# ---- innerprod / norm ------------------------------------------------------


def _inner(left, right):
    @st.composite
    def s(draw, tier):
        X = draw(big(tier, left))
        shape = list(X["shape"])
        # sparse x sparse compares every stored entry of one with every one of the other (nnz x nnz): one side is large,
        # the other holds 100 .. 1500 (thorough: 6000) entries
        small = right == "sptensor" and left in ("sptensor", "sumtensor")
        Y = draw(big(tier, right, shape=shape, vkind=_other_vkind(draw, X["vkind"]), small_nnz=small))
        return dict(X=X, Y=Y)

    def body(ctx, case):
        hx, hy = expand(case["X"]), expand(case["Y"])
        ctx.label(*size_labels(case["X"]), *["right-" + x for x in size_labels(case["Y"])])
        PR.innerprod_body(ctx, dict(X=hx, Y=hy))

    cell(f"C02/large/innerprod/{left}-{right}", strategy=s, quick=2, thorough=8, shards=(1, 2))(body)


for _k in ("tensor", "sptensor", "ktensor", "ttensor", "sumtensor"):
    for _r in PR.INNER_RIGHT[_k]:
        _inner(_k, _r)


def _norm(kind):
    @st.composite
    def s(draw, tier):
        return dict(X=draw(big(tier, kind)), kind=kind)

    def body(ctx, case):
        ctx.label(*size_labels(case["X"]))
        UN.norm_body(ctx, dict(X=expand(case["X"]), kind=kind))

    _register("norm", kind, s, body)


for _k in ("tensor", "sptensor", "ktensor", "ttensor"):
    _norm(_k)


# ---- contract / collapse / scale / mask --------------------------------------


def _contract(kind):
    @st.composite
    def s(draw, tier):
        base = draw(st.sampled_from([(40, 30, 40), (30, 30, 30, 4), (25, 25, 60), (300, 300), (12, 20, 12, 20)]))
        N = len(base)
        sizes = sorted(set(base), key=base.count)
        eq = sizes[-1]
        i, j = [m for m in range(N) if base[m] == eq][:2]
        p = list(draw(st.permutations(range(N))))
        shape = [base[q] for q in p]
        i, j = p.index(i), p.index(j)
        if draw(st.booleans()):
            i, j = j, i
        return dict(X=draw(big(tier, kind, shape=shape)), i=i, j=j)

    def body(ctx, case):
        ctx.label(*size_labels(case["X"]))
        UN.contract_body(ctx, dict(X=expand(case["X"]), i=case["i"], j=case["j"]))

    _register("contract", kind, s, body)


def _collapse(kind):
    @st.composite
    def s(draw, tier):
        X = draw(big(tier, kind))
        N = len(X["shape"])
        form = draw(st.sampled_from(["none", "int", "list", "array", "array"]))
        if form == "none":
            dims = list(range(N))
        elif form == "int":
            dims = [draw(st.integers(0, N - 1))]
        else:
            dims = list(draw(st.permutations(range(N))))[:draw(st.integers(1, N))]
        red = draw(st.sampled_from(UN.DENSE_REDUCERS if kind == "tensor" else UN.SPARSE_REDUCERS))
        return dict(X=X, dims=dims, dform=form, reducer=red)

    def body(ctx, case):
        ctx.label(*size_labels(case["X"]))
        UN.collapse_body(ctx, dict(X=expand(case["X"]), dims=case["dims"], dform=case["dform"], reducer=case["reducer"]))

    _register("collapse", kind, s, body)


def _scale(kind):
    @st.composite
    def s(draw, tier):
        X = draw(big(tier, kind))
        shape = X["shape"]
        N = len(shape)
        fkind = draw(st.sampled_from(["ndarray", "tensor"] if kind == "tensor" else ["ndarray", "tensor", "sptensor"]))
        if fkind == "ndarray" and kind == "sptensor":
            dims = [draw(st.integers(0, N - 1))]
        else:
            dims = list(draw(st.permutations(range(N))))[:draw(st.integers(1, N))]
            # a sparse factor is looked up entry by entry against its stored list (nnz x nnz comparisons): keep it small
            cap = 3000 if fkind == "sptensor" else 10**6
            while len(dims) > 1 and ref.prod(shape[d] for d in dims) > cap:
                dims.pop()
        return dict(X=X, dims=dims, fkind=fkind, aseed=draw(SEED), avkind=_other_vkind(draw, X["vkind"]),
                    fdensity=draw(st.sampled_from([1.0, 0.5])), dform=draw(st.sampled_from(["list", "array"])))

    def body(ctx, case):
        h = expand(case["X"])
        rng = np.random.default_rng(case["aseed"])
        fshape = [h["shape"][d] for d in sorted(case["dims"])]
        f = _values(rng, ref.prod(fshape), case["avkind"], nonzero=True)
        if case["fdensity"] < 1:
            f[rng.random(f.size) >= case["fdensity"]] = 0.0
        ctx.label(*size_labels(case["X"]))
        PR.scale_body(ctx, dict(X=h, dims=case["dims"], dform=case["dform"], fkind=case["fkind"], fshape=fshape,
                                fdata=f.tolist(), forder="sorted", fpattern="some", fdtype=None, fvkind=case["avkind"],
                                fstate=None))

    _register("scale", kind, s, body)


def _mask(kind):
    @st.composite
    def s(draw, tier):
        # sptensor.mask compares every stored entry of the receiver with every one of W (nnz x ones comparisons): one of
        # the two is large
        which = "both"
        if kind == "sptensor":
            which = draw(st.sampled_from(["receiver", "mask"]))
        X = draw(big(tier, kind, small_nnz=which == "mask"))
        cells = ref.prod(X["shape"])
        wkind = draw(st.sampled_from(PR.MASK_W[kind]))
        nones = draw(st.integers(100, 1500)) if which == "receiver" else draw(st.integers(10001, max(10001, min(30000, cells // 2))))
        return dict(X=X, wkind=wkind, nones=nones, aseed=draw(SEED), large=which,
                    worder=draw(st.sampled_from(["sorted", "reverse", "random"])) if wkind == "sptensor" else "sorted",
                    wdtype=draw(st.sampled_from([None, "int64", "bool"])))

    def body(ctx, case):
        h = expand(case["X"])
        shape = h["shape"]
        rng = np.random.default_rng(case["aseed"])
        lin = np.sort(rng.choice(ref.prod(shape), size=min(int(case["nones"]), ref.prod(shape)), replace=False))
        if case["worder"] == "reverse":
            lin = lin[::-1]
        elif case["worder"] == "random":
            lin = rng.permutation(lin)
        wsubs = np.array(np.unravel_index(lin, tuple(shape), order="F")).T.reshape(len(lin), len(shape)).tolist()
        ctx.label(*size_labels(case["X"]), "large-side:" + case.get("large", "both"))
        PR.mask_body(ctx, dict(X=h, wkind=case["wkind"], wshape=list(shape), wsubs=wsubs, worder=case["worder"],
                               wpattern="some", wdtype=case["wdtype"], wstate=None))

    _register("mask", kind, s, body)


for _k in ("tensor", "sptensor"):
    _contract(_k)
    _collapse(_k)
    _scale(_k)
for _k in ("tensor", "sptensor", "ktensor"):
    _mask(_k)


# ---- ttt / ttsv / reconstruct ------------------------------------------------


@st.composite
def _ttt_s(draw, tier):
    X = draw(big(tier, "tensor", shape=_jitter(draw, draw(st.sampled_from(DENSE_SHAPES[:8])), 100000, 200000)))
    s1 = X["shape"]
    N1 = len(s1)
    k = draw(st.integers(1, min(2, N1)))
    sd = list(draw(st.permutations(range(N1))))[:k]
    rest = ref.prod(s1) // ref.prod(s1[a] for a in sd)
    free = [draw(st.integers(1, 3)) for _ in range(draw(st.integers(0, 2)))]
    while free and rest * ref.prod(free) > 600000:
        free.pop()
    N2 = k + len(free)
    od = list(draw(st.permutations(range(N2))))[:k]
    s2 = [None] * N2
    for a, b in zip(sd, od):
        s2[b] = s1[a]
    it = iter(free)
    s2 = [x if x is not None else next(it) for x in s2]
    return dict(X=X, yshape=s2, selfdims=sd, otherdims=od, aseed=draw(SEED), avkind=_other_vkind(draw, X["vkind"]))


def _ttt_body(ctx, case):
    hx = expand(case["X"])
    hy = expand(dict(kind="tensor", shape=case["yshape"], vkind=case["avkind"], seed=case["aseed"], density=0.7,
                     state="ctor", dtype=None))
    ctx.label(*size_labels(case["X"]))
    PR.ttt_tensor(ctx, dict(X=hx, Y=hy, selfdims=case["selfdims"], otherdims=case["otherdims"], mode="pair",
                            scalar_form=False))


_register("ttt", "tensor", _ttt_s, _ttt_body)


@st.composite
def _ttsv_s(draw, tier):
    N, n = draw(st.sampled_from([(2, 400), (3, 60), (3, 90), (4, 20), (4, 27), (5, 11), (6, 7)]))
    X = draw(big(tier, "tensor", shape=[n] * N))
    return dict(X=X, skip_dim=draw(st.sampled_from([None] + list(range(N)))), version=draw(st.sampled_from([None, 1, 2])),
                aseed=draw(SEED), avkind=_other_vkind(draw, X["vkind"]))


def _ttsv_body(ctx, case):
    h = expand(case["X"])
    rng = np.random.default_rng(case["aseed"])
    ctx.label(*size_labels(case["X"]))
    UN.ttsv_body(ctx, dict(X=h, skip_dim=case["skip_dim"], version=case["version"], v=_vec(rng, h["shape"][0], case["avkind"]),
                           vform="array", vdtype=None, vvkind=case["avkind"]))


_register("ttsv", "tensor", _ttsv_s, _ttsv_body)


@st.composite
def _reconstruct_s(draw, tier):
    X = draw(big(tier, "ttensor"))
    N = len(X["shape"])
    form = draw(st.sampled_from(["full", "modes", "modes", "single"]))
    modes = None
    if form == "single":
        modes = [draw(st.integers(0, N - 1))]
    elif form == "modes":
        modes = list(draw(st.permutations(range(N))))[:draw(st.integers(1, N))]
    return dict(X=X, form=form, modes=modes, aseed=draw(SEED), skinds=[draw(st.sampled_from(["index", "matrix"])) for _ in (modes or [])])


def _reconstruct_body(ctx, case):
    h = expand(case["X"])
    rng = np.random.default_rng(case["aseed"])
    samples = None
    if case["modes"] is not None:
        samples = []
        for m, sk in zip(case["modes"], case["skinds"]):
            n = h["shape"][m]
            if sk == "index":
                samples.append(dict(kind="index", value=[int(i) for i in rng.integers(0, n, size=int(rng.integers(1, 5)))]))
            else:
                J = int(rng.integers(1, 4))
                samples.append(dict(kind="matrix", value=_values(rng, J * n, h["vkind"]).reshape(J, n).tolist()))
    ctx.label(*size_labels(case["X"]))
    UN.reconstruct_ttensor(ctx, dict(X=h, form=case["form"], modes=case["modes"], samples=samples, mform="list"))


_register("reconstruct", "ttensor", _reconstruct_s, _reconstruct_body)
