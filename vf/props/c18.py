"""C18 — decomposition results do not depend on how the problem is presented."""

from __future__ import annotations

import logging

import numpy as np
from hypothesis import strategies as st

import pyttb as ttb

from .. import ref
from ..core import cell
from . import _c09_helpers as H
from . import c10 as C10

logging.getLogger().setLevel(logging.ERROR)  # pyttb logs copy warnings / gcp_opt banners through the root logger

PROPERTY = "C18"
RULE = (
    "every case is one generated problem run twice (metamorphic pair); the two runs differ only in presentation: dense vs "
    "sparse holder of the same array (cp_als, cp_apr mu/pdnr/pqnr), printing interval / verbosity with stdout captured "
    "(cp_als, cp_apr x3, hosvd, tucker_als, gcp_opt+LBFGSB), the same np.random seed twice for random starts (cp_als, "
    "cp_apr x3, tucker_als, gcp_opt), data multiplied by c in {2^k, 3.7, 1e-3} (cp_als, hosvd, tucker_als), and modes of "
    "data, guess, ranks and dimorder relabelled by a permutation p (cp_als, hosvd, tucker_als).  Problems are well "
    "conditioned by construction (low-rank model + relative noise, Poisson counts of a low-rank non-negative model, "
    "prescribed spectra with tol away from the rank-switch values, feasible Tucker ranks), few iterations, stoptol 0 so "
    "both runs do the same number of sweeps.  Oracle: den of the two models agree within 1e-7 relative (times c / "
    "transposed by p), fits agree in squared form.  Non-trivial: N >= 3 with rank >= 2 (>= one truncated mode for "
    "hosvd), and for relabelling a non-identity permutation with distinct mode sizes.  Round 2 classes: (1) holders in "
    "derived states (grown / permuted / C-ordered dense data, sparse data with stored zeros, numpy.int64 shapes, results of "
    "conversions and arithmetic); (2) integer-valued data in integer dtypes for cp_als, cp_apr (counts), hosvd, gcp "
    "(counts / binary); (3) state across calls: gcp_opt runs whose LBFGSB object has already solved 1..3 other generated "
    "problems (other sizes, objectives) compared with a fresh object and with a second use on the same problem; "
    "call-history cells for cp_als, cp_apr x3, hosvd, tucker_als (problem P, then 1..3 other problems with explicit options, "
    "then P again with the same objects and, half of the time, every option at its default); (4) structured guesses for "
    "cp_als / tucker_als, block data; (5) every documented numeric option of cp_apr (epsDivZero, kappa, kappatol, epsActive, "
    "mu0, lbfgsMem, maxinneriters, printinneritn) and of LBFGSB (m, factr, pgtol, maxfun, maxls, maxiter up to 1000) over "
    "its admissible range, stoptol log-uniform, data magnitude 1e-6..1e6 (cp_apr data become rates), scale factors up to "
    "1e+-6.  cp_als pairs on instances where ALS itself breaks down are not judged (see C09).  Round 3 classes: (6) data magnitude "
    "also 1e-9, 1e-10, 1e-12, 1e+9, scale factors also 1e-9, 1e-12, 1e+9, 1e+12, given cp_als guesses of magnitude 1e-9 / 1e-12 / "
    "1e+9 / 10^k per column, tucker_als starts unit-length non-orthogonal / nearly orthonormal / nearly identity / tiny / huge; "
    "(7) one problem in 40 is larger (5..6 modes, rank 4..8, a mode of 40..60, 1e4..4e4 cells / stored nonzeros); (8) hosvd on "
    "spectra over 8..13 decades and low rank + noise 1e-7..1e-5 with tol between adjacent rank-switch values down to 3e-6; (9) the "
    "call-history cells change one entry of the long-lived data object by item assignment, call on it and change it back -- "
    "before the first solution of P or between the two -- and compare with objects built afresh; the first result must stay "
    "bit-identical; (10) cp_apr stoptime 0 / 1e-9 (one sweep), LBFGSB maxls 1..3 and maxfun 1, stoptol 2.5 / 1e300, maxiters 1.  "
    "Round 4 classes: (13) `reporting` cells for every algorithm: a quiet baseline and two further runs of the same request with the "
    "reporting interval / verbosity in {0, 1, 2, 3, 1000, -1, numpy.int64 scalars} (cp_apr: printitn x printinneritn, including a quiet "
    "outer loop with inner reporting; gcp_opt: also the silent iprint / disp settings of LBFGSB) under a logging configuration of the "
    "process in {disabled, root at WARNING, root at DEBUG with a NullHandler, root at DEBUG with a formatting StreamHandler}; cp_als "
    "also with the options echoed in the info dictionary given back; (11) `presentation` cells for every algorithm: the favourite "
    "forms against data held C-ordered / read-only (copy=False) / built from a strided or read-only view / float32 (the array is "
    "rounded to single precision first, judged with a single-precision bound) / integer dtype, sparse data with int32 / uint8 / "
    "uint16 / uint64 subscripts, float32 / integer values, read-only arrays, shape as list; the guess over C-ordered / read-only / "
    "strided arrays, weights omitted, list vs tuple vs ktensor (gcp_opt); rank as numpy int64 / int32 / uint8 / uint16 / uint64 "
    "scalar, one rank for all modes (tucker_als), mode lists and rank vectors as tuple / range / numpy arrays of those dtypes / lists "
    "of numpy scalars, iteration limits as numpy ints, hosvd options positionally; option pairs: tucker_als relabelling with the "
    "'nvecs' and 'random' (same seed) starts, cp_als relabelling with 'nvecs'; (12) the call-history cells make an ill-formed request "
    "(duplicated / over-long mode order, rank not matching the guess, rank 0, unknown start or algorithm, negated counts) on the "
    "long-lived objects before the first solution of P or between the two: when it is rejected the objects must be bit for bit what "
    "they were, and the later solutions are judged as if it had not happened."
)
ASSUMPTIONS = [
    "bulk numeric content expanded by np.random.default_rng from Hypothesis-drawn integer seeds",
    "relation tolerance: ||den(M_a) - den(M_b)|| <= 1e-7 * max(||den(M_a)||, ||den(M_b)||) (rounding 1e-16 amplified by the "
    "conditioning of a few ALS sweeps; observed worst 1e-11)",
    "fit relation in squared form: |(1-fit_a)^2 - (1-fit_b)^2| <= 1e-9 * (1 + ||M||^2/||X||^2)",
    "same seed: the returned starting guesses must be bit-identical; models compared with the relation tolerance (the statement "
    "says 'up to rounding')",
    "a guess object is rebuilt for every run (gcp_opt normalises the caller's ktensor in place, which is C05's concern)",
    "hosvd relations use tol at the geometric mean of two adjacent rank-switch values, at least a factor 1.01 away from both, "
    "judged through the mode spectra of the data itself (first mode exactly, later modes of a sequential run approximately); "
    "cases where either run's ranks differ are labelled and judged only on the error bound free clauses",
    "cp_apr: when a pair disagrees, each presentation is rerun ten times with the guess perturbed by 1e-13..1e-11 relative; if "
    "that alone moves a result by more than the relation tolerance 1e-7 (or by more than half of the deviation under judgement) the instance is numerically unstable for the algorithm (stalled line "
    "search -> division by a ~1e-20 curvature product) and is labelled, not judged",
    "cp_apr pqnr runs that raise the known 'L-BFGS first iterate is bad' assertion (C11 finding) are labelled and not judged",
    "tucker_als problems: feasible rank vectors and noisy data (see C10) so that the leading subspaces are well defined",
    "float32 holders: the array is rounded to single precision first, so both presentations denote the same array; the model is "
    "judged with 1e-4 instead of 1e-7 and the fit with 1e-5 in squared form (the norm of the data is a single-precision number)",
    "LBFGSB iprint >= 0 / disp > 0 are not exercised: scipy's Fortran code then writes to file descriptor 1 of the process",
    "whether an ill-formed request made inside a call history is rejected is not judged here (C19); only the state it leaves",
]

PREDICATES = {"int_square_wraps": C10._int_square_wraps}  # more are added below (they need the data builders)

REL = 1e-7


def _norm(A):
    return float(np.sqrt(H.sq(A)))


def _close(ctx, DA, DB, clause, info=""):
    DA, DB = np.asarray(DA, dtype=float), np.asarray(DB, dtype=float)
    if DA.shape != DB.shape:
        ctx.check(False, clause, f"shape {DA.shape} vs {DB.shape}")
        return
    d, s = _norm(DA - DB), max(_norm(DA), _norm(DB))
    r = d / s if s else 0.0
    ctx.label("deviation<1e-12" if r < 1e-12 else ("deviation<1e-9" if r < 1e-9 else "deviation>=1e-9"))
    ctx.check(np.isfinite(d) and d <= REL * s + 1e-300, clause, f"relative deviation {d / s if s else d!r} {info}")


def _fit_close(ctx, fa, fb, ratio, clause):
    ok = H.is_float(fa) and H.is_float(fb) and np.isfinite(fa) and np.isfinite(fb)
    ctx.check(ok and abs((1 - float(fa)) ** 2 - (1 - float(fb)) ** 2) <= 1e-9 * (1 + ratio), clause, (fa, fb))


def _kt(ctx, M, shape, R, tag):
    ctx.require(isinstance(M, ttb.ktensor) and len(M.factor_matrices) == len(shape)
                and all(isinstance(f, np.ndarray) and f.shape == (int(n), R) for f, n in zip(M.factor_matrices, shape))
                and np.asarray(M.weights).shape == (R,), f"{tag}-returns-ktensor-of-rank-and-shape")
    return ref.den(M)


def _inv(p):
    q = [0] * len(p)
    for i, v in enumerate(p):
        q[v] = i
    return q


# --------------------------------------------------------------------------
# CP-ALS
# --------------------------------------------------------------------------


@st.composite
def _als_problem(draw, tier, sparse=False):
    big = draw(st.integers(0, 39)) == 0
    if big:
        # class 7: a few larger problems per run (5..6 modes, rank up to 8, a mode of 40..60; up to ~2e4 cells)
        kind = draw(st.integers(0, 10**6)) % 4
        if kind == 3:  # 1e4 .. 4e4 cells / stored nonzeros
            R, N = draw(st.integers(2, 4)), 3
            shape = [draw(st.integers(22, 34)) for _ in range(N)]
        elif kind == 0:
            R, N = draw(st.integers(1, 3)), draw(st.sampled_from([5, 6]))
            shape = [draw(st.integers(max(R, 2), 4)) for _ in range(N)]
        elif kind == 1:
            R, N = draw(st.integers(4, 8)), draw(st.sampled_from([3, 3, 4]))
            shape = [draw(st.integers(R, R + 3)) for _ in range(N)]
        else:
            R, N = draw(st.integers(2, 5)), draw(st.sampled_from([3, 3, 4]))
            shape = [draw(st.integers(max(R, 2), R + 2)) for _ in range(N)]
            shape[draw(st.integers(0, N - 1))] = draw(st.integers(40, 60))
        while ref.prod(shape) > 20000 and kind != 3:
            shape[max((i for i in range(N) if shape[i] <= 20), key=lambda i: shape[i])] -= 1
    else:
        R = draw(st.sampled_from([1, 2, 2, 3]))
        N = draw(st.sampled_from([2, 3, 3, 4] if tier == "quick" else [2, 3, 3, 4, 4, 5]))
        hi = 5 if tier == "quick" else 6
        shape = [draw(st.integers(max(R, 2), max(R, hi))) if not (R == 1 and draw(st.integers(0, 5)) == 0) else 1
                 for _ in range(N)]
        while ref.prod(shape) > (160 if tier == "quick" else 500) and max(shape) > max(R, 2):
            shape[shape.index(max(shape))] -= 1
    rtrue = draw(st.sampled_from([R, R, R + 1]))
    c = dict(shape=shape, R=R, rtrue=rtrue, noise=draw(st.sampled_from([1e-3, 1e-2, 0.1, 0.5])),
             data_seed=draw(st.integers(0, 10**6)), style=draw(st.sampled_from(["normal", "uniform"])),
             holder="sptensor" if sparse else "tensor", density=draw(st.sampled_from([1.0, 0.8, 0.6])) if sparse else 1.0,
             stored=draw(st.sampled_from(["sorted", "reverse", "random"])),
             scale=draw(st.sampled_from(H.SCALES)),  # magnitude of the data: the relations hold at every magnitude
             sp_state=draw(st.sampled_from(["plain", "plain", "explicit-zeros", "np-shape", "from-tensor", "halved-doubled"])),
             prov=draw(st.sampled_from(H.PROVS_F64)),
             init=draw(st.sampled_from(["normal", "uniform", "normal", "uniform"] + list(H.STRUCTURED_INITS))),
             init_seed=draw(st.integers(0, 10**6)), init_weights="unit", init_scale=draw(st.sampled_from(H.GUESS_SCALES)),
             np_seed=draw(st.integers(0, 2**31 - 1)),
             dimorder=draw(st.one_of(st.none(), st.permutations(range(N)).map(list))),
             maxiters=draw(st.integers(1, 5 if not big else 3)), fixsigns=draw(st.booleans()))
    if draw(st.integers(0, 3)) == 0:
        k = draw(st.integers(1, N))
        c["optdims"] = list(draw(st.permutations(range(N))))[:k]
    else:
        c["optdims"] = None
    return c


def _als(data, case, init, printitn=0, dimorder="case", stoptol=0.0):
    kw = dict(stoptol=stoptol, maxiters=int(case["maxiters"]), init=init, printitn=printitn, fixsigns=case["fixsigns"])
    d = case["dimorder"] if dimorder == "case" else dimorder
    if d is not None:
        kw["dimorder"] = list(d)
    if case.get("optdims") is not None:
        kw["optdims"] = list(case["optdims"])
    if isinstance(init, str) and init == "random":
        np.random.seed(case["np_seed"])
    with H.captured() as buf:
        res = ttb.cp_als(data, int(case["R"]), **kw)
    return res, buf.getvalue()


def _als_labels(ctx, case):
    N, R = len(case["shape"]), int(case["R"])
    ctx.nt = N >= 3 and R >= 2
    ctx.label(f"order{N}", f"R{R}", f"noise-{case['noise']}", "optdims-subset" if case.get("optdims") else "optdims-all",
              "distinct-sizes" if len(set(case["shape"])) > 1 else "cubical", "scale-%g" % float(case.get("scale", 1.0)),
              "dtype-" + case.get("dtype", "float64"),
              "guess-structured" if case.get("init") in H.STRUCTURED_INITS else "guess-generic",
              "problem-large" if N >= 5 or ref.prod(case["shape"]) > 700 else "problem-small",
              "guess-scale-%s" % case.get("init_scale", 1.0), "maxiters-1" if int(case["maxiters"]) == 1 else "maxiters>1")


def _als_breakdown(case, A):
    """NumPy replay of the ALS sweeps (least-squares steps from the given guess in the effective mode order): True when a
    step is singular or annihilates a component up to rounding (see C09._breakdown) -- exact or noise-level zeros then
    decide the result and two presentations may legitimately differ.  Consulted only when a relation fails."""
    g = H.build_init(case)
    if not isinstance(g, ttb.ktensor):
        return False
    U = [np.array(f, dtype=float) for f in g.factor_matrices]
    N = len(U)
    order = case["dimorder"] if case.get("dimorder") is not None else list(range(N))
    if case.get("optdims") is not None:
        order = [d for d in order if d in case["optdims"]]
    nA = np.sqrt(H.sq(A))
    for it in range(int(case["maxiters"])):
        for n in order:
            try:
                Y = H.gram_except(U, n)
                sv = np.linalg.svd(Y, compute_uv=False)
                if sv[0] == 0 or sv[-1] <= 1e-12 * sv[0]:
                    return True
                B = np.linalg.solve(Y.T, H.mttkrp_ref(A, U, n).T).T
            except Exception:  # noqa: BLE001
                return True
            cn = np.sqrt(np.sum(B * B, axis=0))
            if np.any(cn * np.sqrt(np.abs(np.diag(Y))) <= 1e-12 * nA):
                return True
            w = cn if it == 0 else np.maximum(np.max(np.abs(B), axis=0), 1.0)
            U[n] = B / w
    return False


def _als_judged(ctx, case, A, fn):
    """run the relation `fn`; a failure on an instance where ALS itself breaks down is not judged"""
    from ..core import Abort

    try:
        fn()
    except Abort:
        if not (ctx.violations and _als_breakdown(case, A)):
            raise
    else:
        if not (ctx.violations and _als_breakdown(case, A)):
            return
    ctx.violations.clear()
    ctx.nt = False
    ctx.skip("als-breakdown:singular-or-annihilating-step")


def _als_pair(ctx, resA, resB, shape, R, A_norm2, c=1.0, perm=None, tag="pair"):
    ctx.require(all(isinstance(r, tuple) and len(r) == 3 and isinstance(r[2], dict) and "fit" in r[2] for r in (resA, resB)),
                f"{tag}-returns-triples")
    DA = _kt(ctx, resA[0], shape, R, tag + "-first")
    shapeB = shape if perm is None else [shape[i] for i in perm]
    DB = _kt(ctx, resB[0], shapeB, R, tag + "-second")
    want = c * (DA if perm is None else np.transpose(DA, perm))
    _close(ctx, DB, want, f"{tag}-same-model")
    ratio = H.sq(DA) / A_norm2 if A_norm2 else 0.0
    _fit_close(ctx, resA[2]["fit"], resB[2]["fit"], ratio, f"{tag}-same-fit")
    ctx.check(resA[2].get("iters") == resB[2].get("iters"), f"{tag}-same-iteration-count", (resA[2].get("iters"), resB[2].get("iters")))


@st.composite
def _als_dtype_case(draw, tier, sparse):
    """problem whose data may be integer-valued and held in an integer dtype (both holders use the same dtype)"""
    c = draw(_als_problem(tier, sparse=sparse))
    c["dtype"] = draw(st.sampled_from(["float64"] * 8 + sorted(H.INT_RANGE)))
    if c["dtype"] in H.INT_RANGE:
        c["mag"] = draw(st.sampled_from(["small", "medium", "full"]))
        c["scale"] = 1.0
        c["prov"] = draw(st.sampled_from(H.PROVS_ANY))
    return c


@cell("C18/cp_als/dense-vs-sparse", strategy=lambda tier: _als_dtype_case(tier, True), quick=600, thorough=12000, shards=(4, 16))
def als_dense_sparse(ctx, case):
    S, A = H.build_data(case)
    if H.unfolding_margin(A, int(case["R"])) < 1e-3:
        ctx.skip("unfolding-rank-margin")
    _als_labels(ctx, case)
    ctx.label(f"density-{case['density']}", "stored-" + case["stored"], "sparse-" + case["sp_state"])
    D, _ = H.hold(A, case["dtype"], case["prov"], int(case["data_seed"]))

    def rel():
        with ctx.sut("cp_als-dense"):
            ra, _ = _als(D, case, H.build_init(case))
        with ctx.sut("cp_als-sparse"):
            rb, _ = _als(S, case, H.build_init(case))
        _als_pair(ctx, ra, rb, case["shape"], int(case["R"]), H.sq(A), tag="dense-sparse")

    _als_judged(ctx, case, A, rel)


@st.composite
def _als_print_case(draw, tier):
    c = draw(_als_dtype_case(tier, draw(st.booleans())))
    c["printitn"] = draw(st.sampled_from([1, 1, 2, 3, 4, 7, 1000]))
    c["silent"] = draw(st.sampled_from([0, 0, -1, -4]))  # every non-positive interval means silence
    c["stoptol"] = draw(H.STOPTOLS)
    if draw(st.integers(0, 3)) == 0:
        c["init"] = "random"
    return c


@cell("C18/cp_als/printing", strategy=_als_print_case, quick=600, thorough=12000, shards=(4, 16))
def als_printing(ctx, case):
    X, A = H.build_data(case)
    if H.unfolding_margin(A, int(case["R"])) < 1e-3:
        ctx.skip("unfolding-rank-margin")
    _als_labels(ctx, case)
    st_ = float(case["stoptol"])
    ctx.label(case["holder"], f"printitn-{case['printitn']}", "stoptol-0" if st_ == 0 else ("stoptol<1e-6" if st_ < 1e-6 else
                                                                                             "stoptol>=1e-6"), "init-" + case["init"])

    def rel():
        with ctx.sut("cp_als-silent"):
            ra, ta = _als(X, case, H.build_init(case), printitn=int(case.get("silent", 0)), stoptol=st_)
        with ctx.sut("cp_als-printing"):
            rb, tb = _als(X, case, H.build_init(case), printitn=int(case["printitn"]), stoptol=st_)
        ctx.check(ta.strip() == "" and "CP_ALS" in tb, "printing-setting-takes-effect", (ta[:40], tb[:40]))
        _als_pair(ctx, ra, rb, case["shape"], int(case["R"]), H.sq(A), tag="printing")

    _als_judged(ctx, case, A, rel)


@cell("C18/cp_als/same-seed", strategy=lambda tier: _als_dtype_case(tier, False), quick=300, thorough=6000, shards=(4, 16))
def als_same_seed(ctx, case):
    X, A = H.build_data(case)
    if H.unfolding_margin(A, int(case["R"])) < 1e-3:
        ctx.skip("unfolding-rank-margin")
    _als_labels(ctx, case)
    with ctx.sut("cp_als-seeded-1"):
        ra, _ = _als(X, case, "random")
    with ctx.sut("cp_als-seeded-2"):
        rb, _ = _als(X, case, "random")
    _als_pair(ctx, ra, rb, case["shape"], int(case["R"]), H.sq(A), tag="same-seed")
    ctx.check(isinstance(ra[1], ttb.ktensor) and isinstance(rb[1], ttb.ktensor) and H.snapshot(ra[1]) == H.snapshot(rb[1]),
              "same-seed-same-starting-guess")
    # a different seed must give a different start (otherwise the seed is not what drives the start)
    other = dict(case, np_seed=(int(case["np_seed"]) + 1) % (2**31))
    with ctx.sut("cp_als-seeded-3"):
        rc, _ = _als(X, other, "random")
    ctx.check(isinstance(rc, tuple) and len(rc) == 3 and isinstance(rc[1], ttb.ktensor) and H.snapshot(rc[1]) != H.snapshot(ra[1]),
              "different-seed-different-start")


@st.composite
def _scale(draw):
    kind = draw(st.sampled_from(["pow2", "pow2", "3.7", "1e-3", "1e-6", "1e6", "1e3", "1e-9", "1e-12", "1e9", "1e12"]))
    if kind == "pow2":
        return float(2.0 ** draw(st.integers(-40, 40).filter(lambda k: k != 0)))
    return float(kind)


@st.composite
def _als_scale_case(draw, tier):
    c = draw(_als_problem(tier, sparse=draw(st.booleans())))
    c["c"] = draw(_scale())
    return c


@cell("C18/cp_als/scaling", strategy=_als_scale_case, quick=600, thorough=12000, shards=(4, 16))
def als_scaling(ctx, case):
    X, A = H.build_data(case)
    if H.unfolding_margin(A, int(case["R"])) < 1e-3:
        ctx.skip("unfolding-rank-margin")
    _als_labels(ctx, case)
    c = float(case["c"])
    ctx.label(case["holder"], "c-pow2" if np.log2(c) == int(np.log2(c)) else f"c-{c}", "c<1" if c < 1 else "c>1")
    Xc = H.make_tensor(c * A) if case["holder"] == "tensor" else H.make_sptensor(c * A, int(case["data_seed"]), case["stored"])

    def rel():
        with ctx.sut("cp_als"):
            ra, _ = _als(X, case, H.build_init(case))
        with ctx.sut("cp_als-scaled"):
            rb, _ = _als(Xc, case, H.build_init(case))
        _als_pair(ctx, ra, rb, case["shape"], int(case["R"]), H.sq(A), c=c, tag="scaling")

    _als_judged(ctx, case, A, rel)


@st.composite
def _als_relabel_case(draw, tier):
    c = draw(_als_problem(tier, sparse=draw(st.booleans())))
    N = len(c["shape"])
    c["perm"] = list(draw(st.permutations(range(N))))
    if c["dimorder"] is None and draw(st.booleans()):
        c["dimorder"] = list(draw(st.permutations(range(N))))
    # option pairs: the 'nvecs' start (computed per mode from the data) with dimorder / optdims.  Dense data only:
    # sptensor.nvecs refuses all-singleton shapes and k >= n requests, which has nothing to do with relabelling
    if draw(st.integers(0, 7)) == 0 and c["holder"] == "tensor":
        c["init"] = "nvecs"
    return c


@cell("C18/cp_als/relabel", strategy=_als_relabel_case, quick=600, thorough=12000, shards=(4, 16))
def als_relabel(ctx, case):
    X, A = H.build_data(case)
    if H.unfolding_margin(A, int(case["R"])) < 1e-3:
        ctx.skip("unfolding-rank-margin")
    _als_labels(ctx, case)
    shape, N, p = case["shape"], len(case["shape"]), case["perm"]
    q = _inv(p)
    ctx.nt = bool(ctx.nt) and p != sorted(p) and len(set(shape)) > 1
    ctx.label(case["holder"], "perm-identity" if p == sorted(p) else "perm-nontrivial",
              "dimorder-default" if case["dimorder"] is None else "dimorder-given")
    Ap = np.transpose(A, p)
    Xp = H.make_tensor(Ap) if case["holder"] == "tensor" else H.make_sptensor(Ap, int(case["data_seed"]) + 1, case["stored"])
    g = H.build_init(case)
    gp = g if isinstance(g, str) else H.make_ktensor(np.asarray(g.weights), [np.asarray(g.factor_matrices[p[i]]) for i in range(N)])
    ctx.label("init-" + ("nvecs" if isinstance(g, str) else "given"))
    dimorder = case["dimorder"] if case["dimorder"] is not None else list(range(N))
    casep = dict(case, optdims=None if case["optdims"] is None else [q[m] for m in case["optdims"]])

    def rel():
        with ctx.sut("cp_als"):
            ra, _ = _als(X, case, g)
        with ctx.sut("cp_als-relabelled"):
            rb, _ = _als(Xp, casep, gp, dimorder=[q[m] for m in dimorder])
        _als_pair(ctx, ra, rb, shape, int(case["R"]), H.sq(A), perm=p, tag="relabel")

    _als_judged(ctx, case, A, rel)


# --------------------------------------------------------------------------
# CP-APR (mu, pdnr, pqnr)
# --------------------------------------------------------------------------


def apr_counts(case):
    """Poisson counts of a non-negative rank-rtrue model (optionally with an emptied slice); deterministic in the case."""
    shape = [int(s) for s in case["shape"]]
    rng = np.random.default_rng([43, int(case["data_seed"])])
    fm = [rng.uniform(0.1, 1.0, (n, int(case["rtrue"]))) for n in shape]
    lam = ref.den_kruskal(np.full(int(case["rtrue"]), float(case["intensity"])), fm)
    A = rng.poisson(lam).astype(float)
    if case.get("empty_slice") is not None:
        k, i = case["empty_slice"]
        k = int(k) % len(shape)
        idx = [slice(None)] * len(shape)
        idx[k] = int(i) % shape[k]
        A[tuple(idx)] = 0.0
    if case.get("fill_empty"):
        for k in range(A.ndim):
            for i in range(A.shape[k]):
                sl = [0] * A.ndim
                sl[k] = i
                if not np.any(np.moveaxis(A, k, 0)[i]):
                    A[tuple(sl)] = 1.0
    # magnitude of the data (rates instead of counts): the three relations hold at every magnitude
    return A * float(case.get("scale", 1.0))


def apr_holders(case, A):
    """(dense, sparse) holders of the same array; count data may be held in an integer dtype (both holders alike)"""
    dt = case.get("dtype", "float64")
    if dt == "float64" or float(case.get("scale", 1.0)) != 1.0 or float(np.max(A)) > np.iinfo(np.dtype(dt)).max:
        dt = "float64"
    D = H.hold(A, dt, case.get("prov", "ctor"), int(case["data_seed"]))[0]
    S = H.make_sptensor(A, int(case["data_seed"]), case["stored"], dt, case.get("sp_state", "plain"))
    return D, S


def _logu(lo, hi):
    """log-uniform over [10^lo, 10^hi] in quarter decades"""
    return st.integers(4 * lo, 4 * hi).map(lambda k: float(10.0 ** (k / 4.0)))


def _apr_has_empty_slice(case):
    """the count data of the case have an all-zero slice in some mode (an empty row of a mode unfolding)."""
    A = apr_counts(case)
    return any(not np.any(np.moveaxis(A, k, 0)[i]) for k in range(A.ndim) for i in range(A.shape[k]))


PREDICATES["apr_has_empty_slice"] = _apr_has_empty_slice


def _apr_sparse_stores_explicit_zero(case):
    """the sparse holder stores an explicit zero: the sparse pdnr/pqnr row solvers take every stored entry for a count
    (empty-row test by `sparse_indices.size`, 0 * log(0) = nan in the row objective when the model vanishes there)."""
    if case.get("sp_state") != "explicit-zeros":
        return False
    S = apr_holders(case, apr_counts(case))[1]
    return bool(np.any(np.asarray(S.vals) == 0))


PREDICATES["apr_sparse_stores_explicit_zero"] = _apr_sparse_stores_explicit_zero


def apr_init(case):
    shape = [int(s) for s in case["shape"]]
    rng = np.random.default_rng([47, int(case["init_seed"])])
    fm = [rng.uniform(0.1, 1.0, (n, int(case["R"]))) for n in shape]
    return H.make_ktensor(np.ones(int(case["R"])), fm)


def _apr_strategy(alg, relation):
    @st.composite
    def strat(draw, tier):
        R = draw(st.integers(1, 3))
        N = draw(st.sampled_from([2, 3, 3] if tier == "quick" else [2, 3, 3, 4]))
        shape = [draw(st.integers(2, 4 if tier == "quick" else 5)) for _ in range(N)]
        c = dict(alg=alg, shape=shape, R=R, rtrue=draw(st.integers(1, 3)), intensity=draw(st.sampled_from([5.0, 20.0, 100.0])),
                 data_seed=draw(st.integers(0, 10**6)), init_seed=draw(st.integers(0, 10**6)),
                 np_seed=draw(st.integers(0, 2**31 - 1)),
                 empty_slice=draw(st.one_of(st.none(), st.none(), st.tuples(st.integers(0, 3), st.integers(0, 4)).map(list))),
                 stored=draw(st.sampled_from(["sorted", "reverse", "random"])),
                 maxiters=draw(st.integers(1, 3)), maxinneriters=draw(st.integers(1, 6)),
                 stoptol=draw(st.sampled_from([0.0, 0.0, 1e-4])))
        # every documented numeric option over its admissible range; half of the cases leave them at their defaults
        c["scale"] = draw(st.sampled_from([1.0, 1.0, 1.0, 1e-6, 1e-3, 1e3, 1e6]))
        c["dtype"] = draw(st.sampled_from(["float64", "float64", "float64", "int64", "uint8", "int32"]))
        c["prov"] = draw(st.sampled_from(H.PROVS_ANY))
        # stored zeros derail the sparse pdnr/pqnr row solvers (open finding C18-F3) and every such case costs 20 probe runs:
        # reduced rate there
        c["sp_state"] = draw(st.sampled_from(["plain", "plain", "explicit-zeros", "np-shape"] if alg == "mu" else
                                             ["plain"] * 6 + ["np-shape"] * 3 + ["explicit-zeros"]))
        # class 10: a time limit that ends the run after its first sweep (every sweep takes longer than 0 s)
        st_ = draw(st.sampled_from([None] * 7 + [0.0, 1e-9]))
        if st_ is not None:
            c["stoptime"] = st_
        wide = draw(st.booleans())
        c["wide"] = wide
        if wide:
            c["epsDivZero"] = draw(_logu(-16, -2))
            c["maxinneriters"] = draw(st.integers(1, 12))
        if alg == "mu":
            c["kappa"] = draw(_logu(-10, 0)) if wide else draw(st.sampled_from([0.01, 0.1]))
            if wide:
                c["kappatol"] = draw(_logu(-16, -2))
        if alg == "pdnr":
            c["inexact"] = draw(st.booleans())
            c["precompinds"] = draw(st.booleans())
            if wide:
                c["mu0"] = draw(_logu(-10, 0))
                c["epsActive"] = draw(_logu(-12, -2))
        if alg == "pqnr":
            c["lbfgsMem"] = draw(st.integers(1, 8 if wide else 4))
            c["precompinds"] = draw(st.booleans())
            if wide:
                c["epsActive"] = draw(_logu(-12, -2))
            # a dense run with an empty slice always ends in the known pqnr assertion (C11 finding): that class is kept
            # at a reduced rate, otherwise every empty slice gets one count
            c["fill_empty"] = draw(st.integers(0, 7)) != 0
        if relation == "printing":
            c["holder"] = draw(st.sampled_from(["tensor", "sptensor"]))
            c["printitn"] = draw(st.sampled_from([1, 1, 2, 3, 7, 1000]))
            c["printinneritn"] = draw(st.sampled_from([0, 0, 1, 2, 5, 100]))
            # also runs that do reach their stopping test (looser tolerance, more sweeps): both must stop at the same sweep
            c["stoptol"] = draw(st.sampled_from([0.0, 1e-4, 1e-2, 0.1]))
            c["maxiters"] = draw(st.integers(1, 6))
        if relation == "same-seed":
            c["holder"] = draw(st.sampled_from(["tensor", "sptensor"]))
        return c

    return strat


def _apr(data, case, init, printitn=0, printinneritn=0):
    kw = dict(algorithm=case["alg"], stoptol=float(case["stoptol"]), maxiters=int(case["maxiters"]),
              maxinneriters=int(case["maxinneriters"]), init=init, printitn=printitn, printinneritn=printinneritn)
    for k in ("kappa", "inexact", "precompinds", "lbfgsMem", "epsDivZero", "kappatol", "mu0", "epsActive", "stoptime"):
        if k in case:
            kw[k] = case[k]
    if isinstance(init, str):
        np.random.seed(case["np_seed"])
    with H.captured() as buf:
        res = ttb.cp_apr(data, int(case["R"]), **kw)
    return res, buf.getvalue()


class _KnownPqnr(Exception):
    pass


def _apr_call(ctx, what, *a, **k):
    """ctx.sut, except that the known pqnr assertion (C11 finding) ends the case without a verdict."""
    try:
        return _apr(*a, **k)
    except AssertionError as e:
        if "L-BFGS first iterate is bad" in str(e):
            raise _KnownPqnr() from None
        with ctx.sut(what):
            raise
    except Exception:  # noqa: BLE001
        with ctx.sut(what):
            raise


def _apr_labels(ctx, case, A):
    N, R = len(case["shape"]), int(case["R"])
    ctx.nt = N >= 3 and R >= 2
    empty = any(not np.any(np.moveaxis(A, k, 0)[i]) for k in range(A.ndim) for i in range(A.shape[k]))
    ctx.label(f"order{N}", f"R{R}", "has-empty-slice" if empty else "no-empty-slice", f"stoptol-{case['stoptol']}",
              f"intensity-{case['intensity']}", "scale-%g" % float(case.get("scale", 1.0)), "dtype-" + case.get("dtype", "float64"),
              "options-wide-range" if case.get("wide") else "options-default",
              "stoptime-0" if "stoptime" in case else "stoptime-default", "maxiters-1" if int(case["maxiters"]) == 1 else "maxiters>1")
    if "epsDivZero" in case:
        ctx.label("epsDivZero>=1e-6" if case["epsDivZero"] >= 1e-6 else "epsDivZero<1e-6")


def _perturbed_init(case, k):
    """the guess with every entry multiplied by (1 + eps * xi), xi uniform in [-1, 1], eps cycling through 1e-13, 1e-12,
    1e-11 (deterministic in case and k)."""
    g = apr_init(case)
    rng = np.random.default_rng([61, int(case["init_seed"]), k])
    eps = (1e-13, 1e-12, 1e-11)[k % 3]
    return H.make_ktensor(np.asarray(g.weights), [np.asarray(f) * (1 + eps * rng.uniform(-1, 1, f.shape))
                                                   for f in g.factor_matrices])


NPROBES = 10  # per presentation; a flipped branch shows in about half of the probes, so 2 x 10 misses it with p ~ 1e-6


def _apr_pair(ctx, ra, rb, case, tag, rerun, diagnose=None):
    """den of both models agree to REL -- unless the instance is numerically unstable for the algorithm itself: the
    row-subproblem solvers divide by step / curvature products that can be ~1e-20 once a line search stalls, and then a
    1e-13..1e-11 perturbation of the *guess* moves the result of one and the same presentation by more than the relation
    tolerance itself (smooth amplification >= 1e5, or a flipped branch -- row declared converged / line-search step
    accepted -- whose effect exceeds the tolerance).  Such instances say nothing about presentation; they are labelled and
    not judged.  The probe runs only when the relation fails."""
    ctx.require(all(isinstance(r, tuple) and len(r) == 3 for r in (ra, rb)), f"{tag}-returns-triples")
    DA = _kt(ctx, ra[0], case["shape"], int(case["R"]), tag + "-first")
    DB = _kt(ctx, rb[0], case["shape"], int(case["R"]), tag + "-second")
    d, s = _norm(DA - DB), max(_norm(DA), _norm(DB))
    r = d / s if s else 0.0
    ctx.label("deviation<1e-12" if r < 1e-12 else ("deviation<1e-9" if r < 1e-9 else "deviation>=1e-9"))
    if np.isfinite(d) and d <= REL * s:
        return
    for which, base in ((0, DA), (1, DB)):
        for k in range(NPROBES):
            try:
                rp = rerun(which, _perturbed_init(case, NPROBES * which + k))
            except Exception:  # noqa: BLE001  (a probe that raises says the instance is on an edge, too)
                ctx.label("unstable-instance-not-judged")
                ctx.nt = False
                return
            if not (isinstance(rp, tuple) and len(rp) == 3 and isinstance(rp[0], ttb.ktensor)):
                continue
            DP = ref.den(rp[0])
            # unstable: the perturbation alone moves the result by more than the tolerance, or by more than half of the
            # deviation under judgement (a flipped branch -- trust-region ratio, converged-row test -- whose effect is of
            # the size of that deviation: observed 9.5e-8 against a deviation of 1.3e-7)
            if DP.shape != base.shape or not _norm(DP - base) <= min(REL * s, 0.5 * d):
                ctx.label("unstable-instance-not-judged")
                ctx.nt = False
                return
    suffix = diagnose() if diagnose is not None else ""
    ctx.check(False, f"{tag}-same-model{suffix}", f"relative deviation {r!r}; ten 1e-13..1e-11 perturbations of the guess moved neither "
                                          f"run by more than 1e-7")


def _apr_body(relation):
    def body(ctx, case):
        A = apr_counts(case)
        if not A.any():
            ctx.skip("all-zero-counts")
        _apr_labels(ctx, case, A)
        try:
            if relation == "dense-vs-sparse":
                D, S = apr_holders(case, A)
                ra, _ = _apr_call(ctx, "cp_apr-dense", D, case, apr_init(case))
                rb, _ = _apr_call(ctx, "cp_apr-sparse", S, case, apr_init(case))
                rerun = lambda w, g: _apr(S if w else D, case, g)[0]  # noqa: E731

                def diagnose():
                    """':dense-keeps-empty-row' when, after some sweep, the dense run (and not the sparse one) has a non-zero
                    factor row for a slice without counts -- the signature of known finding C18-F1."""
                    empties = [(k, i) for k in range(A.ndim) for i in range(A.shape[k]) if not np.any(np.moveaxis(A, k, 0)[i])]
                    keeps = {0: False, 1: False}
                    for w, X in ((0, D), (1, S)):
                        for sweeps in range(1, int(case["maxiters"]) + 1):
                            try:
                                Mk = _apr(X, dict(case, maxiters=sweeps), apr_init(case))[0][0]
                                keeps[w] = keeps[w] or any(np.any(Mk.factor_matrices[k][i, :] != 0) for k, i in empties)
                            except Exception:  # noqa: BLE001
                                return ""
                    return ":dense-keeps-empty-row" if keeps[0] and not keeps[1] else ""
            elif relation == "printing":
                X = apr_holders(case, A)[0 if case["holder"] == "tensor" else 1]
                ctx.label(case["holder"])
                ra, ta = _apr_call(ctx, "cp_apr-silent", X, case, apr_init(case))
                rb, tb = _apr_call(ctx, "cp_apr-printing", X, case, apr_init(case), printitn=int(case["printitn"]),
                                   printinneritn=int(case["printinneritn"]))
                # (pdnr / pqnr announce an exceeded time limit whatever printitn says: not what this clause is about)
                ta_ = "\n".join(ln for ln in ta.splitlines() if "time limit exceeded" not in ln)
                ctx.check(ta_.strip() == "" and tb.strip() != "", "printing-setting-takes-effect", (ta[:40], tb[:40]))
                rerun = lambda w, g: _apr(X, case, g, printitn=int(case["printitn"]) if w else 0,  # noqa: E731
                                          printinneritn=int(case["printinneritn"]) if w else 0)[0]
            else:
                X = apr_holders(case, A)[0 if case["holder"] == "tensor" else 1]
                ctx.label(case["holder"])
                ra, _ = _apr_call(ctx, "cp_apr-seeded-1", X, case, "random")
                rb, _ = _apr_call(ctx, "cp_apr-seeded-2", X, case, "random")
                ctx.check(isinstance(ra, tuple) and isinstance(rb, tuple) and isinstance(ra[1], ttb.ktensor)
                          and isinstance(rb[1], ttb.ktensor) and H.snapshot(ra[1]) == H.snapshot(rb[1]),
                          "same-seed-same-starting-guess")
                rerun = None
            if relation == "printing":

                def diagnose():
                    """':objective-evaluation-normalises-running-model' when the printing run agrees with the silent one as soon as
                    the mid-run objective evaluation (done only when printing) is made side-effect free by handing it a copy of
                    the model -- the signature of known finding C18-F2.  Diagnosis only; the verdict stays a violation."""
                    import importlib

                    mod = importlib.import_module("pyttb.cp_apr")
                    orig = getattr(mod, "tt_loglikelihood", None)
                    if orig is None:
                        return ""
                    try:
                        mod.tt_loglikelihood = lambda Dt, Md: orig(Dt, Md.copy())
                        rp = _apr(X, case, apr_init(case), printitn=int(case["printitn"]),
                                  printinneritn=int(case["printinneritn"]))[0]
                        rs = _apr(X, case, apr_init(case))[0]
                        DP, DS = ref.den(rp[0]), ref.den(rs[0])
                        ok = DP.shape == DS.shape and _norm(DP - DS) <= REL * max(_norm(DP), _norm(DS))
                    except Exception:  # noqa: BLE001
                        ok = False
                    finally:
                        mod.tt_loglikelihood = orig
                    return ":objective-evaluation-normalises-running-model" if ok else ""

            elif relation != "dense-vs-sparse":
                diagnose = None
        except _KnownPqnr:
            ctx.label("pqnr-known-assertion-not-judged")
            ctx.nt = False
            return
        if rerun is None:
            # same seed, same presentation: deterministic, no conditioning argument applies
            ctx.require(all(isinstance(r, tuple) and len(r) == 3 for r in (ra, rb)), "same-seed-returns-triples")
            _close(ctx, _kt(ctx, ra[0], case["shape"], int(case["R"]), "same-seed-first"),
                   _kt(ctx, rb[0], case["shape"], int(case["R"]), "same-seed-second"), "same-seed-same-model")
        else:
            _apr_pair(ctx, ra, rb, case, relation, rerun, diagnose)

    return body


for _alg in ("mu", "pdnr", "pqnr"):
    for _rel, _q, _t in (("dense-vs-sparse", 400, 10000), ("printing", 200, 5000), ("same-seed", 80, 2000)):
        cell(f"C18/cp_apr-{_alg}/{_rel}", strategy=_apr_strategy(_alg, _rel), quick=_q, thorough=_t, shards=(4, 16))(_apr_body(_rel))


# --------------------------------------------------------------------------
# HOSVD
# --------------------------------------------------------------------------


@st.composite
def _hosvd_problem(draw, tier):
    N = draw(st.sampled_from([2, 3, 3, 4] if tier == "quick" else [2, 3, 3, 4, 4]))
    hi = 5 if tier == "quick" else 6
    if draw(st.integers(0, 39)) == 0:
        # class 7: a few larger problems per run (5..6 modes, or a mode of 40..60; up to ~2e4 cells)
        if draw(st.integers(0, 10**6)) % 2 == 0:
            N = draw(st.sampled_from([5, 6]))
            shape = [draw(st.integers(2, 4)) for _ in range(N)]
        else:
            N = max(N, 3)
            shape = [draw(st.integers(2, 8)) for _ in range(N)]
            shape[draw(st.integers(0, N - 1))] = draw(st.integers(40, 60))
            while ref.prod(shape) > 20000:
                shape[max((i for i in range(N) if shape[i] <= 20), key=lambda i: shape[i])] -= 1
    else:
        shape = [draw(st.integers(2, hi)) for _ in range(N)]
        while ref.prod(shape) > (200 if tier == "quick" else 600):
            shape[shape.index(max(shape))] -= 1
    dtype = draw(st.sampled_from(["float64"] * 8 + sorted(C10.INT_RANGE)))
    if dtype in C10.INT_RANGE:
        kind = "int-lowrank"
    else:
        # superdiag with a spectrum over 8..13 decades / low rank + noise at 1e-7 .. 1e-5: rank-switch values down to 1e-6
        kind = draw(st.sampled_from(["tucker-decay", "tucker-decay", "lowrank-noise", "block", "superdiag", "near-lowrank"]))
    c = dict(shape=shape, kind=kind, data_seed=draw(st.integers(0, 10**6)), scale=draw(st.sampled_from(H.SCALES)),
             dtype=dtype, mag=draw(st.sampled_from(["small", "medium", "full"])),
             prov=draw(st.sampled_from(H.PROVS_F64 if dtype == "float64" else H.PROVS_ANY)),
             rtrue=draw(st.integers(1, 3)),
             noise=draw(st.sampled_from([0.05, 0.3, 1.0])), tol_mode=draw(st.integers(0, 3)), tol_index=draw(st.integers(0, 5)),
             sequential=draw(st.booleans()), dimorder=draw(st.one_of(st.none(), st.permutations(range(N)).map(list))),
             ranks=None)
    if kind == "superdiag":
        c["spectrum"] = draw(st.sampled_from(["wide-8", "wide-10", "wide-12", "wide-13", "strong-then-weak", "steep", "geometric"]))
    if kind == "near-lowrank":
        c["mlrank"] = [draw(st.integers(1, n)) for n in shape]
        c["noise"] = draw(st.sampled_from([1e-7, 1e-6, 1e-5]))
    if kind == "lowrank-noise":
        c["noise"] = draw(st.sampled_from([1e-6, 1e-5, 0.05, 0.3, 1.0]))
    if draw(st.integers(0, 4)) == 0:
        c["ranks"] = [draw(st.integers(1, n)) for n in shape]
    return c


def _mid_tol(A, case):
    """tol in the middle (geometric mean) of two adjacent rank-switch values of the merged list of all modes, both at least
    2 % away; or below the smallest / above the largest one.  None when no such gap exists."""
    sw = sorted({v for k in range(A.ndim) for v in C10.switch_tols(A, k)})
    cands = [float(np.sqrt(a * b)) for a, b in zip(sw[:-1], sw[1:]) if b / a > 1.0404]
    if sw and sw[0] > 1e-6:
        cands.append(sw[0] / 2)
    if sw and sw[-1] < 0.9:
        cands.append(float(np.sqrt(sw[-1] * 0.99)))
    if not sw:
        cands.append(0.5)
    # below 3e-6 a tail sum (tol^2 ||X||^2 / d ~ 1e-12 ||X||^2) is no longer resolved to a percent by the Gram matrices
    # (eps ||X||^2 per eigenvalue): the rank choice itself would then depend on rounding
    cands = [t for t in cands if t >= 3e-6]
    if not cands:
        return None
    return cands[(int(case["tol_index"]) + 7 * int(case["tol_mode"])) % len(cands)]


def _hosvd(X, tol, case, verbosity=0, dimorder="case", ranks="case"):
    kw = dict(verbosity=verbosity, sequential=bool(case["sequential"]))
    d = case["dimorder"] if dimorder == "case" else dimorder
    if d is not None:
        kw["dimorder"] = list(d)
    r = case["ranks"] if ranks == "case" else ranks
    if r is not None:
        kw["ranks"] = [int(x) for x in r]
    with H.captured() as buf:
        T = ttb.hosvd(X, tol, **kw)
    return T, buf.getvalue()


def _tt(ctx, T, N, tag):
    ctx.require(isinstance(T, ttb.ttensor) and isinstance(T.core, ttb.tensor) and len(T.factor_matrices) == N
                and all(isinstance(u, np.ndarray) and u.ndim == 2 for u in T.factor_matrices), f"{tag}-returns-ttensor")
    ranks = [int(u.shape[1]) for u in T.factor_matrices]
    ctx.require(tuple(T.core.shape) == tuple(ranks), f"{tag}-core-matches-factors")
    return ref.den(T), ranks


def _hosvd_setup(ctx, case):
    A = C10.hosvd_data(case)
    tol = _mid_tol(A, case)
    if tol is None:
        ctx.skip("no-well-separated-switch-values")
    N = A.ndim
    ctx.label(f"order{N}", case["kind"], "sequential" if case["sequential"] else "all-at-once",
              "ranks-given" if case["ranks"] is not None else "ranks-auto", "dtype-" + case.get("dtype", "float64"),
              "scale-%g" % float(case.get("scale", 1.0)), "problem-large" if N >= 5 or A.size > 700 else "problem-small",
              "tol<1e-4" if tol < 1e-4 else ("tol<1e-2" if tol < 1e-2 else "tol>=1e-2"))
    return A, tol


def _hosvd_hold(case, A):
    return H.hold(A, case.get("dtype", "float64"), case.get("prov", "ctor"), int(case["data_seed"]))[0]


def _hosvd_pair(ctx, Ta, Tb, A, case, c=1.0, perm=None, tag="pair"):
    N = A.ndim
    DA, ra = _tt(ctx, Ta, N, tag + "-first")
    DB, rb = _tt(ctx, Tb, N, tag + "-second")
    ra_p = ra if perm is None else [ra[i] for i in perm]
    ctx.nt = N >= 3 and any(r < n for r, n in zip(ra, A.shape))
    if not case["sequential"] or case["ranks"] is not None:
        ctx.check(ra_p == rb, f"{tag}-same-ranks", (ra_p, rb))
    elif ra_p != rb:
        # sequential + automatic ranks: the later modes' spectra are those of the shrunk tensor, which my margin only
        # approximates; a rank flip there is a legitimate tie, not judged
        ctx.label("sequential-rank-tie-not-judged")
        return
    want = c * (DA if perm is None else np.transpose(DA, perm))
    _close(ctx, DB, want, f"{tag}-same-model")


@st.composite
def _hosvd_print_case(draw, tier):
    c = draw(_hosvd_problem(tier))
    c["verbosity"] = draw(st.sampled_from([1, 3, 6, 11, 0.5, 2.5, 1000]))
    c["silent"] = draw(st.sampled_from([0, -1, -7.5]))
    return c


@cell("C18/hosvd/printing", strategy=_hosvd_print_case, quick=800, thorough=16000, shards=(4, 16))
def hosvd_printing(ctx, case):
    A, tol = _hosvd_setup(ctx, case)
    X = _hosvd_hold(case, A)
    ctx.label(f"verbosity-{case['verbosity']}")
    with ctx.sut("hosvd-silent"):
        Ta, ta = _hosvd(X, tol, case, verbosity=case["silent"])
    with ctx.sut("hosvd-verbose"):
        Tb, tb = _hosvd(X, tol, case, verbosity=case["verbosity"])
    ctx.check(ta.strip() == "" and "HOSVD" in tb, "printing-setting-takes-effect", (ta[:40], tb[:40]))
    _hosvd_pair(ctx, Ta, Tb, A, case, tag="printing")


@st.composite
def _hosvd_scale_case(draw, tier):
    c = draw(_hosvd_problem(tier))
    c["c"] = draw(_scale())
    return c


@cell("C18/hosvd/scaling", strategy=_hosvd_scale_case, quick=800, thorough=16000, shards=(4, 16))
def hosvd_scaling(ctx, case):
    A, tol = _hosvd_setup(ctx, case)
    c = float(case["c"])
    ctx.label("c<1" if c < 1 else "c>1")
    with ctx.sut("hosvd"):
        Ta, _ = _hosvd(_hosvd_hold(case, A), tol, case)
    with ctx.sut("hosvd-scaled"):
        Tb, _ = _hosvd(H.make_tensor(c * A), tol, case)
    _hosvd_pair(ctx, Ta, Tb, A, case, c=c, tag="scaling")


@st.composite
def _hosvd_relabel_case(draw, tier):
    c = draw(_hosvd_problem(tier))
    N = len(c["shape"])
    c["perm"] = list(draw(st.permutations(range(N))))
    if c["dimorder"] is None and draw(st.booleans()):
        c["dimorder"] = list(draw(st.permutations(range(N))))
    return c


@cell("C18/hosvd/relabel", strategy=_hosvd_relabel_case, quick=800, thorough=16000, shards=(4, 16))
def hosvd_relabel(ctx, case):
    A, tol = _hosvd_setup(ctx, case)
    N, p = A.ndim, case["perm"]
    q = _inv(p)
    ctx.label("perm-identity" if p == sorted(p) else "perm-nontrivial",
              "dimorder-default" if case["dimorder"] is None else "dimorder-given")
    dimorder = case["dimorder"] if case["dimorder"] is not None else list(range(N))
    ranks_p = None if case["ranks"] is None else [case["ranks"][p[i]] for i in range(N)]
    with ctx.sut("hosvd"):
        Ta, _ = _hosvd(_hosvd_hold(case, A), tol, case)
    with ctx.sut("hosvd-relabelled"):
        Tb, _ = _hosvd(H.hold(np.transpose(A, p), case.get("dtype", "float64"), "ctor")[0], tol, case,
                       dimorder=[q[m] for m in dimorder], ranks=ranks_p)
    _hosvd_pair(ctx, Ta, Tb, A, case, perm=p, tag="relabel")
    ctx.nt = bool(ctx.nt) and p != sorted(p) and len(set(case["shape"])) > 1


# --------------------------------------------------------------------------
# Tucker-ALS
# --------------------------------------------------------------------------


@st.composite
def _tucker_problem(draw, tier):
    N = draw(st.sampled_from([2, 3, 3, 4] if tier == "quick" else [2, 3, 3, 4, 4]))
    hi = 5 if tier == "quick" else 6
    big = draw(st.integers(0, 39)) == 0
    if big:
        # class 7: a few larger problems per run (5..6 modes, or a mode of 40..60; up to ~2e4 cells)
        if draw(st.integers(0, 10**6)) % 2 == 0:
            N = draw(st.sampled_from([5, 6]))
            shape = [draw(st.integers(2, 4)) for _ in range(N)]
        else:
            N = max(N, 3)
            shape = [draw(st.integers(2, 8)) for _ in range(N)]
            shape[draw(st.integers(0, N - 1))] = draw(st.integers(40, 60))
            while ref.prod(shape) > 20000:
                shape[max((i for i in range(N) if shape[i] <= 20), key=lambda i: shape[i])] -= 1
    else:
        shape = [draw(st.integers(2, hi)) for _ in range(N)]
        while ref.prod(shape) > (200 if tier == "quick" else 500):
            shape[shape.index(max(shape))] -= 1
    rank = [draw(st.integers(1, min(n, 8))) for n in shape]
    for _ in range(2 * N):
        for n in range(N):
            rank[n] = min(rank[n], ref.prod(rank) // rank[n])
    # the data have a clear multilinear-rank structure at exactly the requested ranks plus noise: a spectral gap at the cut
    c = dict(shape=shape, kind="tucker-noise", mlrank=list(rank), noise=draw(st.sampled_from([1e-6, 1e-3, 1e-2, 0.1])),
             scale=draw(st.sampled_from(H.SCALES)), prov=draw(st.sampled_from(H.PROVS_F64)),
             data_seed=draw(st.integers(0, 10**6)), rank=rank, rank_form="list", init="list", init_seed=draw(st.integers(0, 10**6)),
             np_seed=draw(st.integers(0, 2**31 - 1)), dimorder=draw(st.one_of(st.none(), st.permutations(range(N)).map(list))),
             form="list", maxiters=draw(st.integers(1, 4 if not big else 2)))
    return c


def _tucker(X, case, init, printitn=0, stoptol=0.0, dimorder="case", rank=None):
    kw = dict(stoptol=stoptol, maxiters=int(case["maxiters"]), init=init, printitn=printitn)
    d = case["dimorder"] if dimorder == "case" else dimorder
    if d is not None:
        kw["dimorder"] = list(d)
    if isinstance(init, str) and init == "random":
        np.random.seed(case["np_seed"])
    with H.captured() as buf:
        res = ttb.tucker_als(X, list(case["rank"] if rank is None else rank), **kw)
    return res, buf.getvalue()


def _tucker_labels(ctx, case):
    N = len(case["shape"])
    ctx.nt = N >= 3 and any(r < n for r, n in zip(case["rank"], case["shape"])) and max(case["rank"]) >= 2
    ctx.label(f"order{N}", f"noise-{case['noise']}", "truncating" if any(r < n for r, n in zip(case["rank"], case["shape"]))
              else "full-ranks", "scale-%g" % float(case.get("scale", 1.0)),
              "problem-large" if N >= 5 or ref.prod(case["shape"]) > 700 else "problem-small",
              "maxiters-1" if int(case["maxiters"]) == 1 else "maxiters>1")


def _tucker_hold(case, A):
    return H.hold(A, "float64", case.get("prov", "ctor"), int(case["data_seed"]))[0]


def _tucker_pair(ctx, ra, rb, A, case, c=1.0, perm=None, tag="pair", control=None):
    """control: re-runs the first presentation.  tensor.nvecs goes through ARPACK for r < n - 1, whose start vector comes
    from an unseedable process-wide stream; where a requested direction has a Gram eigenvalue at noise level two runs of
    one and the same presentation already differ by far more than the relation tolerance (thorough tier: 3e-6 with
    noise 1e-6).  Such an instance says nothing about the relation under judgement: labelled, not judged."""
    ctx.require(all(isinstance(r, tuple) and len(r) == 3 and isinstance(r[2], dict) and "fit" in r[2] for r in (ra, rb)),
                f"{tag}-returns-triples")
    if control is not None and any(r < n - 1 for r, n in zip(case["rank"], case["shape"])):
        try:
            with H.captured():
                rc = control()
            rc = rc[0] if isinstance(rc, tuple) and len(rc) == 2 and isinstance(rc[0], tuple) else rc
            DA0, DC0 = ref.den(ra[0]), ref.den(rc[0])
            dev = _norm(DA0 - DC0)
            repro = bool(np.isfinite(dev) and dev <= 0.1 * REL * max(_norm(DA0), _norm(DC0)) + 1e-300
                         and ra[2].get("iters") == rc[2].get("iters"))
        except Exception:  # noqa: BLE001  (the control is not the call under judgement)
            repro = True
        if not repro:
            ctx.label("arpack-run-to-run-deviation-not-judged")
            ctx.nt = False
            return
    N = A.ndim
    DA, _ = _tt(ctx, ra[0], N, tag + "-first")
    DB, _ = _tt(ctx, rb[0], N, tag + "-second")
    want = c * (DA if perm is None else np.transpose(DA, perm))
    _close(ctx, DB, want, f"{tag}-same-model")
    _fit_close(ctx, ra[2]["fit"], rb[2]["fit"], 1.0, f"{tag}-same-fit")
    ctx.check(ra[2].get("iters") == rb[2].get("iters"), f"{tag}-same-iteration-count")


@st.composite
def _tucker_print_case(draw, tier):
    c = draw(_tucker_problem(tier))
    c["printitn"] = draw(st.sampled_from([1, 1, 2, 3, 7, 1000]))
    c["silent"] = draw(st.sampled_from([0, 0, -1, -4]))
    c["init"] = draw(st.sampled_from(["list", "random", "nvecs", "list-eye", "list-zeros", "list-int"]))
    # at most 0.5: tucker_als tests the very first fit against stoptol, and an exact fit (1 up to rounding, which ARPACK's
    # unseedable start vector perturbs) would sit exactly on a threshold of 1
    c["stoptol"] = min(draw(H.STOPTOLS), 0.5)
    return c


@cell("C18/tucker_als/printing", strategy=_tucker_print_case, quick=400, thorough=8000, shards=(4, 16))
def tucker_printing(ctx, case):
    A = C10.tucker_data(case)
    _tucker_labels(ctx, case)
    st_ = float(case["stoptol"])
    ctx.label("init-" + case["init"], "stoptol-0" if st_ == 0 else ("stoptol<1e-6" if st_ < 1e-6 else "stoptol>=1e-6"))
    X = _tucker_hold(case, A)
    with ctx.sut("tucker_als-silent"):
        ra, ta = _tucker(X, case, C10._tucker_init(case), printitn=int(case.get("silent", 0)), stoptol=float(case["stoptol"]))
    with ctx.sut("tucker_als-printing"):
        rb, tb = _tucker(X, case, C10._tucker_init(case), printitn=int(case["printitn"]), stoptol=float(case["stoptol"]))
    ctx.check("Iter" not in ta and "Iter" in tb, "printing-setting-takes-effect", (ta[:40], tb[:40]))
    its = [r[2].get("iters") if isinstance(r, tuple) and len(r) == 3 and isinstance(r[2], dict) else None for r in (ra, rb)]
    arpack = any(r < n - 1 for r, n in zip(case["rank"], case["shape"]))
    if st_ > 0 and arpack and its[0] != its[1]:
        # tensor.nvecs goes through ARPACK, whose start vector comes from an unseedable process-wide stream: every run is
        # perturbed at rounding level, and the reported fit of a (near-)exact model carries sqrt(eps) ~ 1e-8 noise.  When
        # some fit change (from silent runs truncated at k sweeps, stoptol 0) lies within 1e-6 of stoptol, two runs of one
        # and the same presentation may stop at different sweeps: the instance says nothing about presentations.
        fits = []
        for k in range(1, int(case["maxiters"]) + 1):
            with ctx.sut("tucker_als-truncated"):
                rk, _ = _tucker(X, dict(case, maxiters=k), C10._tucker_init(case), printitn=0, stoptol=0.0)
            f = rk[2].get("fit") if isinstance(rk, tuple) and len(rk) == 3 and isinstance(rk[2], dict) else None
            fits.append(float(f) if H.is_float(f) else float("nan"))
        deltas = [abs(fits[k] - (fits[k - 1] if k else 0.0)) for k in range(len(fits))]
        if any(not np.isfinite(d) or abs(d - st_) <= 1e-6 for d in deltas):
            ctx.label("arpack-stop-threshold-tie-not-judged")
            ctx.nt = False
            return
    if arpack:
        # control: ARPACK's start vector comes from an unseedable process-wide stream.  Where a requested direction has a
        # Gram eigenvalue at noise level, two runs of one and the same (silent) presentation already differ by far
        # more than the relation tolerance (thorough tier: 3e-6 with noise 1e-6): such an instance says nothing about
        # printing and is labelled, not judged
        with ctx.sut("tucker_als-silent-again"):
            rc, _ = _tucker(X, case, C10._tucker_init(case), printitn=int(case.get("silent", 0)), stoptol=float(case["stoptol"]))
        try:
            DA0, DC0 = ref.den(ra[0]), ref.den(rc[0])
            dev = _norm(DA0 - DC0)
            repro = bool(np.isfinite(dev) and dev <= 0.1 * REL * max(_norm(DA0), _norm(DC0)) + 1e-300
                         and ra[2].get("iters") == rc[2].get("iters"))
        except Exception:  # noqa: BLE001
            repro = True
        if not repro:
            ctx.label("arpack-run-to-run-deviation-not-judged")
            ctx.nt = False
            return
    _tucker_pair(ctx, ra, rb, A, case, tag="printing")


@cell("C18/tucker_als/same-seed", strategy=_tucker_problem, quick=200, thorough=5000, shards=(4, 16))
def tucker_same_seed(ctx, case):
    A = C10.tucker_data(case)
    _tucker_labels(ctx, case)
    X = _tucker_hold(case, A)
    with ctx.sut("tucker_als-seeded-1"):
        ra, _ = _tucker(X, case, "random")
    with ctx.sut("tucker_als-seeded-2"):
        rb, _ = _tucker(X, case, "random")
    _tucker_pair(ctx, ra, rb, A, case, tag="same-seed", control=lambda: _tucker(X, case, "random"))
    ctx.check(isinstance(ra[1], list) and isinstance(rb[1], list) and H.snapshot(ra[1]) == H.snapshot(rb[1]),
              "same-seed-same-starting-guess")


@st.composite
def _tucker_scale_case(draw, tier):
    c = draw(_tucker_problem(tier))
    c["c"] = draw(_scale())
    c["init"] = draw(st.sampled_from(["list", "list-orth", "nvecs", "list-eye", "list-zeros", "list-unit", "list-near-orth",
                                      "list-near-eye", "list-tiny", "list-huge"]))
    return c


@cell("C18/tucker_als/scaling", strategy=_tucker_scale_case, quick=400, thorough=8000, shards=(4, 16))
def tucker_scaling(ctx, case):
    A = C10.tucker_data(case)
    _tucker_labels(ctx, case)
    c = float(case["c"])
    ctx.label("c<1" if c < 1 else "c>1", "init-" + case["init"])
    with ctx.sut("tucker_als"):
        ra, _ = _tucker(_tucker_hold(case, A), case, C10._tucker_init(case))
    with ctx.sut("tucker_als-scaled"):
        rb, _ = _tucker(H.make_tensor(c * A), case, C10._tucker_init(case))
    _tucker_pair(ctx, ra, rb, A, case, c=c, tag="scaling",
                 control=lambda: _tucker(_tucker_hold(case, A), case, C10._tucker_init(case)))


@st.composite
def _tucker_relabel_case(draw, tier):
    c = draw(_tucker_problem(tier))
    N = len(c["shape"])
    c["perm"] = list(draw(st.permutations(range(N))))
    # (option pairs: the string starts together with a relabelled mode order.  'random' draws one matrix per mode in sweep
    # order, skipping the first: with the same seed the relabelled request draws the same matrices for the same modes)
    c["init"] = draw(st.sampled_from(["list", "list-orth", "list-eye", "list-zeros", "list-unit", "list-near-orth", "list-near-eye",
                                      "list-tiny", "list-huge", "nvecs", "random", "random"]))
    if c["dimorder"] is None and draw(st.booleans()):
        c["dimorder"] = list(draw(st.permutations(range(N))))
    return c


@cell("C18/tucker_als/relabel", strategy=_tucker_relabel_case, quick=400, thorough=8000, shards=(4, 16))
def tucker_relabel(ctx, case):
    A = C10.tucker_data(case)
    _tucker_labels(ctx, case)
    N, p = A.ndim, case["perm"]
    q = _inv(p)
    ctx.nt = bool(ctx.nt) and p != sorted(p) and len(set(case["shape"])) > 1
    ctx.label("perm-identity" if p == sorted(p) else "perm-nontrivial")
    dimorder = case["dimorder"] if case["dimorder"] is not None else list(range(N))
    g = C10._tucker_init(case)
    gp = [g[p[i]] for i in range(N)] if isinstance(g, list) else g
    ctx.label("init-" + case["init"], "full-mode" if any(r == n for r, n in zip(case["rank"], case["shape"])) else "no-full-mode")
    with ctx.sut("tucker_als"):
        ra, _ = _tucker(_tucker_hold(case, A), case, g)
    with ctx.sut("tucker_als-relabelled"):
        rb, _ = _tucker(H.make_tensor(np.transpose(A, p)), case, gp, dimorder=[q[m] for m in dimorder],
                        rank=[case["rank"][p[i]] for i in range(N)])
    _tucker_pair(ctx, ra, rb, A, case, perm=p, tag="relabel",
                 control=lambda: _tucker(_tucker_hold(case, A), case, C10._tucker_init(case)))


# --------------------------------------------------------------------------
# GCP-OPT with L-BFGS-B
# --------------------------------------------------------------------------

OBJECTIVES = ["GAUSSIAN", "POISSON", "BERNOULLI_ODDS", "GAMMA", "RAYLEIGH"]  # the others need extra parameters


def gcp_data(case):
    shape = [int(s) for s in case["shape"]]
    rng = np.random.default_rng([53, int(case["data_seed"])])
    fm = [rng.uniform(0.1, 1.0, (n, int(case["rtrue"]))) for n in shape]
    lam = ref.den_kruskal(np.full(int(case["rtrue"]), 3.0), fm)
    obj = case["objective"]
    sc = float(case.get("scale", 1.0))
    if obj in ("POISSON",):  # must be counts (gcp rejects anything else): never rescaled
        return rng.poisson(lam).astype(float)
    if obj == "BERNOULLI_ODDS":
        return (rng.uniform(size=lam.shape) < lam / (1 + lam)).astype(float)
    if obj in ("GAMMA", "RAYLEIGH"):
        return lam * rng.uniform(0.5, 1.5, lam.shape) * sc
    return (lam + 0.1 * rng.standard_normal(lam.shape)) * sc


def gcp_tensor(case, A):
    """dense holder; count / binary data may be held in an integer dtype (class 2)"""
    dt = case.get("dtype", "float64")
    if dt != "float64" and case["objective"] in ("POISSON", "BERNOULLI_ODDS") and float(np.max(A)) <= np.iinfo(np.dtype(dt)).max:
        return H.hold(A, dt, case.get("prov", "ctor"), int(case["data_seed"]))[0]
    return H.hold(A, "float64", case.get("prov", "ctor"), int(case["data_seed"]))[0]


@st.composite
def _gcp_problem(draw, tier, earlier=False):
    N = draw(st.sampled_from([2, 3, 3]))
    # problems solved earlier with the same optimizer object span a wider range of sizes (8 .. 216 entries)
    shape = [draw(st.integers(2, 6 if earlier else (4 if tier == "quick" else 5))) for _ in range(N)]
    return dict(shape=shape, R=draw(st.integers(1, 3)), rtrue=draw(st.integers(1, 2)), objective=draw(st.sampled_from(OBJECTIVES)),
                data_seed=draw(st.integers(0, 10**6)), init_seed=draw(st.integers(0, 10**6)), np_seed=draw(st.integers(0, 2**31 - 1)),
                init=draw(st.sampled_from(["ktensor", "list", "random"])),
                scale=draw(st.sampled_from([1.0, 1.0, 1.0, 1e-2, 1e2])),
                dtype=draw(st.sampled_from(["float64", "float64", "float64", "int64", "uint8", "int32"])),
                prov=draw(st.sampled_from(H.PROVS_ANY)))


@st.composite
def _lbfgsb_options(draw):
    """every numeric option of the LBFGSB wrapper over its admissible range (None = left at its default)"""
    # a third of the runs is long enough to end by the optimizer's own stopping tests rather than by the iteration limit
    return dict(maxiter=draw(st.one_of(st.integers(1, 8), st.integers(1, 8), st.sampled_from([40, 200, 1000]))),
                m=draw(st.sampled_from([None, None, 1, 3, 10, 25])),
                factr=draw(st.sampled_from([None, None, 1e7, 10.0, 1e12])),
                pgtol=draw(st.sampled_from([None, None, None, 1e-12, 1e-5, 1e-2])),
                maxfun=draw(st.sampled_from([None, None, 1, 3, 1000])),
                maxls=draw(st.sampled_from([None, None, 1, 2, 3, 40])))


@st.composite
def _gcp_case(draw, tier):
    c = draw(_gcp_problem(tier))
    c["opt"] = draw(_lbfgsb_options())
    c["printitn"] = draw(st.sampled_from([1, 2, 3, 5, 100]))
    c["silent"] = draw(st.sampled_from([0, 0, -1]))
    # state across calls (class 3): the optimizer object handed to the second run of the pair has, with probability 1/2,
    # already solved 1..3 other generated problems (other sizes, objectives, guesses)
    k = draw(st.sampled_from([0, 0, 0, 1, 2, 3]))
    c["prior"] = [draw(_gcp_problem(tier, True)) for _ in range(k)]
    return c


def _gcp_init(case):
    if case["init"] == "random":
        return "random"
    rng = np.random.default_rng([59, int(case["init_seed"])])
    fm = [H.F(rng.uniform(0.1, 1.0, (int(n), int(case["R"])))) for n in case["shape"]]
    return fm if case["init"] == "list" else ttb.ktensor(fm, np.ones(int(case["R"])))


def _optimizer(case):
    from pyttb.gcp.optimizers import LBFGSB

    kw = {k: v for k, v in case.get("opt", {"maxiter": case.get("maxiter", 5)}).items() if v is not None}
    return LBFGSB(iprint=-1, **kw)


def _gcp(X, case, printitn, optimizer=None):
    from pyttb.gcp.handles import Objectives

    init = _gcp_init(case)
    if isinstance(init, str):
        np.random.seed(case["np_seed"])
    with H.captured() as buf:
        res = ttb.gcp_opt(X, int(case["R"]), Objectives[case["objective"]], optimizer if optimizer is not None else _optimizer(case),
                          init=init, printitn=printitn)
    return res, buf.getvalue()


def _used_optimizer(ctx, case):
    """an optimizer object with the options of the case that has already solved the prior problems of the case"""
    opt = _optimizer(case)
    for q in case.get("prior", []):
        with ctx.sut("gcp_opt-earlier-problem"):
            _gcp(gcp_tensor(q, gcp_data(q)), q, 0, opt)
    return opt


def _gcp_pair(ctx, ra, rb, case, tag):
    ctx.require(all(isinstance(r, tuple) and len(r) == 3 for r in (ra, rb)), f"{tag}-returns-triples")
    DA = _kt(ctx, ra[0], case["shape"], int(case["R"]), tag + "-first")
    DB = _kt(ctx, rb[0], case["shape"], int(case["R"]), tag + "-second")
    _close(ctx, DA, DB, f"{tag}-same-model")
    fa, fb = (r[2].get("final_f") if isinstance(r[2], dict) else None for r in (ra, rb))
    ok = H.is_float(fa) and H.is_float(fb)
    ctx.check(ok and abs(float(fa) - float(fb)) <= 1e-7 * (abs(float(fa)) + abs(float(fb))) + 1e-12, f"{tag}-same-objective", (fa, fb))


def _gcp_labels(ctx, case):
    ctx.nt = len(case["shape"]) >= 3 and int(case["R"]) >= 2
    o = case.get("opt", {})
    ctx.label(case["objective"], f"order{len(case['shape'])}", "optimizer-fresh" if not case.get("prior") else "optimizer-reused",
              "pgtol-default" if o.get("pgtol") is None else "pgtol-given",
              "maxiter<=8" if int(o.get("maxiter", 1)) <= 8 else "maxiter>=40", "scale-%g" % float(case.get("scale", 1.0)),
              "dtype-" + case.get("dtype", "float64"))
    if case.get("prior"):
        sz = ref.prod(case["shape"])
        ctx.label("earlier-problem-of-other-size" if any(ref.prod(q["shape"]) != sz for q in case["prior"])
                  else "earlier-problems-of-same-size")


@cell("C18/gcp_opt-lbfgsb/printing", strategy=_gcp_case, quick=400, thorough=8000, shards=(4, 16))
def gcp_printing(ctx, case):
    A = gcp_data(case)
    _gcp_labels(ctx, case)
    ctx.label("init-" + case["init"])
    with ctx.sut("gcp_opt-silent"):
        ra, _ = _gcp(gcp_tensor(case, A), case, int(case.get("silent", 0)))
    opt = _used_optimizer(ctx, case)
    with ctx.sut("gcp_opt-printing"):
        rb, _ = _gcp(gcp_tensor(case, A), case, int(case["printitn"]), opt)
    _gcp_pair(ctx, ra, rb, case, "printing")


@cell("C18/gcp_opt-lbfgsb/same-seed", strategy=_gcp_case, quick=200, thorough=5000, shards=(4, 16))
def gcp_same_seed(ctx, case):
    case = dict(case, init="random")
    A = gcp_data(case)
    _gcp_labels(ctx, case)
    with ctx.sut("gcp_opt-seeded-1"):
        ra, _ = _gcp(gcp_tensor(case, A), case, 0)
    opt = _used_optimizer(ctx, case)
    with ctx.sut("gcp_opt-seeded-2"):
        rb, _ = _gcp(gcp_tensor(case, A), case, 0, opt)
    _gcp_pair(ctx, ra, rb, case, "same-seed")
    ctx.check(isinstance(ra[1], ttb.ktensor) and isinstance(rb[1], ttb.ktensor) and H.snapshot(ra[1]) == H.snapshot(rb[1]),
              "same-seed-same-starting-guess")


@st.composite
def _gcp_reuse_case(draw, tier):
    c = draw(_gcp_case(tier))
    if not c["prior"]:
        c["prior"] = [draw(_gcp_problem(tier, True)) for _ in range(draw(st.integers(1, 3)))]
    return c


@cell("C18/gcp_opt-lbfgsb/reused-optimizer", strategy=_gcp_reuse_case, quick=300, thorough=6000, shards=(4, 16))
def gcp_reused_optimizer(ctx, case):
    """the k-th call depends only on its own arguments: a fresh optimizer object, one that has solved 1..3 other generated
    problems, and the same object used a second time on the same problem give the same model (same guess, same options)"""
    A = gcp_data(case)
    _gcp_labels(ctx, case)
    ctx.label("init-" + case["init"])
    with ctx.sut("gcp_opt-fresh-optimizer"):
        ra, _ = _gcp(gcp_tensor(case, A), case, 0)
    opt = _used_optimizer(ctx, case)
    with ctx.sut("gcp_opt-reused-optimizer"):
        rb, _ = _gcp(gcp_tensor(case, A), case, 0, opt)
    _gcp_pair(ctx, ra, rb, case, "reused-optimizer")
    with ctx.sut("gcp_opt-reused-optimizer-again"):
        rc, _ = _gcp(gcp_tensor(case, A), case, 0, opt)
    _gcp_pair(ctx, ra, rc, case, "optimizer-used-twice-on-the-problem")


# --------------------------------------------------------------------------
# state across calls (class 3): the k-th call depends only on its own arguments
# --------------------------------------------------------------------------
# One generated problem P is solved, then 1..3 other generated problems (other sizes, ranks, options given explicitly
# where P leaves them at their defaults and vice versa), then P again with the very same data / guess objects: the two
# solutions of P must agree.  (gcp_opt has its own cell above: there the optimizer object carries the state.)


def _hist(draw, strat, tier):
    c = draw(strat(tier))
    c["others"] = [draw(strat(tier)) for _ in range(draw(st.integers(1, 3)))]
    c["minimal"] = draw(st.booleans())  # P leaves every option it can at its default; the calls in between give theirs
    # class 9: between the two solutions of P its data object is changed by item assignment, used for a call, and changed back
    c["edit_seed"] = draw(st.one_of(st.none(), st.integers(0, 10**6), st.integers(0, 10**6)))
    # class 12: an ill-formed request made on the long-lived objects between the two solutions of P
    c["reject"] = draw(st.sampled_from([None, "dimorder-duplicate", "rank-mismatch", "init-string", "mode-list-too-long", "rank-zero"]))
    c["reject_first"] = draw(st.booleans())  # ... or before the first one (the objects are then still untouched by any call)
    return c


def _rejected_step(ctx, case, objs, calls, first=False):
    """class 12: between the two solutions of P an ill-formed request is made with the very same data / guess objects.  When it is
    rejected (whether it must be is another property's concern) the objects must be bit for bit what they were, and the
    second solution of P is judged as if the step had not happened."""
    kind = case.get("reject")
    if kind is None or kind not in calls:
        if not first:
            ctx.label("no-rejected-request-in-between")
        return
    if bool(case.get("reject_first")) != first:
        return
    before = [H.snapshot(o) for o in objs]
    try:
        with H.captured():
            calls[kind]()
    except Exception:  # noqa: BLE001
        ctx.label(("rejected-request-before-the-first-call:" if first else "rejected-request-in-between:") + kind)
        ctx.check([H.snapshot(o) for o in objs] == before, "operands-unchanged-by-rejected-request", kind)
    else:
        ctx.label("ill-formed-request-in-between-was-accepted:" + kind)


def _edit_first(case):
    """half of the edited histories have the edit (and the call on the edited object) before the first solution of P"""
    return case.get("edit_seed") is not None and int(case["edit_seed"]) % 2 == 0


def _edited_call(ctx, X, A, case, run, first=False, always=False):
    """the long-lived data object X (denoting A) gets another value in one entry by item assignment, `run` is called on it,
    and the entry gets its old value back.  Returns False when the object does not denote A again afterwards (item
    assignment is judged by other properties)."""
    if case.get("edit_seed") is None:
        if not first:
            ctx.label("data-object-left-alone-between-the-calls")
        return True
    if first != _edit_first(case) and not always:
        return True
    rng = np.random.default_rng([103, int(case["edit_seed"])])
    idx = tuple(int(rng.integers(0, n)) for n in A.shape)
    dt = np.asarray(X.data if isinstance(X, ttb.tensor) else X.vals).dtype
    if dt.kind in "iu":
        old = int(round(float(A[idx])))
        new = old - 1 if old > 0 else old + 1
    elif ref.is_intvalued(A):  # counts held as floats stay counts
        old = float(A[idx])
        new = old - 1.0 if old > 0 else old + 1.0
    else:
        old = float(A[idx])
        new = old + (float(np.sqrt(H.sq(A) / A.size)) or 1.0) * float(rng.uniform(0.5, 2.0))
    ctx.label("data-object-edited-and-restored-" + ("before-the-first-call" if first else "between-the-calls"))
    try:
        X[idx] = new
        try:
            run()
        except Exception:  # noqa: BLE001
            ctx.label("call-in-between-raised")
    finally:
        X[idx] = old
    return bool(np.array_equal(ref.den(X), np.asarray(A, dtype=float)))


def _als_min(X, case, g):
    """cp_als for the history cell; 'minimal' = only what is needed is passed (dimorder, optdims, fixsigns, stoptol at
    their defaults)"""
    if not case.get("minimal"):
        return _als(X, case, g)[0]
    with H.captured():
        return ttb.cp_als(X, int(case["R"]), maxiters=int(case["maxiters"]), init=g)


@cell("C18/cp_als/call-history", strategy=lambda tier: st.composite(lambda draw: _hist(draw, lambda t: _als_dtype_case(t, draw(st.booleans())), tier))(),
      quick=300, thorough=6000, shards=(4, 16))
def als_history(ctx, case):
    X, A = H.build_data(case)
    if H.unfolding_margin(A, int(case["R"])) < 1e-3:
        ctx.skip("unfolding-rank-margin")
    _als_labels(ctx, case)
    ctx.label(case["holder"], "options-at-defaults" if case["minimal"] else "options-given", f"calls-between-{len(case['others'])}")
    g = H.build_init(case)

    def rel():
        if not _edited_call(ctx, X, A, case, lambda: _als_min(X, case, g), first=True):
            ctx.label("restored-object-differs-not-judged")
            return
        N_, R_ = len(case["shape"]), int(case["R"])
        rejected = {
            "dimorder-duplicate": lambda: ttb.cp_als(X, R_, init=g, maxiters=2, dimorder=[0] * N_),
            "mode-list-too-long": lambda: ttb.cp_als(X, R_, init=g, maxiters=2, dimorder=list(range(N_ + 1))),
            "rank-mismatch": lambda: ttb.cp_als(X, R_ + 1, init=g, maxiters=2),
            "rank-zero": lambda: ttb.cp_als(X, 0, init=g, maxiters=2),
            "init-string": lambda: ttb.cp_als(X, R_, init="no-such-start", maxiters=2)}
        _rejected_step(ctx, case, [X, g], rejected, first=True)
        with ctx.sut("cp_als-first"):
            ra = _als_min(X, case, g)
        snap_a = (H.snapshot(ra[0]), H.snapshot(ra[1])) if isinstance(ra, tuple) and len(ra) == 3 else None
        for q in case["others"]:
            Xq, Aq = H.build_data(q)
            try:  # what these calls return (or raise) is judged by the other cells; here they only make history
                _als(Xq, q, H.build_init(q), printitn=int(q.get("maxiters", 1)) % 2)
            except Exception:  # noqa: BLE001
                ctx.label("call-in-between-raised")
        _rejected_step(ctx, case, [X, g], rejected)
        if not _edited_call(ctx, X, A, case, lambda: _als_min(X, case, g)):
            ctx.label("restored-object-differs-not-judged")
            return
        with ctx.sut("cp_als-again"):
            rb = _als_min(X, case, g)
        _als_pair(ctx, ra, rb, case["shape"], int(case["R"]), H.sq(A), tag="history")
        ctx.check(snap_a is None or (H.snapshot(ra[0]), H.snapshot(ra[1])) == snap_a, "history-first-result-unchanged-by-later-calls")
        # the long-lived objects against objects built afresh for the same problem
        with ctx.sut("cp_als-fresh-objects"):
            rc = _als_min(H.build_data(case)[0], case, H.build_init(case))
        _als_pair(ctx, ra, rc, case["shape"], int(case["R"]), H.sq(A), tag="history-vs-fresh-objects")

    _als_judged(ctx, case, A, rel)


@cell("C18/tucker_als/call-history", strategy=lambda tier: st.composite(lambda draw: _hist(draw, _tucker_scale_case, tier))(),
      quick=200, thorough=4000, shards=(4, 16))
def tucker_history(ctx, case):
    A = C10.tucker_data(case)
    _tucker_labels(ctx, case)
    ctx.label("init-" + case["init"], "options-at-defaults" if case["minimal"] else "options-given")
    X, g = _tucker_hold(case, A), C10._tucker_init(case)

    def run():
        if not case["minimal"]:
            return _tucker(X, case, g)[0]
        with H.captured():
            return ttb.tucker_als(X, list(case["rank"]), stoptol=0.0, maxiters=int(case["maxiters"]), init=g)

    if not _edited_call(ctx, X, A, case, run, first=True):
        ctx.label("restored-object-differs-not-judged")
        return
    N_ = A.ndim
    rejected = {
        "dimorder-duplicate": lambda: ttb.tucker_als(X, list(case["rank"]), init=g, maxiters=2, dimorder=[0] * N_),
        "mode-list-too-long": lambda: ttb.tucker_als(X, list(case["rank"]), init=g, maxiters=2, dimorder=list(range(N_ + 1))),
        "rank-mismatch": lambda: ttb.tucker_als(X, [int(r) + 1 for r in case["rank"]], init=g, maxiters=2),
        "rank-zero": lambda: ttb.tucker_als(X, list(case["rank"]), init=g, maxiters=-1),
        "init-string": lambda: ttb.tucker_als(X, list(case["rank"]), init="no-such-start", maxiters=2)}
    _rejected_step(ctx, case, [X, g], rejected, first=True)
    with ctx.sut("tucker_als-first"):
        ra = run()
    for q in case["others"]:
        try:
            _tucker(_tucker_hold(q, C10.tucker_data(q)), q, C10._tucker_init(q), printitn=int(q["maxiters"]) % 2, stoptol=1e-3)
        except Exception:  # noqa: BLE001
            ctx.label("call-in-between-raised")
    snap_a = (H.snapshot(ra[0]), H.snapshot(ra[1])) if isinstance(ra, tuple) and len(ra) == 3 else None
    _rejected_step(ctx, case, [X, g], rejected)
    if not _edited_call(ctx, X, A, case, run):
        ctx.label("restored-object-differs-not-judged")
        return
    with ctx.sut("tucker_als-again"):
        rb = run()
    _tucker_pair(ctx, ra, rb, A, case, tag="history", control=run)
    ctx.check(snap_a is None or (H.snapshot(ra[0]), H.snapshot(ra[1])) == snap_a, "history-first-result-unchanged-by-later-calls")
    X, g = _tucker_hold(case, A), C10._tucker_init(case)  # objects built afresh for the same problem (`run` reads X and g)
    with ctx.sut("tucker_als-fresh-objects"):
        rc = run()
    _tucker_pair(ctx, ra, rc, A, case, tag="history-vs-fresh-objects", control=run)


@cell("C18/hosvd/call-history", strategy=lambda tier: st.composite(lambda draw: _hist(draw, _hosvd_print_case, tier))(),
      quick=300, thorough=6000, shards=(4, 16))
def hosvd_history(ctx, case):
    A, tol = _hosvd_setup(ctx, case)
    ctx.label("options-at-defaults" if case["minimal"] else "options-given")
    X = _hosvd_hold(case, A)

    def run():
        if not case["minimal"]:
            return _hosvd(X, tol, case)[0]
        with H.captured():
            return ttb.hosvd(X, tol)

    if not _edited_call(ctx, X, A, case, run, first=True):
        ctx.label("restored-object-differs-not-judged")
        return
    N_ = A.ndim
    rejected = {
        "dimorder-duplicate": lambda: ttb.hosvd(X, tol, verbosity=0, dimorder=[0] * N_),
        "mode-list-too-long": lambda: ttb.hosvd(X, tol, verbosity=0, dimorder=list(range(N_ + 1))),
        "rank-mismatch": lambda: ttb.hosvd(X, tol, verbosity=0, ranks=[1] * (N_ + 1)),
        "rank-zero": lambda: ttb.hosvd(X, tol, verbosity=0, ranks=[1] * (N_ - 1)),
        "init-string": lambda: ttb.hosvd(X, tol, verbosity=0, ranks=[int(n) + 1 for n in A.shape])}
    _rejected_step(ctx, case, [X], rejected, first=True)
    with ctx.sut("hosvd-first"):
        Ta = run()
    for q in case["others"]:
        try:
            Aq = C10.hosvd_data(q)
            _hosvd(_hosvd_hold(q, Aq), _mid_tol(Aq, q) or 0.3, q, verbosity=q["verbosity"])
        except Exception:  # noqa: BLE001
            ctx.label("call-in-between-raised")
    snap_a = H.snapshot(Ta)
    _rejected_step(ctx, case, [X], rejected)
    if not _edited_call(ctx, X, A, case, run):
        ctx.label("restored-object-differs-not-judged")
        return
    with ctx.sut("hosvd-again"):
        Tb = run()
    ctx.check(H.snapshot(Ta) == snap_a, "history-first-result-unchanged-by-later-calls")
    if case["minimal"]:
        case = dict(case, sequential=True, ranks=None)
    _hosvd_pair(ctx, Ta, Tb, A, case, tag="history")
    nt = ctx.nt
    X = _hosvd_hold(case, A)  # an object built afresh for the same problem (`run` reads X)
    with ctx.sut("hosvd-fresh-object"):
        Tc = run()
    _hosvd_pair(ctx, Ta, Tc, A, case, tag="history-vs-fresh-object")
    ctx.nt = nt


def _apr_history_body(ctx, case):
    A = apr_counts(case)
    if not A.any():
        ctx.skip("all-zero-counts")
    _apr_labels(ctx, case, A)
    ctx.label(case["holder"], "options-at-defaults" if case["minimal"] else "options-given")
    X = apr_holders(case, A)[0 if case["holder"] == "tensor" else 1]
    g = apr_init(case)

    def run(guess):
        if not case["minimal"]:
            return _apr(X, case, guess)[0]
        with H.captured():
            return ttb.cp_apr(X, int(case["R"]), algorithm=case["alg"], maxiters=int(case["maxiters"]), init=guess, printitn=0)

    R_ = int(case["R"])
    rejected = {
        "dimorder-duplicate": lambda: ttb.cp_apr(X, R_, algorithm="no-such-algorithm", init=g, maxiters=2, printitn=0),
        "mode-list-too-long": lambda: ttb.cp_apr(-X, R_, algorithm=case["alg"], init=g, maxiters=2, printitn=0),
        "rank-mismatch": lambda: ttb.cp_apr(X, R_ + 1, algorithm=case["alg"], init=g, maxiters=2, printitn=0),
        "rank-zero": lambda: ttb.cp_apr(X, 0, algorithm=case["alg"], init=g, maxiters=2, printitn=0),
        "init-string": lambda: ttb.cp_apr(X, R_, algorithm=case["alg"], init="no-such-start", maxiters=2, printitn=0)}
    _rejected_step(ctx, case, [X, g], rejected, first=True)
    try:
        try:
            ra = run(g)
        except AssertionError as e:
            if "L-BFGS first iterate is bad" in str(e):
                raise _KnownPqnr() from None
            with ctx.sut("cp_apr-first"):
                raise
        except Exception:  # noqa: BLE001
            with ctx.sut("cp_apr-first"):
                raise
        for q in case["others"]:
            try:
                Aq = apr_counts(q)
                _apr(apr_holders(q, Aq)[0 if q["holder"] == "tensor" else 1], q, apr_init(q), printitn=int(q["maxiters"]) % 2)
            except Exception:  # noqa: BLE001
                ctx.label("call-in-between-raised")
        _rejected_step(ctx, case, [X, g], rejected)
        if not _edited_call(ctx, X, A, case, lambda: run(apr_init(case)), always=True):
            ctx.label("restored-object-differs-not-judged")
            return
        try:
            rb = run(g)
        except AssertionError as e:
            if "L-BFGS first iterate is bad" in str(e):
                raise _KnownPqnr() from None
            with ctx.sut("cp_apr-again"):
                raise
        except Exception:  # noqa: BLE001
            with ctx.sut("cp_apr-again"):
                raise
    except _KnownPqnr:
        ctx.label("pqnr-known-assertion-not-judged")
        ctx.nt = False
        return
    # the same presentation twice -- but not bit for bit the same computation: an entry edited to zero and restored is
    # stored again at the end of the sparse tensor, so sums run in another order, and the row-subproblem solvers can
    # amplify that rounding difference on numerically unstable instances (thorough tier: pqnr, deviation 5e-3).  Same
    # judgement as for two presentations: instances that move by as much under a 1e-13 perturbation of the guess are
    # labelled, not judged.
    _apr_pair(ctx, ra, rb, case, "history", lambda which, gi: run(gi))


for _alg in ("mu", "pdnr", "pqnr"):
    cell(f"C18/cp_apr-{_alg}/call-history",
         strategy=(lambda alg: lambda tier: st.composite(lambda draw: _hist(draw, _apr_strategy(alg, "same-seed"), tier))())(_alg),
         quick=100, thorough=2500, shards=(4, 16))(_apr_history_body)


# --------------------------------------------------------------------------
# Round 4: class 13 (reporting options, process environment), class 11 (how the caller presents valid arguments),
# class 12 (state after a rejected request, inside the call histories above)
# --------------------------------------------------------------------------
# One generated problem, one baseline call (quiet, logging as core.evaluate leaves it, every argument in the library's own
# favourite form) and two further calls of the *same request*: either with other reporting settings / another logging
# configuration of the process (class 13), or with the arguments presented the way ordinary callers do (class 11).  Every
# further call must return the baseline's model (the relation tolerance of the module), fit and iteration count.

import contextlib  # noqa: E402
import io  # noqa: E402

LOG_ENVS = ["off", "warning", "debug", "debug", "debug-stream"]


@contextlib.contextmanager
def _log_env(kind):
    """logging configuration of the process during a call.  'off': what core.evaluate sets (logging disabled up to WARNING,
    root logger at ERROR); 'warning' / 'debug': nothing disabled, root logger at that level with a NullHandler;
    'debug-stream': root logger at DEBUG with a StreamHandler writing into a buffer (records are formatted).  Everything is
    restored afterwards."""
    root = logging.getLogger()
    old_level, old_disable, old_handlers = root.level, root.manager.disable, list(root.handlers)
    try:
        if kind != "off":
            root.handlers = [logging.StreamHandler(io.StringIO()) if kind == "debug-stream" else logging.NullHandler()]
            logging.disable(logging.NOTSET)
            root.setLevel(logging.WARNING if kind == "warning" else logging.DEBUG)
        yield
    finally:
        root.handlers = old_handlers
        root.setLevel(old_level)
        logging.disable(old_disable)


def _np_or_int(v):
    """'np1' -> numpy.int64(1) (a reporting interval taken from an array), numbers unchanged"""
    if isinstance(v, str) and v.startswith("np"):
        return np.int64(int(v[2:]))
    return v


def _quiet_spec(v):
    v = _np_or_int(v)
    return float(v) <= 0


_INTERVALS = [0, 1, 1, 1000, 1000, 2, 3, -1, "np1", "np0", "np1000"]


@st.composite
def _report_variants(draw, inner=False, verbosity=False, k=2):
    out = []
    for _ in range(k):
        v = dict(p=draw(st.sampled_from(_INTERVALS if not verbosity else [0, 1, 1, 3, 6, 11, 1000, 0.5, 2.5, -1, "np1", "np11"])),
                 log=draw(st.sampled_from(LOG_ENVS)))
        if inner:
            v["inner"] = draw(st.sampled_from([0, 1, 1, 1000, 3, "np1"]))
        if _quiet_spec(v["p"]) and v["log"] == "off" and _quiet_spec(v.get("inner", 0)):
            v["log"] = "debug"  # (this would be the baseline itself)
        out.append(v)
    return out


def _report_labels(ctx, v):
    p = _np_or_int(v["p"])
    ctx.label("report-" + ("quiet" if float(p) <= 0 else ("every-iteration" if float(p) <= 1 else ("interval-large" if float(p) >= 1000
                                                                                                    else "interval-2..11"))),
              "log-" + v["log"], "interval-numpy-scalar" if isinstance(p, np.generic) else "interval-python-number")
    if "inner" in v:
        i = _np_or_int(v["inner"])
        ctx.label("inner-" + ("quiet" if float(i) <= 0 else ("every" if float(i) <= 1 else "large")),
                  "outer-quiet-inner-reporting" if float(p) <= 0 < float(i) else "outer-inner-other")


# ---- argument forms (class 11) ----

INT_FORMS = ["list", "tuple", "np-int64", "np-int32", "np-uint8", "np-uint16", "np-uint64", "np-scalars", "range"]
RANK_FORMS = ["int", "int64", "int32", "uint8", "uint16", "uint64"]
DENSE_FORMS = ["c-order", "readonly", "strided", "readonly-view", "float32", "int", "int", "f-order"]
SPARSE_FORMS = ["subs-int32", "subs-uint8", "subs-uint16", "subs-uint64", "vals-float32", "vals-int", "vals-int", "vals-int", "readonly",
                "shape-list", "plain"]  # ("vals-int" falls back to "subs-int32" when the data are not integer-valued)
GUESS_FORMS = ["c-order", "readonly", "weights-omitted", "strided", "f-order"]


def _form_ints(v, form):
    """a list of small non-negative ints (mode list, rank vector) the way callers hold them"""
    if v is None:
        return None
    v = [int(x) for x in v]
    if form == "tuple":
        return tuple(v)
    if form == "np-scalars":
        return [np.int64(x) for x in v]
    if form == "range" and v == list(range(len(v))):
        return range(len(v))
    if form.startswith("np-"):
        return np.array(v, dtype=form[3:])
    return v


def _form_int(x, form):
    return int(x) if form == "int" else np.dtype(form).type(int(x))


def _int_dtype_for(A, want):
    """an integer dtype that holds the (integer-valued) array A: `want` when it fits, else int64; None when A is not
    integer-valued"""
    if not (ref.is_intvalued(A) and np.all(np.abs(A) < 2.0**52)):
        return None
    for dt in (want, "int64"):
        if dt in ("float64", None):
            continue
        ii = np.iinfo(np.dtype(dt))
        if float(np.min(A)) >= ii.min and float(np.max(A)) <= ii.max:
            return dt
    return None


def _present_dense(A, form, int_dtype="int64"):
    """(tensor holding A presented as `form`, form actually used)"""
    shape = tuple(int(n) for n in A.shape)
    X = None
    try:
        if form == "int":
            dt = _int_dtype_for(A, int_dtype)
            if dt is not None:
                X = ttb.tensor(np.asfortranarray(A.astype(dt)), shape)
            else:
                form = "c-order"
        if form == "float32":
            X = ttb.tensor(np.asfortranarray(A.astype(np.float32)), shape)
        elif form == "c-order":
            X = ttb.tensor(np.ascontiguousarray(A))
        elif form == "readonly":
            a = H.F(A)
            a.flags.writeable = False
            X = ttb.tensor(a, shape, copy=False)
        elif form in ("strided", "readonly-view"):
            big = np.zeros(tuple(2 * n for n in shape))
            view = big[tuple(slice(1, None, 2) for _ in shape)]
            view[...] = A
            if form == "readonly-view":
                big.flags.writeable = False
                view = big[tuple(slice(1, None, 2) for _ in shape)]
            X = ttb.tensor(view)
    except Exception:  # noqa: BLE001  (constructors are judged by other properties)
        X = None
    if X is not None and isinstance(X, ttb.tensor) and tuple(int(n) for n in X.shape) == shape and np.array_equal(
            np.asarray(X.data).astype(float), A):
        return X, form
    return H.make_tensor(A), "f-order"


def _present_sparse(A, form, seed, stored, int_dtype="int64"):
    shape = tuple(int(n) for n in A.shape)
    S0 = H.make_sptensor(A, seed, stored)
    if not np.any(A != 0):
        return S0, "plain"
    subs, vals = np.array(S0.subs, copy=True), np.array(S0.vals, copy=True)
    S = None
    try:
        if form == "vals-int":
            dt = _int_dtype_for(A, int_dtype)
            if dt is not None:
                S = ttb.sptensor(subs, vals.astype(dt), shape)
            else:
                form = "subs-int32"
        if form.startswith("subs-"):
            S = ttb.sptensor(subs.astype(form[5:]), vals, shape)
        elif form == "vals-float32":
            S = ttb.sptensor(subs, vals.astype(np.float32), shape)
        elif form == "readonly":
            subs.flags.writeable = False
            vals.flags.writeable = False
            S = ttb.sptensor(subs, vals, shape, copy=False)
        elif form == "shape-list":
            S = ttb.sptensor(subs, vals, list(shape))
    except Exception:  # noqa: BLE001
        S = None
    if S is not None and isinstance(S, ttb.sptensor) and tuple(int(n) for n in S.shape) == shape:
        try:
            ok = np.array_equal(ref.den(S), A)
        except Exception:  # noqa: BLE001
            ok = False
        if ok:
            return S, form
    return S0, "plain"


def _present_matrices(fm, form):
    out = []
    for f in fm:
        f = np.asarray(f)
        if form == "c-order":
            out.append(np.ascontiguousarray(f))
        elif form == "readonly":
            a = np.array(f, order="F", copy=True)
            a.flags.writeable = False
            out.append(a)
        elif form == "strided":
            big = np.zeros((2 * f.shape[0], 2 * f.shape[1]), dtype=f.dtype)
            big[::2, 1::2] = f
            out.append(big[::2, 1::2])
        else:
            out.append(np.array(f, order="F", copy=True))
    return out


def _present_ktensor(g, form):
    """the guess g (a ktensor with favourite internals) the way a caller may build it"""
    fm = _present_matrices(g.factor_matrices, form)
    w = np.array(g.weights, copy=True)
    if form == "weights-omitted" and np.all(w == 1):
        return ttb.ktensor(fm)
    if form == "readonly":
        w.flags.writeable = False
        return ttb.ktensor(fm, w, copy=False)
    return ttb.ktensor(fm, w)


def _f32_exact(A):
    """A rounded to single precision (so that a float32 holder denotes exactly the same array)"""
    with np.errstate(all="ignore"):
        B = np.asarray(A, dtype=np.float32).astype(float)
    return B if np.all(np.isfinite(B)) else A


@st.composite
def _present_variants(draw, k=2):
    return [dict(dense=draw(st.sampled_from(DENSE_FORMS)), sparse=draw(st.sampled_from(SPARSE_FORMS)),
                 guess=draw(st.sampled_from(GUESS_FORMS)), ints=draw(st.sampled_from(INT_FORMS)),
                 rank=draw(st.sampled_from(RANK_FORMS)), count=draw(st.sampled_from(RANK_FORMS[:3])),
                 positional=draw(st.booleans())) for _ in range(k)]


def _uses_f32(case):
    return any(v["dense"] == "float32" or v["sparse"] == "vals-float32" for v in case["variants"])


REL32 = 1e-4  # float32 holders: single-precision rounding 6e-8 with the same amplification allowance as REL has for 1e-16


@contextlib.contextmanager
def _rel_for(used):
    """the relation tolerance while a run on a float32 holder is judged (the library may compute in the data's precision)"""
    global REL
    old = REL
    REL = REL32 if "float32" in used else old
    try:
        yield
    finally:
        REL = old


def _fit_close32(ctx, fa, fb, clause):
    """float32 data: the norm of the data is a single-precision number (relative error 6e-8, squared form 2.4e-7)"""
    ok = H.is_float(fa) and H.is_float(fb) and np.isfinite(fa) and np.isfinite(fb)
    ctx.check(ok and abs((1 - float(fa)) ** 2 - (1 - float(fb)) ** 2) <= 1e-5, clause, (fa, fb))


# ---- CP-ALS ----


@st.composite
def _als_report_case(draw, tier):
    c = draw(_als_print_case(tier))
    c["variants"] = draw(_report_variants())
    return c


@cell("C18/cp_als/reporting", strategy=_als_report_case, quick=120, thorough=1000, shards=(4, 16))
def als_reporting(ctx, case):
    X, A = H.build_data(case)
    if H.unfolding_margin(A, int(case["R"])) < 1e-3:
        ctx.skip("unfolding-rank-margin")
    _als_labels(ctx, case)
    st_ = float(case["stoptol"])
    ctx.label(case["holder"], "stoptol-0" if st_ == 0 else ("stoptol<1e-6" if st_ < 1e-6 else "stoptol>=1e-6"), "init-" + case["init"])

    def rel():
        with ctx.sut("cp_als-baseline"):
            ra, ta = _als(X, case, H.build_init(case), printitn=0, stoptol=st_)
        for i, v in enumerate(case["variants"]):
            _report_labels(ctx, v)
            with ctx.sut("cp_als-reporting"):
                with _log_env(v["log"]):
                    rb, tb = _als(X, case, H.build_init(case), printitn=_np_or_int(v["p"]), stoptol=st_)
            ctx.check(("CP_ALS" in tb) == (not _quiet_spec(v["p"])), "reporting-setting-takes-effect", (v["p"], tb[:40]))
            _als_pair(ctx, ra, rb, case["shape"], int(case["R"]), H.sq(A), tag="reporting")
        # the options reported in the info dictionary, given back as the docstring shows, are the same request
        if isinstance(ra, tuple) and len(ra) == 3 and isinstance(ra[2], dict) and isinstance(ra[2].get("params"), dict) \
                and not (isinstance(case["init"], str) and case["init"] == "random"):
            with ctx.sut("cp_als-options-from-info-dictionary"):
                with H.captured():
                    rc = ttb.cp_als(X, int(case["R"]), init=H.build_init(case), **ra[2]["params"])
            _als_pair(ctx, ra, rc, case["shape"], int(case["R"]), H.sq(A), tag="reported-options-given-back")

    _als_judged(ctx, case, A, rel)


@st.composite
def _als_present_case(draw, tier):
    c = draw(_als_dtype_case(tier, draw(st.booleans())))
    c["variants"] = draw(_present_variants())
    return c


@cell("C18/cp_als/presentation", strategy=_als_present_case, quick=120, thorough=1000, shards=(4, 16))
def als_presentation(ctx, case):
    _, A = H.build_data(case)
    if _uses_f32(case):
        A = _f32_exact(A)
    if H.unfolding_margin(A, int(case["R"])) < 1e-3:
        ctx.skip("unfolding-rank-margin")
    _als_labels(ctx, case)
    ctx.label(case["holder"])
    sparse = case["holder"] == "sptensor"
    X = H.make_sptensor(A, int(case["data_seed"]), case["stored"]) if sparse else H.make_tensor(A)
    R, seed = int(case["R"]), int(case["data_seed"])

    def rel():
        with ctx.sut("cp_als-baseline"):
            ra, _ = _als(X, case, H.build_init(case))
        for v in case["variants"]:
            Xv, used = (_present_sparse(A, v["sparse"], seed, case["stored"], case.get("dtype")) if sparse
                        else _present_dense(A, v["dense"], case.get("dtype")))
            g = _present_ktensor(H.build_init(case), v["guess"])
            kw = dict(stoptol=np.float64(0.0), maxiters=_form_int(case["maxiters"], v["count"]), init=g, printitn=_form_int(0, v["count"]),
                      fixsigns=case["fixsigns"])
            if case["dimorder"] is not None:
                kw["dimorder"] = _form_ints(case["dimorder"], v["ints"])
            if case.get("optdims") is not None:
                kw["optdims"] = _form_ints(case["optdims"], v["ints"])
            ctx.label("data-" + used, "guess-" + v["guess"], "rank-" + v["rank"], "counts-" + v["count"],
                      "modes-" + (v["ints"] if case["dimorder"] is not None or case.get("optdims") is not None else "default"))
            ctx.label("options-positional" if v.get("positional") else "options-by-keyword")
            with ctx.sut("cp_als-presented"):
                with H.captured():
                    if v.get("positional"):  # documented order: stoptol, maxiters, dimorder, optdims, init, printitn, fixsigns
                        rb = ttb.cp_als(Xv, _form_int(R, v["rank"]), kw["stoptol"], kw["maxiters"], kw.get("dimorder"), kw.get("optdims"),
                                        kw["init"], kw["printitn"], kw["fixsigns"])
                    else:
                        rb = ttb.cp_als(Xv, _form_int(R, v["rank"]), **kw)
            ctx.require(isinstance(rb, tuple) and len(rb) == 3 and isinstance(rb[2], dict) and "fit" in rb[2], "presentation-returns-triple")
            if "float32" in used:
                DA, DB = _kt(ctx, ra[0], case["shape"], R, "presentation-first"), _kt(ctx, rb[0], case["shape"], R, "presentation-second")
                with _rel_for(used):
                    _close(ctx, DB, DA, "presentation-same-model")
                _fit_close32(ctx, ra[2]["fit"], rb[2]["fit"], "presentation-same-fit-single-precision-bound")
            else:
                _als_pair(ctx, ra, rb, case["shape"], R, H.sq(A), tag="presentation")

    _als_judged(ctx, case, A, rel)


# ---- CP-APR ----


def _apr_report_strategy(alg):
    @st.composite
    def strat(draw, tier):
        c = draw(_apr_strategy(alg, "printing")(tier))
        c["variants"] = draw(_report_variants(inner=True))
        return c

    return strat


def _apr_reporting_body(ctx, case):
    A = apr_counts(case)
    if not A.any():
        ctx.skip("all-zero-counts")
    _apr_labels(ctx, case, A)
    X = apr_holders(case, A)[0 if case["holder"] == "tensor" else 1]
    ctx.label(case["holder"])
    try:
        ra, ta = _apr_call(ctx, "cp_apr-baseline", X, case, apr_init(case))
        for v in case["variants"]:
            _report_labels(ctx, v)
            p, inner = _np_or_int(v["p"]), _np_or_int(v["inner"])

            def run(g, p=p, inner=inner, v=v):
                with _log_env(v["log"]):
                    return _apr(X, case, g, printitn=p, printinneritn=inner)

            try:
                rb, tb = run(apr_init(case))
            except AssertionError as e:
                if "L-BFGS first iterate is bad" in str(e):
                    raise _KnownPqnr() from None
                with ctx.sut("cp_apr-reporting"):
                    raise
            except Exception:  # noqa: BLE001
                with ctx.sut("cp_apr-reporting"):
                    raise
            if _quiet_spec(v["p"]) and _quiet_spec(v["inner"]):
                tb_ = "\n".join(ln for ln in tb.splitlines() if "time limit exceeded" not in ln)
                ctx.check(tb_.strip() == "", "reporting-setting-takes-effect", tb[:40])
            elif not _quiet_spec(v["p"]):
                ctx.check(tb.strip() != "", "reporting-setting-takes-effect", tb[:40])
            _apr_pair(ctx, ra, rb, case, "reporting", lambda w, g, run=run: (run(g) if w else _apr(X, case, g))[0])
            ctx.check(isinstance(ra[2], dict) and isinstance(rb[2], dict) and ra[2].get("nTotalIters") == rb[2].get("nTotalIters")
                      or "unstable-instance-not-judged" in ctx.labels, "reporting-same-iteration-count",
                      (ra[2].get("nTotalIters"), rb[2].get("nTotalIters")) if isinstance(ra[2], dict) and isinstance(rb[2], dict) else None)
    except _KnownPqnr:
        ctx.label("pqnr-known-assertion-not-judged")
        ctx.nt = False


def _apr_present_strategy(alg):
    @st.composite
    def strat(draw, tier):
        c = draw(_apr_strategy(alg, "same-seed")(tier))
        c["variants"] = draw(_present_variants())
        return c

    return strat


def _apr_presentation_body(ctx, case):
    A = apr_counts(case)
    if _uses_f32(case):
        A = _f32_exact(A)
    if not A.any():
        ctx.skip("all-zero-counts")
    _apr_labels(ctx, case, A)
    sparse = case["holder"] == "sptensor"
    ctx.label(case["holder"])
    seed = int(case["data_seed"])
    X = H.make_sptensor(A, seed, case["stored"]) if sparse else H.make_tensor(A)
    base = dict(case, sp_state="plain")
    try:
        ra, _ = _apr_call(ctx, "cp_apr-baseline", X, base, apr_init(case))
        for v in case["variants"]:
            Xv, used = (_present_sparse(A, v["sparse"], seed, case["stored"], case.get("dtype")) if sparse
                        else _present_dense(A, v["dense"], case.get("dtype")))
            ctx.label("data-" + used, "guess-" + v["guess"], "rank-" + v["rank"], "counts-" + v["count"])

            def run(g, Xv=Xv, v=v):
                kw = dict(algorithm=case["alg"], stoptol=float(case["stoptol"]), maxiters=_form_int(case["maxiters"], v["count"]),
                          maxinneriters=_form_int(case["maxinneriters"], v["count"]), init=_present_ktensor(g, v["guess"]),
                          printitn=_form_int(0, v["count"]), printinneritn=0)
                for k in ("kappa", "inexact", "precompinds", "epsDivZero", "kappatol", "mu0", "epsActive", "stoptime"):
                    if k in case:
                        kw[k] = case[k] if isinstance(case[k], bool) else np.float64(case[k])
                if "lbfgsMem" in case:
                    kw["lbfgsMem"] = _form_int(case["lbfgsMem"], v["count"])
                with H.captured():
                    return ttb.cp_apr(Xv, _form_int(case["R"], v["rank"]), **kw)

            try:
                rb = run(apr_init(case))
            except AssertionError as e:
                if "L-BFGS first iterate is bad" in str(e):
                    raise _KnownPqnr() from None
                with ctx.sut("cp_apr-presented"):
                    raise
            except Exception:  # noqa: BLE001
                with ctx.sut("cp_apr-presented"):
                    raise
            with _rel_for(used):
                _apr_pair(ctx, ra, rb, case, "presentation", lambda w, g, run=run: run(g) if w else _apr(X, base, g)[0])
    except _KnownPqnr:
        ctx.label("pqnr-known-assertion-not-judged")
        ctx.nt = False


for _alg in ("mu", "pdnr", "pqnr"):
    cell(f"C18/cp_apr-{_alg}/reporting", strategy=_apr_report_strategy(_alg), quick=40, thorough=320, shards=(4, 16))(_apr_reporting_body)
    cell(f"C18/cp_apr-{_alg}/presentation", strategy=_apr_present_strategy(_alg), quick=30, thorough=240, shards=(4, 16))(_apr_presentation_body)


# ---- HOSVD ----


@st.composite
def _hosvd_report_case(draw, tier):
    c = draw(_hosvd_problem(tier))
    c["variants"] = draw(_report_variants(verbosity=True))
    return c


@cell("C18/hosvd/reporting", strategy=_hosvd_report_case, quick=120, thorough=1000, shards=(4, 16))
def hosvd_reporting(ctx, case):
    A, tol = _hosvd_setup(ctx, case)
    X = _hosvd_hold(case, A)
    with ctx.sut("hosvd-baseline"):
        Ta, _ = _hosvd(X, tol, case, verbosity=0)
    for v in case["variants"]:
        _report_labels(ctx, v)
        with ctx.sut("hosvd-reporting"):
            with _log_env(v["log"]):
                Tb, tb = _hosvd(X, tol, case, verbosity=_np_or_int(v["p"]))
        ctx.check(("HOSVD" in tb) == (not _quiet_spec(v["p"])), "reporting-setting-takes-effect", (v["p"], tb[:40]))
        _hosvd_pair(ctx, Ta, Tb, A, case, tag="reporting")


@st.composite
def _hosvd_present_case(draw, tier):
    c = draw(_hosvd_problem(tier))
    c["variants"] = draw(_present_variants())
    for v in c["variants"]:
        v["tol"] = draw(st.sampled_from(["float", "float64", "float64", "longdouble"]))
        v["positional"] = draw(st.booleans())
    return c


@cell("C18/hosvd/presentation", strategy=_hosvd_present_case, quick=120, thorough=1000, shards=(4, 16))
def hosvd_presentation(ctx, case):
    A = C10.hosvd_data(case)
    if _uses_f32(case):
        # the same array in single precision: the data are rounded first, the tolerance is then placed for the rounded array
        A = _f32_exact(A)
    tol = _mid_tol(A, case)
    if tol is None:
        ctx.skip("no-well-separated-switch-values")
    N = A.ndim
    ctx.label(f"order{N}", case["kind"], "sequential" if case["sequential"] else "all-at-once",
              "ranks-given" if case["ranks"] is not None else "ranks-auto", "dimorder-given" if case["dimorder"] is not None else
              "dimorder-default", "scale-%g" % float(case.get("scale", 1.0)))
    with ctx.sut("hosvd-baseline"):
        Ta, _ = _hosvd(H.make_tensor(A), tol, case)
    for v in case["variants"]:
        Xv, used = _present_dense(A, v["dense"], case.get("dtype"))
        ctx.label("data-" + used, "tol-" + v["tol"], "options-positional" if v["positional"] else "options-by-keyword",
                  "modes-" + (v["ints"] if case["dimorder"] is not None or case["ranks"] is not None else "default"))
        tolv = float(tol) if v["tol"] == "float" else (np.float64(tol) if v["tol"] == "float64" else np.longdouble(tol))
        ranks = _form_ints(case["ranks"], v["ints"])
        dimorder = _form_ints(case["dimorder"], v["ints"])
        with ctx.sut("hosvd-presented"):
            with H.captured():
                if v["positional"]:  # documented order: input_tensor, tol, verbosity, dimorder, sequential, ranks
                    Tb = ttb.hosvd(Xv, tolv, _form_int(0, v["count"]), dimorder, bool(case["sequential"]), ranks)
                else:
                    Tb = ttb.hosvd(Xv, tolv, verbosity=_form_int(0, v["count"]), sequential=np.bool_(case["sequential"]), ranks=ranks,
                                   dimorder=dimorder)
        with _rel_for(used):
            _hosvd_pair(ctx, Ta, Tb, A, case, tag="presentation")


# ---- Tucker-ALS ----


def _tucker_stop_tie(ctx, X, case, ra, rb, st_):
    """True when two runs of one and the same presentation may stop at different sweeps (see tucker_printing): ARPACK's
    unseedable start vector perturbs every run at rounding level and some fit change lies within 1e-6 of stoptol."""
    its = [r[2].get("iters") if isinstance(r, tuple) and len(r) == 3 and isinstance(r[2], dict) else None for r in (ra, rb)]
    arpack = any(r < n - 1 for r, n in zip(case["rank"], case["shape"]))
    if not (st_ > 0 and arpack and its[0] != its[1]):
        return False
    fits = []
    for k in range(1, int(case["maxiters"]) + 1):
        with ctx.sut("tucker_als-truncated"):
            rk, _ = _tucker(X, dict(case, maxiters=k), C10._tucker_init(case), printitn=0, stoptol=0.0)
        f = rk[2].get("fit") if isinstance(rk, tuple) and len(rk) == 3 and isinstance(rk[2], dict) else None
        fits.append(float(f) if H.is_float(f) else float("nan"))
    deltas = [abs(fits[k] - (fits[k - 1] if k else 0.0)) for k in range(len(fits))]
    return any(not np.isfinite(d) or abs(d - st_) <= 1e-6 for d in deltas)


@st.composite
def _tucker_report_case(draw, tier):
    c = draw(_tucker_print_case(tier))
    c["variants"] = draw(_report_variants())
    return c


@cell("C18/tucker_als/reporting", strategy=_tucker_report_case, quick=100, thorough=800, shards=(4, 16))
def tucker_reporting(ctx, case):
    A = C10.tucker_data(case)
    _tucker_labels(ctx, case)
    st_ = float(case["stoptol"])
    ctx.label("init-" + case["init"], "stoptol-0" if st_ == 0 else ("stoptol<1e-6" if st_ < 1e-6 else "stoptol>=1e-6"))
    X = _tucker_hold(case, A)
    with ctx.sut("tucker_als-baseline"):
        ra, _ = _tucker(X, case, C10._tucker_init(case), printitn=0, stoptol=st_)
    for v in case["variants"]:
        _report_labels(ctx, v)
        with ctx.sut("tucker_als-reporting"):
            with _log_env(v["log"]):
                rb, tb = _tucker(X, case, C10._tucker_init(case), printitn=_np_or_int(v["p"]), stoptol=st_)
        ctx.check(("Iter" in tb) == (not _quiet_spec(v["p"]) and float(_np_or_int(v["p"])) <= 1), "reporting-setting-takes-effect",
                  (v["p"], tb[:40])) if float(_np_or_int(v["p"])) <= 1 else None
        if _tucker_stop_tie(ctx, X, case, ra, rb, st_):
            ctx.label("arpack-stop-threshold-tie-not-judged")
            ctx.nt = False
            return
        _tucker_pair(ctx, ra, rb, A, case, tag="reporting",
                     control=lambda: _tucker(X, case, C10._tucker_init(case), printitn=0, stoptol=st_))


def _tucker_dimorder_uint64(case):
    """tucker_als with a given mode order presented as a uint64 array in some variant (tensor.ttm promotes uint64 + int to float64)"""
    return case.get("dimorder") is not None and any(v.get("ints") == "np-uint64" for v in case.get("variants", []))


PREDICATES["tucker_dimorder_uint64"] = _tucker_dimorder_uint64


@st.composite
def _tucker_present_case(draw, tier):
    c = draw(_tucker_problem(tier))
    c["init"] = draw(st.sampled_from(["list", "list", "list-orth", "list-eye", "list-zeros", "list-int", "nvecs"]))
    c["variants"] = draw(_present_variants())
    if draw(st.integers(0, 3)) == 0:  # one rank for every mode, so that the scalar form is admissible
        r = min(min(c["shape"]), draw(st.integers(1, 3)))
        c["rank"] = [r] * len(c["shape"])
        c["mlrank"] = list(c["rank"])
    return c


@cell("C18/tucker_als/presentation", strategy=_tucker_present_case, quick=100, thorough=800, shards=(4, 16))
def tucker_presentation(ctx, case):
    A = C10.tucker_data(case)
    if _uses_f32(case):
        A = _f32_exact(A)
    _tucker_labels(ctx, case)
    ctx.label("init-" + case["init"])
    uniform = len(set(case["rank"])) == 1
    with ctx.sut("tucker_als-baseline"):
        ra, _ = _tucker(H.make_tensor(A), case, C10._tucker_init(case))
    for v in case["variants"]:
        Xv, used = _present_dense(A, v["dense"], "int64")
        g = C10._tucker_init(case)
        if isinstance(g, list):
            g = _present_matrices(g, v["guess"])
        if uniform and v["rank"] != "int":
            rank, rform = _form_int(case["rank"][0], v["rank"]), "scalar-" + v["rank"]  # documented: one rank for all modes
        elif uniform and v["ints"] == "list":
            rank, rform = int(case["rank"][0]), "scalar-int"
        else:
            rank, rform = _form_ints(case["rank"], v["ints"] if v["ints"] != "range" else "tuple"), "vector-" + v["ints"]
        kw = dict(stoptol=np.float64(0.0), maxiters=_form_int(case["maxiters"], v["count"]), init=g, printitn=_form_int(0, v["count"]))
        if case["dimorder"] is not None:
            kw["dimorder"] = _form_ints(case["dimorder"], v["ints"])
        ctx.label("data-" + used, "guess-" + (v["guess"] if isinstance(g, list) else "string"), "rank-" + rform, "counts-" + v["count"])
        ctx.label("options-positional" if v.get("positional") else "options-by-keyword")
        with ctx.sut("tucker_als-presented"):
            with H.captured():
                if v.get("positional"):  # documented order: stoptol, maxiters, dimorder, init, printitn
                    rb = ttb.tucker_als(Xv, rank, kw["stoptol"], kw["maxiters"], kw.get("dimorder"), kw["init"], kw["printitn"])
                else:
                    rb = ttb.tucker_als(Xv, rank, **kw)
        if used == "float32":
            ctx.require(isinstance(rb, tuple) and len(rb) == 3 and isinstance(rb[2], dict) and "fit" in rb[2], "presentation-returns-triple")
            DA, _ = _tt(ctx, ra[0], A.ndim, "presentation-first")
            DB, _ = _tt(ctx, rb[0], A.ndim, "presentation-second")
            with _rel_for(used):
                _close(ctx, DB, DA, "presentation-same-model")
            _fit_close32(ctx, ra[2]["fit"], rb[2]["fit"], "presentation-same-fit-single-precision-bound")
        else:
            _tucker_pair(ctx, ra, rb, A, case, tag="presentation")


# ---- GCP-OPT with L-BFGS-B ----

# reporting settings of the optimizer itself that keep scipy's Fortran code silent (iprint >= 0 writes to the process's
# file descriptor 1 from Fortran, which cannot be captured here): all of them are the same request
LBFGSB_SILENT = [{"iprint": -1}, {}, {"disp": 0}, {"iprint": -1, "disp": 0}, {"iprint": -7}, {"disp": None, "iprint": None}]


@st.composite
def _gcp_report_case(draw, tier):
    c = draw(_gcp_case(tier))
    c["prior"] = []
    c["variants"] = draw(_report_variants())
    for v in c["variants"]:
        v["lbfgsb"] = draw(st.integers(0, len(LBFGSB_SILENT) - 1))
    return c


def _gcp_with(X, case, init, printitn, rank=None, silent=None, optkw=None):
    from pyttb.gcp.handles import Objectives
    from pyttb.gcp.optimizers import LBFGSB

    kw = {k: v for k, v in case["opt"].items() if v is not None}
    kw.update(optkw or {})
    opt = LBFGSB(**(LBFGSB_SILENT[0] if silent is None else silent), **kw)
    if isinstance(init, str):
        np.random.seed(case["np_seed"])
    with H.captured() as buf:
        res = ttb.gcp_opt(X, int(case["R"]) if rank is None else rank, Objectives[case["objective"]], opt, init=init, printitn=printitn)
    return res, buf.getvalue()


@cell("C18/gcp_opt-lbfgsb/reporting", strategy=_gcp_report_case, quick=80, thorough=640, shards=(4, 16))
def gcp_reporting(ctx, case):
    A = gcp_data(case)
    _gcp_labels(ctx, case)
    ctx.label("init-" + case["init"])
    with ctx.sut("gcp_opt-baseline"):
        ra, _ = _gcp_with(gcp_tensor(case, A), case, _gcp_init(case), 0)
    for v in case["variants"]:
        _report_labels(ctx, v)
        sil = LBFGSB_SILENT[int(v["lbfgsb"])]
        ctx.label("lbfgsb-" + (",".join(f"{k}={sil[k]}" for k in sorted(sil)) or "reporting-options-omitted"))
        with ctx.sut("gcp_opt-reporting"):
            with _log_env(v["log"]):
                rb, _ = _gcp_with(gcp_tensor(case, A), case, _gcp_init(case), _np_or_int(v["p"]), silent=sil)
        _gcp_pair(ctx, ra, rb, case, "reporting")
        ctx.check(isinstance(ra[1], ttb.ktensor) and isinstance(rb[1], ttb.ktensor) and H.snapshot(ra[1]) == H.snapshot(rb[1]),
                  "reporting-same-starting-guess")
        ia, ib = (r[2].get("nit") if isinstance(r[2], dict) else None for r in (ra, rb))
        ctx.check(ia == ib, "reporting-same-iteration-count", (ia, ib))


def _gcp_readonly_ktensor_guess(case):
    """gcp_opt with the guess presented as a ktensor that references read-only arrays (gcp_opt normalises the caller's object)"""
    return any(v.get("init_form") == "ktensor" and v.get("guess") == "readonly" for v in case.get("variants", []))


PREDICATES["gcp_readonly_ktensor_guess"] = _gcp_readonly_ktensor_guess


@st.composite
def _gcp_present_case(draw, tier):
    c = draw(_gcp_case(tier))
    c["prior"] = []
    c["init"] = "ktensor"
    c["variants"] = draw(_present_variants())
    for v in c["variants"]:
        v["init_form"] = draw(st.sampled_from(["ktensor", "list", "tuple", "ktensor"]))
    return c


@cell("C18/gcp_opt-lbfgsb/presentation", strategy=_gcp_present_case, quick=80, thorough=640, shards=(4, 16))
def gcp_presentation(ctx, case):
    A = gcp_data(case)
    if _uses_f32(case):
        A = _f32_exact(A)
    _gcp_labels(ctx, case)
    fm = [np.array(f, copy=True) for f in _gcp_init(dict(case, init="list"))]
    with ctx.sut("gcp_opt-baseline"):
        ra, _ = _gcp_with(H.make_tensor(A), case, ttb.ktensor([H.F(f) for f in fm], np.ones(int(case["R"]))), 0)
    for v in case["variants"]:
        Xv, used = _present_dense(A, v["dense"], case.get("dtype"))
        mats = _present_matrices(fm, v["guess"])
        if v["init_form"] == "ktensor":
            g = _present_ktensor(ttb.ktensor([H.F(f) for f in fm], np.ones(int(case["R"]))), v["guess"])
        else:
            g = mats if v["init_form"] == "list" else tuple(mats)
        ctx.label("data-" + used, "guess-" + v["init_form"] + "-" + v["guess"], "rank-" + v["rank"], "counts-" + v["count"])
        optkw = {k: _form_int(case["opt"][k], v["count"]) for k in ("maxiter", "m", "maxfun", "maxls") if case["opt"].get(k) is not None}
        with ctx.sut("gcp_opt-presented"):
            rb, _ = _gcp_with(Xv, case, g, _form_int(0, v["count"]), rank=_form_int(case["R"], v["rank"]), optkw=optkw)
        with _rel_for(used):
            _gcp_pair(ctx, ra, rb, case, "presentation")
