"""C02 cells for boolean data (round 2, class 2).

pyttb produces boolean tensors itself (``T > 0``, ``S != 0`` ... return a tensor / sptensor whose values are
``numpy.bool_``) and the dense constructor accepts a boolean array on purpose, so an indicator tensor is an ordinary
operand of the multilinear operations (counting the entries selected by a vector, the overlap of two indicator
tensors, ...).  The array such a tensor denotes has entries 0 and 1.

  C02/booldata/tensor, C02/booldata/sptensor   one operation per case on an indicator tensor obtained as a comparison
      result (``X != 0``) or from the constructor, compared with the defining sum on the 0/1 array.
"""

from __future__ import annotations

import numpy as np
from hypothesis import strategies as st

import pyttb as ttb

from .. import gen, ref
from ..core import cell
from . import _c02_common as cm

OPS = ("norm", "innerprod-self", "innerprod-bool", "innerprod-float", "ttv", "ttv-all", "collapse-all", "collapse",
       "contract", "mttkrp", "ttm", "scale", "ttt")


def _strategy(kind):
    @st.composite
    def s(draw, tier):
        shape = draw(gen.shapes(tier, min_order=2, max_order=3, max_cells=36))
        op = draw(st.sampled_from(OPS))
        ij = list(draw(st.permutations(range(len(shape)))))[:2]
        if op == "contract":
            shape[ij[1]] = shape[ij[0]]
        n = ref.prod(shape)
        bits = draw(st.lists(st.booleans(), min_size=n, max_size=n))
        if not any(bits):
            bits[draw(st.integers(0, n - 1))] = True
        c = dict(kind=kind, shape=shape, bits=[1.0 if b else 0.0 for b in bits], op=op,
                 how=draw(st.sampled_from(["compare", "compare", "ctor"])))
        N = len(shape)
        if op in ("innerprod-bool", "innerprod-float", "ttt"):
            c["other"] = [float(draw(st.integers(0, 1) if op != "innerprod-float" else st.integers(-3, 3))) for _ in range(n)]
        if op in ("ttv", "collapse", "scale", "ttm", "mttkrp"):
            c["mode"] = draw(st.integers(0, N - 1))
        if op in ("ttv", "ttv-all", "scale", "ttm", "mttkrp"):
            c["vecs"] = [[float(draw(st.integers(-3, 3))) for _ in range(m)] for m in shape]
        if op == "contract":
            c["i"], c["j"] = ij
        return c

    return s


def _build(c, bits, as_bool=True):
    A = gen.arr_F(c["shape"], bits)
    if c["kind"] == "tensor":
        if c["how"] == "compare" and as_bool:
            return ttb.tensor(A.copy(order="F"), tuple(c["shape"])) != 0
        return ttb.tensor((A != 0).copy(order="F") if as_bool else A.copy(order="F"), tuple(c["shape"]))
    sc = gen.sparse_case_from_dense(A)
    S = gen.build_sptensor(sc)
    if not as_bool:
        return S
    if c["how"] == "compare":
        return S != 0
    subs = np.array(sc["subs"], dtype=int).reshape(len(sc["subs"]), len(c["shape"]))
    return ttb.sptensor(subs, np.ones((len(sc["subs"]), 1), dtype=bool), tuple(c["shape"]))


def bool_body(ctx, c):
    op, shape = c["op"], c["shape"]
    N = len(shape)
    A = gen.arr_F(shape, c["bits"])
    X = _build(c, c["bits"])
    ctx.require(isinstance(X, (ttb.tensor, ttb.sptensor)), "harness-comparison-gives-tensor", type(X).__name__)
    vals = X.data if isinstance(X, ttb.tensor) else X.vals
    ctx.label("op-" + op, "made-by-" + c["how"], "stored-" + str(vals.dtype), type(X).__name__)
    if vals.dtype != bool:
        ctx.skip("comparison-result-not-boolean")
    if not np.array_equal(ref.den(X), A):
        ctx.skip("comparison-result-differs")  # judged by C03
    ctx.nt = len(set(shape)) >= 2 and int(A.sum()) >= 2
    what = f"{type(X).__name__}.{op}"
    vecs = [np.array(v, dtype=float) for v in c.get("vecs") or []]
    m = c.get("mode")
    with ctx.sut(what):
        if op == "norm":
            R, expect = X.norm(), None
        elif op == "innerprod-self":
            R, expect = X.innerprod(X), np.array(float(np.sum(A * A)))
        elif op == "innerprod-bool":
            R, expect = X.innerprod(_build(c, c["other"])), np.array(float(np.sum(A * gen.arr_F(shape, c["other"]))))
        elif op == "innerprod-float":
            R, expect = X.innerprod(_build(c, c["other"], as_bool=False)), np.array(float(np.sum(A * gen.arr_F(shape, c["other"]))))
        elif op == "ttv":
            R, expect = X.ttv(vecs[m], int(m)), cm.ref_ttv(A, {m: vecs[m]})
        elif op == "ttv-all":
            R, expect = X.ttv(vecs), cm.ref_ttv(A, dict(enumerate(vecs)))
        elif op == "collapse-all":
            R, expect = X.collapse(), np.array(float(A.sum()))
        elif op == "collapse":
            R, expect = X.collapse(np.array([m])), A.sum(axis=m)
        elif op == "contract":
            R, expect = X.contract(int(c["i"]), int(c["j"])), np.trace(A, axis1=c["i"], axis2=c["j"])
        elif op == "mttkrp":
            U = [v.reshape(-1, 1).copy() for v in vecs]
            R, expect = X.mttkrp(U, int(m)), cm.ref_mttkrp(A, U, m)
        elif op == "ttm":
            M = vecs[m].reshape(1, -1)
            R, expect = X.ttm(M, int(m)), cm.ref_ttm(A, {m: M})
        elif op == "scale":
            R, expect = X.scale(vecs[m], int(m)), A * vecs[m].reshape([-1 if d == m else 1 for d in range(N)])
        else:
            if c["kind"] != "tensor":
                ctx.skip("ttt-is-dense-only")
            B = gen.arr_F(shape, c["other"])
            R, expect = X.ttt(_build(c, c["other"])), np.tensordot(A, B, axes=0)
    if op == "norm":
        ctx.require(isinstance(R, cm.SCALAR_TYPES) and not isinstance(R, bool), "norm-returns-scalar", type(R).__name__)
        ctx.check(abs(float(R) - np.sqrt(A.sum())) <= 4 * ref.EPS * np.sqrt(A.sum()), "norm-value", f"{R!r} vs sqrt({A.sum()})")
        return
    if isinstance(R, (bool, np.bool_)):
        # a truth value where a number (a count, a sum) is defined
        ctx.check(float(R) == float(expect) if np.ndim(expect) == 0 else False, op.split("-")[0] + "-value",
                  f"returned the truth value {R!r}; the sum is {expect!r}")
        return
    got = cm.result_array(ctx, R, op.split("-")[0] + "-result")
    if np.ndim(expect) == 0 and got.size == 1:
        got = got.reshape(())
    cm.compare(ctx, got, np.asarray(expect, dtype=float), np.abs(np.asarray(expect, dtype=float)) + 1, 1, True,
               op.split("-")[0] + "-value", f"op={op}")


cell("C02/booldata/tensor", strategy=_strategy("tensor"), quick=300, thorough=4000, shards=(1, 4))(bool_body)
cell("C02/booldata/sptensor", strategy=_strategy("sptensor"), quick=300, thorough=4000, shards=(1, 4))(bool_body)
