"""C02 — multilinear products equal their definition in every representation.

The cells live in helper modules (imported here so that they register):
  _c02_common    holders (case dict <-> pyttb object <-> reference array), mode designations, NumPy reference
                 kernels, comparison policy
  _c02_modes     ttv, ttm: every designation form (dims in any order / exclude_dims / one multiplicand per listed
                 mode or per tensor mode / scalar dim / bare multiplicand), sampled and enumerated
  _c02_mttkrp    mttkrp (five holders; factor list or Kruskal operand with non-unit weights), tensor.mttkrps
  _c02_pairs     ttt, innerprod (every supported ordered pair of classes), scale, mask
  _c02_unary     ttsv, norm (incl. tenmat / sptenmat), contract, collapse, ttensor.reconstruct
  _c02_states    (round 2) derived object states and storage dtypes of the holders: every holder comes into being
                 through the constructor or through a short history of public operations (growth by assignment,
                 permute, reshape, slicing, normalize(weight_factor=k), scale by zero ...) that ends in an object
                 denoting the same array
  _c02_chain     (round 2) results of one operation fed into the next (with exact cancellation), and several calls
                 on the same operand objects
  _c02_bool      (round 2) indicator tensors stored as booleans (comparison results) as operands
  _c02_large     (round 3) a few operands per run above internal block sizes (> 1e4 stored nonzeros, 1e5..1e6 cells,
                 ranks 10..20), every operation x holder class, stored as compact descriptions (sizes + seed)
  _c02_special   (round 3) ordinary cases transformed into near-special ones: units of 1e-12 .. 1e+12, slices spread over
                 24 decades, unbalanced Kruskal / Tucker parameters, identity / orthonormal / unit-norm factors and
                 multiplicands exactly, epsilon-perturbed and merely normalised
  _c02_huge      (round 3) sparse tensors with modes longer than 2**53 and cell counts beyond 2**63 (dictionary oracle)
  _c02_present   (round 4) the same request as other callers type it (mode numbers in int32 / uint8 / uint16 / uint64 arrays,
                 numpy integer scalars, tuples; multiplicands read-only / negative or wide strides / F order / float32; tuple
                 containers; optional arguments positionally; Kruskal operands holding read-only arrays), the receiver as other
                 callers build it (float32 data, subscripts in int32 / uint8 / ..., shape as a narrow integer array, read-only
                 buffers without a copy), the root logger at DEBUG, and the state after a request that cannot be carried out
  _c02_findings  predicates referenced by known_findings/C02.json
"""

from __future__ import annotations

import logging

from . import _c02_common as cm  # noqa: F401
from . import _c02_modes  # noqa: F401
from . import _c02_mttkrp  # noqa: F401
from . import _c02_pairs  # noqa: F401
from . import _c02_unary  # noqa: F401
from . import _c02_chain  # noqa: F401
from . import _c02_bool  # noqa: F401
from . import _c02_large  # noqa: F401
from . import _c02_special  # noqa: F401
from . import _c02_huge  # noqa: F401
from . import _c02_present  # noqa: F401
from ._c02_findings import PREDICATES  # noqa: F401

logging.disable(logging.WARNING)  # pyttb logs a warning per no-copy construction; not a verdict

PROPERTY = "C02"
RULE = (
    "case = (holder of class tensor | sptensor(any stored order; none/one/few/some/all nonzero) | ktensor | "
    "ttensor(dense or sparse core) | sumtensor(1-3 parts of the four kinds), operation arguments) drawn by Hypothesis, "
    "or a full enumeration (every designation of every non-empty mode subset x every holder class on fixed "
    "non-cubical shapes; every n / skip_dim / version / ordered mode pair / reducer / ordered class pair).  "
    "Oracle = the defining sum over indices evaluated with numpy (tensordot / einsum / trace / take) on the array the "
    "case dict denotes; the result is compared through the array it denotes whatever class is handed back, with "
    "remaining modes ascending; integer-valued data exactly, general floats within 64*n*eps*(same sum on absolute "
    "values).  Labels record result class (dense / sparse / empty sparse / scalar) and the reference fill on either "
    "side of 50 %.  Non-trivial: >= 2 distinct mode sizes, selected modes not an ascending prefix listed in order, "
    "non-constant multiplicands and a non-zero expected result (per-operation analogues for the kernels without a "
    "mode designation: N>=3 and rank>=2 for mttkrp, unequal/unsorted dims for ttt, a trace size >=2 for contract, "
    "a mask hitting both zeros and nonzeros, ...).  "
    "Round 2: every holder also carries a *state* = how the object comes into being (constructor, or a short history "
    "of public operations ending in an object that denotes the same array: dense grown by assignment / permuted / "
    "reshaped / sliced / squeezed / from tenmat / from sptensor; sparse with explicitly stored zeros (unvalidated "
    "constructor, scale by a factor with zeros, S*0+T), numpy-int shape, grown, permuted, from_aggregator, "
    "tensor.to_sptensor; Kruskal after normalize(weight_factor=k | None | 'all'), arrange, redistribute, K1+K2, "
    "permute; Tucker with a core in any of these states handed over with copy=False or copied, or permuted) and a "
    "storage dtype (integer-valued data as float64 / int64 / int32 / uint8; multiplicand vectors, matrices, factor "
    "matrices and second tensors with their own dtype, value kind (int data with float multiplicands and vice versa) "
    "and memory layout C / F / strided view).  Labels state-* (asked for), state-achieved:* / state-fallback:* and "
    "obj-* (what the built object really looks like: not F-contiguous, numpy ints in shape, stored zeros, dtype).  "
    "Chain cells feed the result of one operation into the next (with mirrored slices so that sums cancel exactly in "
    "sparse results) and repeat the first call at the end; sequence cells make 2-4 calls sharing receiver, factor "
    "operand, vector list and second tensor.  "
    "Round 3: (large) every operation x holder class on a few operands per run above internal block sizes - sparse "
    "with 1e4..6e4 stored nonzeros, dense with 1e5..1e6 cells, Kruskal of rank 10..20, Tucker with a 10..20-wide core, "
    "5-6 modes or a sparse core holding > 1e4 nonzeros, sums of those - stored as compact descriptions (sizes + an "
    "integer seed) and expanded inside the body into the ordinary case format, judged by the ordinary bodies against "
    "NumPy on the expanded array; (hugemodes) sparse tensors with modes longer than 2**53 / 2**60 and cell counts beyond "
    "2**63, judged on the dictionary {subscript: value} with integer data; (special) ordinary cases transformed into "
    "near-special ones - whole operands in units of 1e-12..1e+12 (1e-100 / 1e+100), multiplicands in such units, "
    "slices of one mode spread over up to 24 decades, unbalanced Kruskal / Tucker parameters (a column of norm 1e-18 with "
    "a weight 1e+18, up to 1e-100 / 1e+100), factor matrices and multiplicands that are identity-like, orthonormal, "
    "unit-norm-but-not-orthogonal or partial permutations, exactly and perturbed by 1e-12..1e-5, unit / all-ones vectors "
    "exactly and perturbed, exactly and nearly symmetric data for ttsv; labels special:*, large:*.  "
    "Round 4: (present) the ordinary case of every operation with a drawn *presentation*: mode numbers / mode lists as arrays "
    "of int16 / int32 / int64 / uint8 / uint16 / uint32 / uint64, numpy integer scalars of those widths, tuples, lists of numpy "
    "integers; array operands read-only, with negative or wide strides, F-ordered, in single precision; multiplicand "
    "lists as tuples; optional arguments positionally; a Kruskal MTTKRP operand built with copy=False on read-only arrays; "
    "root logger at DEBUG (labels pres-*); judged by the ordinary body against the ordinary reference, so two "
    "presentations of one request are held to the same answer.  (present/holder) the receiver / second tensor as other "
    "callers build it: dense data or sparse values in float32, subscripts in int8..uint64, shape as an array of a narrow "
    "integer type / list / tuple of numpy integers, read-only buffers taken with copy=False, Kruskal / Tucker parameters "
    "as read-only arrays without a copy (labels hpres-*); sptensor-roomy: modes of 9..60 so that subscripts fit uint8 / "
    "int8 while linear indices do not.  (refused) an ill-formed request (wrong-length / length-1 / column-shaped "
    "multiplicand, repeated / negative / out-of-range mode, mismatched sizes, lists of different lengths over extents of "
    "1, one multiplicand too many ...) made on freshly built operands, then receiver and operands compared bit for bit "
    "with their snapshot and the ordinary valid request made on the same receiver (labels bad-*, refused-* / carried-out)."
)
ASSUMPTIONS = [
    "derived states are produced through the public API only; the operations that make up a history are judged by "
    "other properties (C03/C04/C07): a builder checks by reading attributes that the object denotes the holder's array "
    "and otherwise falls back to the constructor (label state-fallback:*)",
    "a Kruskal holder whose history normalises it is compared within the rounding bound even for integer-valued case "
    "data (normalising is not exact); MTTKRP with a Kruskal *operand* in a derived state is defined by the operand's "
    "parameters (weights and factor matrices read from the built object), not only by the array it denotes",
    "two narrow-integer (uint8) operands are never combined: their products wrap around by NumPy's own promotion "
    "rules; a narrow-integer operand meets float64 / int64 / int32 ones",
    "float32 data is generated only by the round-4 presentation cells: the values of an operand shown in single precision "
    "are rounded to float32 in the case (the cast loses nothing, the float64 reference is the reference of what is "
    "passed), the bound uses the single-precision unit (2**29 x the double-precision count) and nothing is compared "
    "exactly, because a kernel may legitimately compute in the operands' precision; elsewhere data is float64",
    "(round 4) presentations requested are the documented ones: dims / exclude_dims / collapse dims / reconstruct modes "
    "are OneDArray (int, numpy integer, list, tuple, ndarray of any integer dtype); ttt selfdims / otherdims are 'int or "
    "ndarray' (lists and tuples are not requested there); ttm / ttv / mttkrp take a Sequence of arrays (list or tuple); a "
    "bare list of floats as the ttv vector, a pyttb.tensor as a ttm matrix and index samples given as Python lists to "
    "reconstruct are outside the documented forms and not requested",
    "(round 4) whether an ill-formed request must be refused is C19's statement, not this property's: the refused cells "
    "record the outcome (labels refused-<Exception> / carried-out) and judge only that receiver and operands are unchanged "
    "and that the next valid request on the same receiver gives the defining sum",
    "a mask W is given as float64 / int64 / uint8 / bool ones; a sparse W keeps its stored order (no derived history "
    "that would re-order it, and no explicitly stored zeros, whose meaning as 'ones of W' is not defined)",
    "multiplicand alignment: a list as long as the listed dims pairs multiplicand j with dims[j]; a list as long as "
    "the tensor order pairs multiplicand d with mode d (unused entries are junk of any shape and must not be looked "
    "at); with exclude_dims and one multiplicand per selected mode they follow the remaining modes in ascending "
    "order; when |dims| == N only the first rule is exercised",
    "scale: the k-th mode of the factor belongs to the k-th selected mode in ascending order (the only reading the "
    "shape check of both implementations accepts); dims themselves are listed in any order",
    "mask: values are expected in the order in which W enumerates its ones (F order for a dense W, stored order "
    "for a sparse W)",
    "sparse collapse hands only stored nonzeros to the reducer (documented design): only zero-insensitive reducers "
    "(sum, sum of squares) are used there; dense collapse also uses max and min",
    "norm is compared in squared form, |r^2 - sum a^2| <= 64 n eps B + 8 eps S, because Kruskal/Tucker norms are "
    "computed from Gram matrices with cancellation; sumtensor.norm is a documented stub returning 0 and is not judged",
    "ttsv with a one-entry result may return a scalar or a one-entry array: only the value is judged",
    "the class of a sparse-or-dense result is recorded (labels) but not judged: the property fixes values, not "
    "the storage class chosen at the 50 % switch",
    "scipy sparse matrices are passed to tensor.ttm / sptensor.ttm (both accept them) because they are the only "
    "route to the sparse-result branch of sptensor.ttm",
    "exact comparison for integer-valued data is used only while the absolute-value bound stays below 2**50",
    "(round 3) large operands: sparse x sparse kernels that compare every stored entry of one operand with every one of "
    "the other (innerprod, mask, scale by a sparse factor) get one large and one small operand in the quick tier; the "
    "reference array of a large Kruskal / Tucker holder is formed with matrix products of Khatri-Rao factors / a "
    "tensordot chain instead of one einsum",
    "(round 3) transformed cases keep every bound relative to the same sum on absolute values; units of 1e-100 / 1e+100 "
    "are applied to one operand and one transform only, so that no defining product leaves the double range; for norm "
    "and innerprod of the transformed cases the rounding-error count is that of the algorithms themselves (Gram / "
    "cross-Gram matrices, sum over pairs of components, or expansion and a sum over the cells: _c02_common.tight_count) "
    "instead of the product of all counts, so that perturbations of 1e-9 are visible",
    "(round 3) products of two narrow-integer operands that wrap to zero are NumPy's own promotion rule and stay out "
    "(see above); underflow of a defining product to exactly zero is not generated (the reference itself would underflow)",
    "(round 3) sparse tensors with huge modes: the kernels that need one multiplicand entry per index of a huge mode "
    "(ttv / scale along that mode, mttkrp, ttm, which matricises against a dense matrix) are outside the domain; a "
    "result with exactly one mode is accumulated by pyttb in a dense vector of that mode's length (documented "
    "algorithm), so such a mode is always a small one; empty mode subsets are outside the property's quantifier "
    "('every non-empty subset of modes') and are not requested",
]
