"""C02 — multilinear products equal their definition in every representation.

The cells live in helper modules (imported here so that they register):
  _c02_common   holders, mode designations, NumPy reference kernels, comparison policy
  _c02_modes    ttv, ttm (every designation form, enumerated and sampled)
"""

from __future__ import annotations

import logging

from . import _c02_common as cm  # noqa: F401
from . import _c02_modes  # noqa: F401
from . import _c02_mttkrp  # noqa: F401
from . import _c02_pairs  # noqa: F401
from . import _c02_unary  # noqa: F401
from ._c02_findings import PREDICATES  # noqa: F401

logging.disable(logging.WARNING)  # pyttb logs a warning per no-copy construction; not a verdict

PROPERTY = "C02"
RULE = "TBD"
ASSUMPTIONS = []
