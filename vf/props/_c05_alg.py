"""C05 cells for the algorithm entry points: cp_als, cp_apr (mu, pdnr, pqnr), hosvd, tucker_als, gcp_opt.

The caller's data tensor, initial guess, index arrays (dimorder, optdims, ranks) and mask are the operands.  The
model (first returned value) and the info dictionary are the result subject to the independence clauses.  The
second returned value (the initial guess that was used) is judged separately under the clause
``init-echo-aliases-init``: when the caller supplied the guess, the algorithms hand the very same object back.
"""

from __future__ import annotations

import numpy as np
from hypothesis import strategies as st

import pyttb as ttb

from .. import gen, ref
from . import _c05_helpers as H
from . import _c05_reg as R
from ._c05_reg import op


@st.composite
def small_shape(draw, min_order=2, max_order=3, min_size=2, max_size=4):
    n = draw(st.integers(min_order, max_order))
    return [draw(st.integers(min_size, max_size if n < 3 else 3)) for _ in range(n)]


def d_pos(draw, n, lo=0.1, hi=5.0):
    return draw(st.lists(st.floats(lo, hi, allow_nan=False, width=64), min_size=n, max_size=n))


def d_counts(draw, n, zero_frac=True):
    return [float(v) for v in draw(st.lists(st.sampled_from([0, 0, 1, 2, 3, 5]) if zero_frac else st.integers(1, 5),
                                            min_size=n, max_size=n))]


def model_and_info(ret):
    return {"model": ret[0], "info": ret[2]}


def echo_post(init_obj):
    """clause for the second returned value (initial guess echo)."""

    def post(ctx, ret):
        if init_obj is None:
            return
        echoed = ret[1]
        pairs = H.shared_pairs(echoed, init_obj)
        ctx.label("init-echo-is-the-caller's-object" if echoed is init_obj else "init-echo-new-object")
        ctx.check(not pairs, "init-echo-aliases-init",
                  f"returned initial guess{pairs[0][0]} shares memory with the caller's init{pairs[0][1]}" if pairs else "")

    return post


def dimorder_arg(c, key, ops):
    v = c.get(key)
    if v is None:
        return None
    a = R.as_form(v["v"], v["form"])
    ops[key] = a
    return a


def d_order(draw, n, subset=False):
    if draw(st.booleans()):
        return None
    v = list(draw(st.permutations(range(n))))
    if subset:
        k = draw(st.integers(1, n))
        v = sorted(v[:k])
    return dict(v=v, form=draw(st.sampled_from(["array", "array", "list"])))


# --------------------------------------------------------------------------
# cp_als
# --------------------------------------------------------------------------


@st.composite
def g_cp_als(draw, tier):
    shape = draw(small_shape())
    n = len(shape)
    kind = draw(st.sampled_from(["tensor", "tensor", "sptensor", "ttensor", "sumtensor"]))
    c = dict(shape=shape, dkind=kind, data=R.d_other(draw, kind, shape, "float" if kind != "sumtensor" else "int"))
    c["rank"] = draw(st.integers(1, 2))
    inits = ["random", "ktensor", "ktensor"] + ([] if kind == "sumtensor" else ["nvecs"])
    c["init"] = draw(st.sampled_from(inits))
    if c["init"] == "ktensor":
        c["init_k"] = R.d_kt_like(draw, shape, "float", rank=c["rank"], weights=draw(st.sampled_from(["unit", "any"])))
    if c["init"] == "nvecs":
        c["rank"] = min([c["rank"]] + shape)
    c["dimorder"] = d_order(draw, n)
    c["optdims"] = d_order(draw, n, subset=True)
    if c["dimorder"] is not None and c["optdims"] is not None and c["dimorder"]["v"][-1] not in c["optdims"]["v"]:
        c["optdims"] = None
    c["maxiters"] = draw(st.integers(1, 3))
    # (round 4, class 13) the reporting option over its range: silent, every iteration, every k-th iteration, never
    # reached (more than maxiters) - what is reported must not decide what happens to the operands
    c["printitn"] = draw(st.sampled_from([0, 1, 1, 2, 3, 7]))
    c["fixsigns"] = draw(st.booleans())
    c["np_seed"] = draw(R.SEED)
    return c


@op("alg/cp_als", g_cp_als, quick=60, thorough=1500, shards=(2, 4), result_of=model_and_info)
def _(ctx, c):
    X = R.other_of(c["dkind"], c["data"])
    ops = {"data": X}
    kw = dict(maxiters=c["maxiters"], printitn=c["printitn"], fixsigns=c["fixsigns"])
    init_obj = None
    if c["init"] == "ktensor":
        init_obj = R.CS.build_ktensor(c["init_k"])
        ops["init"] = init_obj
        kw["init"] = init_obj
    else:
        kw["init"] = c["init"]
    do = dimorder_arg(c, "dimorder", ops)
    if do is not None:
        kw["dimorder"] = do
    od = dimorder_arg(c, "optdims", ops)
    if od is not None:
        kw["optdims"] = od
    ctx.label("data-" + c["dkind"], "init-" + c["init"], "dimorder-" + ("none" if do is None else c["dimorder"]["form"]),
              "optdims-" + ("none" if od is None else c["optdims"]["form"]), f"printitn-{c['printitn']}")
    return ops, lambda: ttb.cp_als(X, c["rank"], **kw), None, echo_post(init_obj)


# --------------------------------------------------------------------------
# cp_apr
# --------------------------------------------------------------------------


@st.composite
def g_cp_apr(draw, tier):
    shape = draw(small_shape())
    n = len(shape)
    kind = draw(st.sampled_from(["tensor", "sptensor"]))
    total = ref.prod(shape)
    counts = d_counts(draw, total)
    if sum(1 for v in counts if v) < 2:
        counts[0], counts[-1] = 2.0, 1.0
    c = dict(shape=shape, dkind=kind, counts=counts)
    c["rank"] = draw(st.integers(1, 2))
    c["init"] = draw(st.sampled_from(["random", "ktensor", "ktensor"]))
    if c["init"] == "ktensor":
        r = c["rank"]
        factors = [[d_pos(draw, r) for _ in range(s)] for s in shape]
        # all-zero rows: the row-subproblem solvers special-case them
        zr = draw(st.lists(st.tuples(st.integers(0, n - 1), st.integers(0, 3)), min_size=0, max_size=2))
        for m, row in zr:
            factors[m][row % shape[m]] = [0.0] * r
        c["init_k"] = dict(shape=shape, rank=r, weights=d_pos(draw, r) if draw(st.booleans()) else [1.0] * r, factors=factors)
        c["zero_rows"] = len(zr)
    c["maxiters"] = draw(st.integers(1, 2))
    c["maxinneriters"] = draw(st.integers(1, 3))
    c["printitn"] = draw(st.sampled_from([0, 1, 1, 2, 5]))
    c["printinneritn"] = draw(st.sampled_from([0, 0, 1, 2]))
    c["precompinds"] = draw(st.booleans())
    c["np_seed"] = draw(R.SEED)
    return c


R.pred("apr_init_has_zero_row")(lambda c: c.get("init") == "ktensor" and any(
    all(v == 0 for v in row) for f in c["init_k"]["factors"] for row in f))


def _reg_apr(alg):
    @op("alg/cp_apr-" + alg, g_cp_apr, quick=40, thorough=800, shards=(2, 4), result_of=model_and_info)
    def _(ctx, c, alg=alg):
        A = gen.arr_F(c["shape"], c["counts"])
        X = ttb.tensor(A.copy(order="F"), tuple(c["shape"]))
        if c["dkind"] == "sptensor":
            X = gen.build_sptensor(gen.sparse_case_from_dense(A))
        ops = {"data": X}
        kw = dict(algorithm=alg, maxiters=c["maxiters"], maxinneriters=c["maxinneriters"], printitn=c["printitn"],
                  printinneritn=c.get("printinneritn", 0))
        ctx.label(f"printitn-{c['printitn']}", f"printinneritn-{c.get('printinneritn', 0)}")
        if alg != "mu":
            kw["precompinds"] = c["precompinds"]
        init_obj = None
        if c["init"] == "ktensor":
            init_obj = R.CS.build_ktensor(c["init_k"])
            ops["init"] = init_obj
            kw["init"] = init_obj
            ctx.label("init-ktensor", "zero-rows" if R.PREDICATES["apr_init_has_zero_row"](c) else "no-zero-rows")
        else:
            ctx.label("init-random")
        ctx.label("data-" + c["dkind"])
        return ops, lambda: ttb.cp_apr(X, c["rank"], **kw), None, echo_post(init_obj)


for _a in ("mu", "pdnr", "pqnr"):
    _reg_apr(_a)


# --------------------------------------------------------------------------
# hosvd
# --------------------------------------------------------------------------


@st.composite
def g_hosvd(draw, tier):
    shape = draw(small_shape(min_order=2, max_order=3))
    n = len(shape)
    c = R.d_dense_like(draw, shape, "float")
    c["tol"] = draw(st.sampled_from([1e-3, 0.1, 0.5]))
    c["dimorder"] = d_order(draw, n)
    rform = draw(st.sampled_from(["none", "array", "array", "list"]))
    if rform != "none":
        # 0 = 'compute this rank'
        v = [draw(st.integers(0, s - 1)) for s in shape]
        if draw(st.sampled_from([True, True, False])):
            v[draw(st.integers(0, n - 1))] = 0
        c["ranks"] = dict(v=v, form=rform)
    else:
        c["ranks"] = None
    c["sequential"] = draw(st.booleans())
    c["verbosity"] = draw(st.sampled_from([0, 1, 1, 3, 6, 11]))  # (the code has thresholds at 0, 2 and 5)
    return c


R.pred("hosvd_ranks_array_with_zero")(lambda c: c.get("ranks") is not None and c["ranks"]["form"] == "array" and 0 in c["ranks"]["v"])


@op("alg/hosvd", g_hosvd, quick=60, thorough=1500, shards=(1, 4))
def _(ctx, c):
    X = R.CS.build_tensor(c)
    ops = {"data": X}
    kw = dict(verbosity=c["verbosity"], sequential=c["sequential"])
    do = dimorder_arg(c, "dimorder", ops)
    if do is not None:
        kw["dimorder"] = do
    rk = dimorder_arg(c, "ranks", ops)
    if rk is not None:
        kw["ranks"] = rk
    ctx.label("ranks-" + ("none" if rk is None else c["ranks"]["form"] + ("-with-zero" if 0 in c["ranks"]["v"] else "")),
              "sequential" if c["sequential"] else "not-sequential", f"verbosity-{c['verbosity']}")
    return ops, lambda: ttb.hosvd(X, c["tol"], **kw)


# --------------------------------------------------------------------------
# tucker_als
# --------------------------------------------------------------------------


@st.composite
def g_tucker(draw, tier):
    shape = draw(small_shape(min_order=2, max_order=3))
    n = len(shape)
    c = R.d_dense_like(draw, shape, "float")
    c["pattern"] = "all"
    c["data"] = R.d_vals(draw, ref.prod(shape), "float", nonzero=True)
    rk = [draw(st.integers(1, max(1, s - 1))) for s in shape]
    c["rank_form"] = draw(st.sampled_from(["int", "array", "list"]))
    if c["rank_form"] == "int":
        rk = [min(rk)] * n
    c["rank"] = rk
    c["init"] = draw(st.sampled_from(["random", "nvecs", "list", "list"]))
    if c["init"] == "list":
        c["init_mats"] = R.d_mats(draw, shape, rk, "float")
    c["dimorder"] = d_order(draw, n)
    c["maxiters"] = draw(st.integers(1, 2))
    c["printitn"] = draw(st.sampled_from([0, 1, 1, 2, 5]))
    c["np_seed"] = draw(R.SEED)
    return c


@op("alg/tucker_als", g_tucker, quick=40, thorough=1000, shards=(2, 4), result_of=model_and_info)
def _(ctx, c):
    X = R.CS.build_tensor(c)
    ops = {"data": X}
    kw = dict(maxiters=c["maxiters"], printitn=c["printitn"])
    rank = c["rank"][0] if c["rank_form"] == "int" else R.as_form(c["rank"], c["rank_form"])
    if c["rank_form"] != "int":
        ops["rank"] = rank
    init_obj = None
    if c["init"] == "list":
        init_obj = [R.mat(m, s, r, c) for m, s, r in zip(c["init_mats"], c["shape"], c["rank"])]
        ops["init"] = init_obj
        kw["init"] = init_obj
    else:
        kw["init"] = c["init"]
    do = dimorder_arg(c, "dimorder", ops)
    if do is not None:
        kw["dimorder"] = do
    ctx.label("init-" + c["init"], "rank-" + c["rank_form"], "dimorder-" + ("none" if do is None else c["dimorder"]["form"]),
              f"printitn-{c['printitn']}")
    return ops, lambda: ttb.tucker_als(X, rank, **kw), None, echo_post(init_obj)


# --------------------------------------------------------------------------
# gcp_opt
# --------------------------------------------------------------------------


@st.composite
def g_gcp(draw, tier):
    shape = draw(small_shape())
    n = len(shape)
    total = ref.prod(shape)
    c = dict(shape=shape)
    c["dkind"] = draw(st.sampled_from(["tensor", "tensor", "sptensor"]))
    c["objective"] = draw(st.sampled_from(["GAUSSIAN", "POISSON"]))
    if c["dkind"] == "sptensor":
        # plenty of zeros and of nonzeros so that stratified sampling finds both
        shape = [max(3, s) for s in shape]
        c["shape"] = shape
        total = ref.prod(shape)
        vals = [float(v) for v in draw(st.lists(st.sampled_from([0, 0, 0, 0, 0, 1, 2, 3]), min_size=total, max_size=total))]
        vals[0], vals[1], vals[-1], vals[-2] = 2.0, 0.0, 1.0, 0.0
        c["vals"] = vals
        c["optimizer"] = draw(st.sampled_from(["SGD", "Adam", "Adagrad", "Adagrad"]))
        c["mask"] = None
    else:
        c["vals"] = d_counts(draw, total)
        c["optimizer"] = draw(st.sampled_from(["LBFGSB", "LBFGSB", "SGD", "Adam", "Adagrad"]))
        c["mask"] = draw(st.lists(st.sampled_from([0.0, 1.0, 1.0]), min_size=total, max_size=total)) \
            if c["optimizer"] == "LBFGSB" and draw(st.booleans()) else None
    c["rank"] = draw(st.integers(1, 2))
    c["init"] = draw(st.sampled_from(["random", "ktensor", "ktensor", "list"]))
    if c["init"] != "random":
        r = c["rank"]
        c["init_k"] = dict(shape=shape, rank=r, weights=d_pos(draw, r) if draw(st.booleans()) else [1.0] * r,
                           factors=[[d_pos(draw, r) for _ in range(s)] for s in shape])
    c["np_seed"] = draw(R.SEED)
    # (round 4, class 13) reporting of the driver and of the stochastic optimizers (they log through the root logger)
    c["printitn"] = draw(st.sampled_from([0, 0, 1, 2]))
    c["opt_printitn"] = draw(st.sampled_from([0, 0, 1, 2]))
    return c


R.pred("caller_supplied_init_object")(
    lambda c: c.get("init") == "ktensor" or (c.get("init") == "list" and "init_mats" in c))
R.pred("order_array_given")(lambda c: any(
    c.get(k) is not None and c[k]["form"] == "array" for k in ("dimorder", "optdims")))
R.pred("gcp_init_is_ktensor")(lambda c: c.get("init") == "ktensor")


@op("alg/gcp_opt", g_gcp, quick=50, thorough=1000, shards=(2, 4), result_of=model_and_info)
def _(ctx, c):
    from pyttb.gcp.handles import Objectives
    from pyttb.gcp.optimizers import LBFGSB, SGD, Adagrad, Adam
    from pyttb.gcp.samplers import GCPSampler

    A = gen.arr_F(c["shape"], c["vals"])
    if c["dkind"] == "tensor":
        X = ttb.tensor(A.copy(order="F"), tuple(c["shape"]))
    else:
        X = gen.build_sptensor(gen.sparse_case_from_dense(A))
    ops = {"data": X}
    obj = getattr(Objectives, c["objective"])
    if c["optimizer"] == "LBFGSB":
        opt = LBFGSB(maxiter=2, iprint=-1)
    else:
        opt = {"SGD": SGD, "Adam": Adam, "Adagrad": Adagrad}[c["optimizer"]](
            max_iters=2, epoch_iters=2, printitn=c.get("opt_printitn", 0))
    kw = dict(printitn=c.get("printitn", 0))
    ctx.label(f"printitn-{c.get('printitn', 0)}", f"opt-printitn-{c.get('opt_printitn', 0)}")
    init_obj = None
    if c["init"] == "ktensor":
        init_obj = R.CS.build_ktensor(c["init_k"])
        ops["init"] = init_obj
        kw["init"] = init_obj
    elif c["init"] == "list":
        init_obj = [R.CS.aux(c, np.array(f, dtype=float).reshape(s, c["rank"])) for f, s in zip(c["init_k"]["factors"], c["shape"])]
        ops["init"] = init_obj
        kw["init"] = init_obj
    if c["mask"] is not None:
        M = ttb.tensor(gen.arr_F(c["shape"], c["mask"]).copy(order="F"), tuple(c["shape"]))
        ops["mask"] = M
        kw["mask"] = M
    if c["dkind"] == "sptensor":
        kw["sampler"] = GCPSampler(X, function_samples=2, gradient_samples=2)
    ctx.label("data-" + c["dkind"], "opt-" + c["optimizer"], "init-" + c["init"], "mask" if c["mask"] is not None else "no-mask",
              "obj-" + c["objective"])
    return ops, lambda: ttb.gcp_opt(X, c["rank"], obj, opt, **kw), None, echo_post(init_obj)
