"""Helpers shared by C16 and C20 (both check "the k-th call depends only on its own arguments").

``isolated(ctx, body, case)`` runs a cell body in a forked child process and merges what it recorded into ``ctx``.

Why: cells that look for state carried from one call to the next (module-level option tables, cached buffers) drive the
code under test through histories that *leave such state behind* when the code is defective.  The worker process that
evaluates the cases would keep that state for every later case of the shard, so a later (or a shrunk) case could fail
because of an earlier one and the written replay would not reproduce in a fresh process.  With the fork every case starts
from the state of a process that has only imported pyttb; a replay therefore shows exactly what the search saw.
"""

from __future__ import annotations

import os
import pickle
import traceback

from ..core import Abort, Skip


def isolated(ctx, body, case):
    nv, nl = len(ctx.violations), len(ctx.labels)
    r, w = os.pipe()
    pid = os.fork()
    if pid == 0:  # child: run the body on the (copied) ctx, ship the record, leave without any cleanup handlers
        code = 0
        try:
            os.close(r)
            out = dict(skipped=None, harness_error=None)
            try:
                body(ctx, case)
            except Abort:
                pass
            except Skip as s:
                out["skipped"] = str(s) or "skip"
            except BaseException:  # noqa: BLE001
                out["harness_error"] = traceback.format_exc(limit=12)
            out.update(violations=ctx.violations[nv:], labels=ctx.labels[nl:], nt=ctx.nt, notes=ctx.notes)
            with os.fdopen(w, "wb") as f:
                pickle.dump(out, f)
        except BaseException:  # noqa: BLE001
            code = 3
        finally:
            os._exit(code)
    os.close(w)
    with os.fdopen(r, "rb") as f:
        blob = f.read()
    _, status = os.waitpid(pid, 0)
    if not blob:
        # the child died without reporting (a crash inside the code under test takes the interpreter down)
        ctx.fail("exception", "call-sequence:interpreter-died", f"wait status {status}")
        raise Abort()
    out = pickle.loads(blob)
    ctx.violations.extend(out["violations"])
    ctx.labels.extend(out["labels"])
    ctx.nt = out["nt"]
    ctx.notes.update(out["notes"])
    if out["harness_error"]:
        raise RuntimeError("in isolated child:\n" + out["harness_error"])
    if out["skipped"] is not None:
        raise Skip(out["skipped"])
