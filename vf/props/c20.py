"""C20 — generators and aggregating constructors build what they advertise.

Every cell builds the expected object from the request alone (NumPy / Python dictionaries), never through another
pyttb generator.  Randomised generators (tenrand, sptenrand, sptensor.from_function) are seeded with the generated
``np_seed`` right before each call, so a case is reproducible and "same seed twice" is itself a checked clause.

Round 2.  *Every generator is called twice with the same arguments*: the first result is judged, then overwritten in
place through the object's own assignment interface (a caller may do what it likes with a tensor it was given), then the
generator is called again and the second result is judged by the same clauses (tagged ``/second-call``) - a generator
that hands out a cached or shared buffer fails there.  The random generators additionally see an unrelated request
between the two seeded calls.  A case that fails a ``/second-call`` clause carries the whole history (call, overwrite, call)
and therefore reproduces in a fresh process; the enumerated teneye cases, which repeat the same (ndims, size), are run in
a forked child each (``isolated``) so that a buffer kept by a defective generator cannot leak into the next case.  *Dtypes*: shapes
as int32 / uint8 arrays and numpy scalars, element vectors and aggregated values in integer / boolean dtypes, subscripts in
int32 / uint8 / uint16 (also with indices at the top of the dtype's range), counts as numpy scalars where the signature
accepts them.  Reducers by name and as the matching NumPy callable; exact cancellation also for general floats; values
scaled by 1e-6 / 1e+6 (relative bounds only).

Round 4.  *Presentations* (C20/presentations): every generator answers the canonical call and the same request presented
differently (shape as uint64 / uint16 / read-only / strided / row array, tuples of np.uint64 / np.int16, bare numpy scalars and
0-d arrays; counts, densities, ndims and sizes as numpy scalars of several widths incl. np.float32; element vectors, subscripts
and values in narrow / unsigned / single-precision / boolean dtypes, read-only and strided; the reducer by name, as NumPy
callable and as Python builtin; optional arguments positionally in their documented order and everything by keyword; root logger
at DEBUG / INFO) under the same seed - the two answers must be identical and process-wide settings untouched.  *Orders 5..8*
(C20/high-order, teneye(6, 4) and teneye(8, 2) with the closed-form entries).  *Rejected requests* (C20/rejected): valid request,
ill-formed request(s), the same valid request again - the ill-formed one must raise, leave its arguments bit for bit as they
were and the process settings unchanged, and the valid request is answered exactly as before.
"""

from __future__ import annotations

import contextlib
import itertools
import logging
import math

import numpy as np
from hypothesis import strategies as st

import pyttb as ttb

from .. import gen, ref
from ..core import cell
from ._c16_helpers import isolated

PROPERTY = "C20"

# tensor / ktensor constructors called with copy=False by the generators under test log a layout warning per call
logging.getLogger().setLevel(logging.ERROR)
RULE = (
    "requests = (generator, shape in one of the accepted forms [tuple, list, ndarray, int], order flag, element vector, "
    "function output layout, requested count or density, np_seed, subscript list with generated multiplicities and "
    "stored order, reducer) drawn by Hypothesis, teneye enumerated over ndims in {2,4,6} x size 1..3; oracle = the "
    "object rebuilt from the request with NumPy / a Python dict of lists.  Non-trivial: non-cubical shape (dense "
    "generators, diagonals, from_function), element vector shorter or longer than a mode (diagonals), a request of "
    "more than half the tensor size (random sparse), at least one repeated subscript and unsorted input (aggregator).  "
    "Round 2: every generator is called twice with the same arguments, the first result overwritten in between (random ones "
    "under the same seed with an unrelated request in between), both results judged; shapes as int32 / uint8 arrays, numpy "
    "scalars and tuples of numpy integers; element vectors, aggregated values and subscripts in integer / boolean dtypes "
    "(subscripts also at the top of uint8 / uint16); counts as numpy scalars; reducers by name and as NumPy callable; "
    "exact cancellation of general floats; values scaled by 1e-6 / 1e+6; F-ordered and strided subscript arrays.  Round 3: "
    "C20/sparse/huge-shapes - sptenrand (count and density), sptensor.from_function, from_aggregator and sptendiag on shapes "
    "with more than 2**31, 2**53 and 2**63 entries and modes up to 2**62, judged on Python integers (subscripts inside the "
    "shape, distinct, exact count, values, reproducible under the seed, dictionary aggregation); aggregated values and "
    "diagonal elements scaled by 1e-9 / 1e-12 / 1e-300 with the clause 'only exact zeros are dropped'; an empty element "
    "vector for the diagonals; the second result of every dense / random sparse generator stays alive and is judged again "
    "after a third result was made and edited; the arguments of tendiag / sptendiag are judged after the result was edited.  "
    "Round 4: C20/presentations - canonical call vs the same request in a drawn presentation (shape forms incl. uint64 / uint16 / "
    "read-only / strided / row arrays, numpy scalars of several widths for counts, densities [np.float32], ndims, sizes; narrow, "
    "unsigned, single-precision, boolean, read-only, strided element / subscript / value arrays; reducer as name / NumPy callable / "
    "builtin; arguments positionally or all by keyword; root logger at DEBUG / INFO), same seed, identical answers required; "
    "C20/high-order - every generator at order 5..8 (<= 600 entries; tendiag / sptendiag without a shape for 5..7 elements), "
    "teneye(6,4) and teneye(8,2) against the closed form prod (c_v-1)!!/(m-1)!!; C20/rejected - histories valid / ill-formed / valid "
    "with the ill-formed part generated next to extents of 1 and equal lengths (one value for many subscripts, a 1x1 subscript "
    "with many values, flat / row / two-column / 3-d values, subscripts wider or narrower than the shape, out-of-range subscript "
    "with a zero value, count == size, count in the density position, a function returning one entry more or fewer, ...): "
    "exception required, arguments and process settings unchanged, the valid request answered as before."
)
ASSUMPTIONS = [
    "teneye: T x^(m-1) = x for unit x is checked with |got - x| <= 1e-12 (the rounding of ||x|| = 1 and of a sum of "
    "at most 3^5 products; observed worst 4e-16)",
    "aggregator sums / means of general floats: 64*n*eps*sum|v| (association order of numpy_groupies is not specified); "
    "integer-valued data exact",
    "functions handed to the sparse generators return non-zero values (a stored zero would not be a well-formed "
    "sparse tensor whatever the generator does)",
    "density requests: the advertised count is density*size rounded either way (|nnz - density*size| < 1); count "
    "requests >= 1: floor(nonzeros); fractions < 1 given as nonzeros: ceil(fraction*size) (docstring of from_function)",
    "sptenrand(nonzeros=...) is given Python numbers or np.float64 only: it rejects numpy integer scalars by an explicit "
    "isinstance(nonzeros, (int, float)) test (reported, not listed); sptensor.from_function takes them",
    "the first result is overwritten through the object's own assignment interface; if that assignment raises the result "
    "simply stays as it was (assignment is C04's subject)",
    "uint8 aggregated values: a group is compared only when its exact result fits a byte (wrap-around of the accumulator is "
    "NumPy's arithmetic, not the constructor's)",
    "float32 / int16 aggregated values are integers of magnitude <= 6 in groups of <= 4: every sum, product, max, min is exact in "
    "the presented dtype; a mean formed in float32 is compared with 8*2^-24*sum|v|",
    "boolean aggregated values: only reducers whose result is again a truth value or a float (count, mean, prod, sum with at most one "
    "True per group); numpy_groupies refuses max / min of booleans (ValueError 'not inexact') - reported, not listed",
    "ktensor.from_function is given its rank as a Python int: it asserts isinstance(num_components, int) with the message 'must be "
    "an int' (documented refusal of numpy integers - reported, not listed)",
    "float32 counts / fractions / densities are chosen half-way between two admissible counts (k +- 0.5), so that the product with "
    "the size rounds the same way in single and double precision",
    "process-wide settings compared around a call: numpy error state, print options, root logger level, logging.disable level",
]

_SHAPE_FORMS = ["tuple", "list", "ndarray", "ndarray-col", "npint-list", "ndarray-int32", "ndarray-uint8", "npint32-tuple",
                "npuint8-tuple",
                # (round 4) further presentations of the same shape
                "ndarray-uint64", "ndarray-uint16", "npuint64-tuple", "npint16-list", "ndarray-readonly", "ndarray-strided",
                "ndarray-row"]
_SHAPE_FORMS_ORDER1 = ["int", "int", "npint", "npint32", "npuint8", "ndarray-0d"]


def _shape_arg(shape, form):
    if form == "tuple":
        return tuple(shape)
    if form == "list":
        return list(shape)
    if form == "ndarray":
        return np.array(shape, dtype=int)
    if form == "ndarray-col":
        return np.array(shape, dtype=int).reshape(-1, 1)
    if form == "npint-list":
        return [np.int64(s) for s in shape]
    if form == "ndarray-int32":
        return np.array(shape, dtype=np.int32)
    if form == "ndarray-uint8":  # (every generated mode size is far below 256; the product need not be)
        return np.array(shape, dtype=np.uint8)
    if form == "npint32-tuple":
        return tuple(np.int32(s) for s in shape)
    if form == "npuint8-tuple":  # e.g. tuple(np.array(..., dtype=np.uint8)): entries fit, their product need not
        return tuple(np.uint8(s) for s in shape)
    if form == "int":
        return int(shape[0])
    if form == "npint":
        return np.int64(shape[0])
    if form == "ndarray-uint64":  # e.g. what np.array(.., dtype=np.uint64) / an HDF5 attribute hands over
        return np.array(shape, dtype=np.uint64)
    if form == "ndarray-uint16":
        return np.array(shape, dtype=np.uint16)
    if form == "npuint64-tuple":
        return tuple(np.uint64(s) for s in shape)
    if form == "npint16-list":
        return [np.int16(s) for s in shape]
    if form == "ndarray-readonly":
        a = np.array(shape, dtype=int)
        a.setflags(write=False)
        return a
    if form == "ndarray-strided":  # every other entry of a longer array
        big = np.zeros(2 * len(shape), dtype=int)
        big[::2] = shape
        return big[::2]
    if form == "ndarray-row":
        return np.array(shape, dtype=int).reshape(1, -1)
    if form == "npint32":
        return np.int32(shape[0])
    if form == "npuint8":
        return np.uint8(shape[0])
    if form == "ndarray-0d":
        return np.array(int(shape[0]))
    raise ValueError(form)


@st.composite
def _shape_and_form(draw, tier, **kw):
    shape = draw(gen.shapes(tier, **kw))
    forms = list(_SHAPE_FORMS) + (_SHAPE_FORMS_ORDER1 if len(shape) == 1 else [])
    return shape, draw(st.sampled_from(forms))


def tup(s):
    return tuple(int(v) for v in s)


_U8 = "/uint8-shape-entries-product-overflows"


def u8_overflow(form, built_shape, surviving=True):
    """pure function of the request: the shape is a tuple of np.uint8 entries (each fits) whose product does not fit a byte
    (``surviving``: at least one np.uint8 entry is still in the shape the generator multiplies out)"""
    return form == "npuint8-tuple" and surviving and ref.prod(built_shape) > 255


def spoil_tensor(T):
    """overwrite every entry of a dense tensor the caller was given, through subscripted assignment (assignment itself is
    another property's subject: if it raises, the result simply stays as it was)"""
    try:
        shape = tuple(int(x) for x in T.shape)
        if len(shape) and all(shape):
            T[tuple(slice(0, n) for n in shape)] = -3.25
    except Exception:  # noqa: BLE001
        pass


def spoil_sptensor(S):
    """overwrite stored values of a sparse tensor the caller was given (assignment to existing and to new entries)"""
    try:
        if S.subs.size:
            for row in np.array(S.subs, copy=True)[:3]:
                S[tuple(int(x) for x in row)] = 9.75
        S[tuple(0 for _ in S.shape)] = 1.5
    except Exception:  # noqa: BLE001
        pass


def _is_F_tensor(ctx, T, shape, what):
    ctx.require(isinstance(T, ttb.tensor), f"{what}-returns-tensor", type(T).__name__)
    ctx.check(tup(T.shape) == tuple(shape), f"{what}-shape", f"{T.shape} vs {shape}")
    ctx.require(isinstance(T.data, np.ndarray) and T.data.shape == tuple(shape), f"{what}-data-shape",
                getattr(T.data, "shape", None))
    ctx.check(T.data.flags["F_CONTIGUOUS"], f"{what}-data-fortran-ordered")


# ==========================================================================
# tenones / tenzeros / tenrand
# ==========================================================================


@st.composite
def _dense_gen_case(draw, tier):
    shape, form = draw(_shape_and_form(tier, min_order=1))
    return dict(shape=shape, form=form, order=draw(st.sampled_from(["F", "C", None])),
                np_seed=draw(st.integers(0, 2 ** 31 - 1)))


def _dense_generators(ctx, case):
    shape = tuple(case["shape"])
    ctx.label(*gen.shape_classes(shape), "form-" + case["form"], f"order-{case['order']}")
    ctx.nt = len(set(shape)) >= 2
    kw = {} if case["order"] is None else dict(order=case["order"])
    keep = {}
    u8 = _U8 if u8_overflow(case["form"], shape) else ""
    ctx.label("uint8-entries-product-overflows" if u8 else "shape-product-fits-entry-dtype")
    for tag in ("", "/second-call"):
        with ctx.sut("tenones" + u8 + tag):
            O = ttb.tenones(_shape_arg(shape, case["form"]), **kw)
        _is_F_tensor(ctx, O, shape, "tenones" + tag)
        ctx.check(O.data.dtype == np.float64 and bool(np.all(O.data == 1.0)), "tenones-all-one" + tag)
        with ctx.sut("tenzeros" + u8 + tag):
            Z = ttb.tenzeros(_shape_arg(shape, case["form"]), **kw)
        _is_F_tensor(ctx, Z, shape, "tenzeros" + tag)
        ctx.check(Z.data.dtype == np.float64 and bool(np.all(Z.data == 0.0)), "tenzeros-all-zero" + tag)
        np.random.seed(case["np_seed"])
        with ctx.sut("tenrand" + u8 + tag):
            R = ttb.tenrand(_shape_arg(shape, case["form"]), **kw)
        _is_F_tensor(ctx, R, shape, "tenrand" + tag)
        ctx.check(R.data.dtype == np.float64 and bool(np.all((R.data >= 0.0) & (R.data < 1.0))),
                  "tenrand-in-unit-interval" + tag, (float(R.data.min()), float(R.data.max())))
        if tag == "":
            keep["R"] = np.array(R.data, copy=True)
            ctx.check(not np.shares_memory(O.data, Z.data) and not np.shares_memory(O.data, R.data), "generators-return-fresh-data")
            # the caller overwrites what it was given, asks for something else, then repeats the request
            for T in (O, Z, R):
                spoil_tensor(T)
            with ctx.sut("tenrand-unrelated-request"):
                ttb.tenrand((2, 3))
        else:
            ctx.check(np.array_equal(R.data, keep["R"]), "tenrand-reproducible-under-seed")
            # (round 3) two results alive at once: a third set is made and edited, the second set is judged again
            with ctx.sut("dense-generators/third-call"):
                third = [ttb.tenones(_shape_arg(shape, case["form"]), **kw), ttb.tenzeros(_shape_arg(shape, case["form"]), **kw)]
                np.random.seed(case["np_seed"])
                third.append(ttb.tenrand(_shape_arg(shape, case["form"]), **kw))
            for T in third:
                if isinstance(T, ttb.tensor):
                    spoil_tensor(T)
            ctx.check(bool(np.all(O.data == 1.0)) and bool(np.all(Z.data == 0.0)) and np.array_equal(R.data, keep["R"]),
                      "dense-generators-earlier-result-changed-by-later-call")


@cell("C20/dense/ones-zeros-rand", strategy=_dense_gen_case, quick=500, thorough=10000, shards=(1, 8))
def dense_generators(ctx, case):
    _dense_generators(ctx, case)


# ==========================================================================
# tensor.from_function
# ==========================================================================


@st.composite
def _from_function_case(draw, tier):
    shape, form = draw(_shape_and_form(tier, min_order=1))
    n = ref.prod(shape)
    data = draw(st.lists(gen.values("int"), min_size=n, max_size=n))
    return dict(shape=shape, form=form, data=data, output=draw(st.sampled_from(["C", "F", "flat", "C-int", "strided", "flat-float32", "F-int32"])))


@cell("C20/dense/from_function", strategy=_from_function_case, quick=500, thorough=10000, shards=(1, 8))
def dense_from_function(ctx, case):
    _dense_from_function(ctx, case)


def _dense_from_function(ctx, case):
    """a function returning an array of the requested shape (any layout) defines T[i] = f(shape)[i]; a flat vector is the
    first-index-fastest listing (docstring: 'return a 1D vector' to avoid reordering)"""
    shape = tuple(case["shape"])
    out = case["output"]
    ctx.label(*gen.shape_classes(shape), "output-" + out, "form-" + case["form"])
    ctx.nt = len(set(shape)) >= 2
    A = gen.arr_F(shape, case["data"])  # the intended tensor
    calls = []

    def fun(s):
        calls.append(s)
        if out == "flat":
            return A.ravel(order="F").copy()
        if out == "F":
            return np.asfortranarray(A.copy())
        if out == "C":
            return np.ascontiguousarray(A.copy())
        if out == "C-int":
            return np.ascontiguousarray(A.astype(np.int64))
        if out == "flat-float32":  # (round 4) the generated values are small integers: exact in any of these dtypes
            return A.ravel(order="F").astype(np.float32)
        if out == "F-int32":
            return np.asfortranarray(A.astype(np.int32))
        big = np.zeros(tuple(2 * d for d in shape))
        sl = tuple(slice(None, None, 2) for _ in shape)
        big[sl] = A
        return big[sl]

    u8 = _U8 if u8_overflow(case["form"], shape) else ""
    ctx.label("uint8-entries-product-overflows" if u8 else "shape-product-fits-entry-dtype")
    for n, tag in ((1, ""), (2, "/second-call")):
        with ctx.sut("tensor.from_function" + u8 + tag):
            T = ttb.tensor.from_function(fun, _shape_arg(shape, case["form"]))
        ctx.check(len(calls) == n and isinstance(calls[-1], tuple) and tup(calls[-1]) == shape,
                  "from_function-called-with-shape" + tag, calls)
        _is_F_tensor(ctx, T, shape, "from_function" + tag)
        ctx.check(ref.same_exact(T.data, A), "from_function-entries-are-function-output" + tag, ref.diff_info(T.data, A))
        spoil_tensor(T)
    ctx.check(ref.same_exact(A, gen.arr_F(shape, case["data"])), "from_function-leaves-function-output")


# ==========================================================================
# tendiag / sptendiag
# ==========================================================================


@st.composite
def _diag_case(draw, tier):
    k = draw(st.sampled_from([0, 1, 1, 2, 2, 3, 3, 4, 4, 5, 5]))  # (round 3) 0: no element at all, with a shape given
    vkind = draw(st.sampled_from(["int", "float"]))
    el = draw(st.lists(gen.values(vkind), min_size=k, max_size=k))
    # (round 3) whole element vectors of magnitude 1e-9 .. 1e-300 / 1e+300: below every absolute tolerance, still not zero
    scale = draw(st.sampled_from([1.0, 1.0, 1.0, 1e-9, 1e-12, 1e-300, 1e300])) if vkind == "float" else 1.0
    el = [v * scale for v in el]
    mode = draw(st.sampled_from(["default", "cubical", "noncubical", "noncubical", "noncubical"]))
    if k == 0 and mode == "default":
        mode = "noncubical"
    maxs = 5 if tier == "quick" else 7
    if mode == "default":
        k = min(k, 4)
        el = el[:k]
        shape = None
    elif mode == "cubical":
        n = draw(st.integers(1, 4))
        shape = [draw(st.integers(1, maxs))] * n
    else:
        n = draw(st.integers(1, 4))
        shape = [draw(st.integers(1, maxs)) for _ in range(n)]
        # make "shorter / equal / longer than some mode" all likely
        if draw(st.booleans()) and n >= 2 and k >= 1:
            shape[draw(st.integers(0, n - 1))] = k
    elform = draw(st.sampled_from(["list", "ndarray", "tuple", "col", "scalar" if k == 1 else "list"] +
                                  (["ndarray-int64", "ndarray-int32", "ndarray-uint8", "ndarray-bool", "list-int"]
                                   if vkind == "int" else []))) if k else "ndarray"
    if elform == "ndarray-uint8":
        el = [abs(v) for v in el]
    elif elform == "ndarray-bool":
        el = [float(v != 0) for v in el]
    sform = draw(st.sampled_from(_SHAPE_FORMS + (_SHAPE_FORMS_ORDER1 if shape and len(shape) == 1 else [])))
    return dict(elements=el, shape=shape, elform=elform, sform=sform, vkind=vkind, scale=scale,
                order=draw(st.sampled_from(["F", "C", None])))


def _el_arg(el, form):
    if form == "list":
        return list(el)
    if form == "tuple":
        return tuple(el)
    if form == "ndarray":
        return np.array(el, dtype=float)
    if form == "col":
        return np.array(el, dtype=float).reshape(-1, 1)
    if form.startswith("ndarray-"):
        return np.array(el, dtype=float).astype(np.dtype(form[len("ndarray-"):]))
    if form == "list-int":
        return [int(v) for v in el]
    return float(el[0])


def _diag_expect(el, shape):
    k = len(el)
    full = (k,) * k if shape is None else tuple(max(k, d) for d in shape)
    E = np.zeros(full)
    for i, v in enumerate(el):
        E[(i,) * len(full)] = v
    return E


def diag_u8(case):
    """tendiag enlarges a mode shorter than the element vector to its (python int) length: a np.uint8 entry survives
    only where the mode is longer"""
    shape, k = case["shape"], len(case["elements"])
    return shape is not None and u8_overflow(case["sform"], [max(k, d) for d in shape], any(d > k for d in shape))


@cell("C20/diag", strategy=_diag_case, quick=600, thorough=12000, shards=(1, 8))
def diagonals(ctx, case):
    _diagonals(ctx, case)


def _diagonals(ctx, case):
    """tendiag / sptendiag: the given values at (i,i,...,i), zero elsewhere, shape = requested shape enlarged to the
    number of elements where a mode is shorter (docstring)"""
    el, shape = case["elements"], case["shape"]
    k = len(el)
    E = _diag_expect(el, shape)
    if shape is None:
        ctx.label("shape-default")
    else:
        ctx.label("cubical" if len(set(shape)) == 1 else "non-cubical",
                  *(["elements-longer-than-a-mode"] if any(k > d for d in shape) else []),
                  *(["elements-shorter-than-a-mode"] if any(k < d for d in shape) else []),
                  *(["elements-equal-a-mode"] if any(k == d for d in shape) else []))
    ctx.label("has-zero-element" if any(v == 0 for v in el) else "no-zero-element", f"order{E.ndim}", "elements-" + case["elform"],
              "shape-" + str(case["sform"]), f"scale-{case.get('scale', 1.0):g}", "no-elements" if k == 0 else "some-elements")
    ctx.nt = shape is not None and len(set(shape)) >= 2 and any(k != d for d in shape) and k >= 2
    kw = {} if case["order"] is None else dict(order=case["order"])

    def args():
        out = [_el_arg(el, case["elform"])]
        if shape is not None:
            out.append(_shape_arg(shape, case["sform"]))
        return out

    u8 = _U8 if diag_u8(case) else ""
    ne = "/no-elements" if k == 0 else ""
    ctx.label("uint8-entries-product-overflows" if u8 else "shape-product-fits-entry-dtype")
    for tag in ("", "/second-call"):
        held = args()  # (round 3) the caller keeps its arguments: they are judged again after the result was edited
        with ctx.sut("sptendiag" + ne + tag):
            S = ttb.sptendiag(*held)
        ctx.require(isinstance(S, ttb.sptensor), "sptendiag-returns-sptensor" + tag, type(S).__name__)
        ctx.check(tup(S.shape) == E.shape, "sptendiag-shape" + tag, f"{S.shape} vs {E.shape}")
        probs = ref.sptensor_problems(S)
        ctx.require(not probs, "sptendiag-wellformed" + tag, probs)
        ctx.check(ref.same_exact(ref.den(S), E), "sptendiag-values-on-superdiagonal-zero-elsewhere" + tag,
                  ref.diff_info(ref.den(S), E))
        ctx.check(S.nnz == sum(1 for v in el if v != 0), "sptendiag-stores-nonzero-elements-only" + tag, S.nnz)
        spoil_sptensor(S)
        ctx.check(_same_args(held, args()), "sptendiag-result-edit-reaches-arguments" + tag)
        with ctx.sut("tendiag" + u8 + ne + tag):
            T = ttb.tendiag(*held, **kw)
        _is_F_tensor(ctx, T, E.shape, "tendiag" + tag)
        ctx.check(ref.same_exact(T.data, E), "tendiag-values-on-superdiagonal-zero-elsewhere" + tag, ref.diff_info(T.data, E))
        spoil_tensor(T)
        ctx.check(_same_args(held, args()), "tendiag-result-edit-reaches-arguments" + tag)


def _same_args(held, fresh):
    """the arguments a caller kept are still what a fresh build of them gives (arrays compared with dtype)"""
    if len(held) != len(fresh):
        return False
    for a, b in zip(held, fresh):
        if isinstance(b, np.ndarray):
            if not (isinstance(a, np.ndarray) and a.dtype == b.dtype and a.shape == b.shape and ref.same_exact(a, b)):
                return False
        elif isinstance(b, (list, tuple)):
            if not (type(a) is type(b) and len(a) == len(b) and all(float(x) == float(y) for x, y in zip(a, b))):
                return False
        elif float(a) != float(b):
            return False
    return True


# ==========================================================================
# teneye
# ==========================================================================

_XS = {
    1: [[1.0], [-1.0]],
    2: [[1.0, 0.0], [0.0, -1.0], [0.6, 0.8], [-0.8, 0.6], [2 ** -0.5, 2 ** -0.5], [0.28, -0.96]],
    3: [[1.0, 0.0, 0.0], [0.0, 0.0, 1.0], [2 / 3, -1 / 3, 2 / 3], [0.0, 0.6, -0.8], [3 ** -0.5, 3 ** -0.5, 3 ** -0.5],
        [2 / 7, 3 / 7, 6 / 7], [-0.36, 0.48, 0.8]],
}


def _enum_teneye(tier):
    for m in (2, 4, 6):
        for n in (1, 2, 3):
            for order in ("F", "C", None):
                yield dict(ndims=m, size=n, order=order, expect="identity")
            yield dict(ndims=m, size=n, order=None, expect="identity", npargs=True)  # numpy integer scalars
    # (round 4) order 6 with four index values and order 8: the closed-form entries are the oracle (calls: how many results)
    yield dict(ndims=6, size=4, order=None, expect="identity", calls=2)
    yield dict(ndims=8, size=2, order=None, expect="identity", calls=2, npargs=True)
    if tier == "thorough":
        yield dict(ndims=8, size=2, order=None, expect="identity")
        yield dict(ndims=8, size=3, order="C", expect="identity", calls=1)
        yield dict(ndims=2, size=6, order=None, expect="identity")
        yield dict(ndims=4, size=4, order=None, expect="identity")
    for m in (1, 3, 5, 7):
        for n in (1, 2, 3):
            yield dict(ndims=m, size=n, order=None, expect="raises")


def _identity_tensor_ref(m, n):
    """E[i1..im] = (1/m!) * #{permutations s : i_s(1)=i_s(2), i_s(3)=i_s(4), ...}  (Qi's identity tensor)"""
    E = np.zeros((n,) * m)
    perms = list(itertools.permutations(range(m)))
    for idx in itertools.product(range(n), repeat=m):
        c = 0
        for p in perms:
            if all(idx[p[2 * j]] == idx[p[2 * j + 1]] for j in range(m // 2)):
                c += 1
        E[idx] = c / math.factorial(m)
    return E


@cell("C20/teneye", enum=_enum_teneye, shards=(2, 8))
def teneye_cell(ctx, case):
    isolated(ctx, _teneye, case)


def _teneye(ctx, case):
    m, n = case["ndims"], case["size"]
    ctx.nt = case["expect"] == "identity" and m >= 4 and n >= 2
    ctx.label(f"ndims{m}", f"size{n}", case["expect"], "numpy-scalar-arguments" if case.get("npargs") else "int-arguments")
    kw = {} if case["order"] is None else dict(order=case["order"])
    margs = (np.int64(m), np.int32(n)) if case.get("npargs") else (m, n)
    if case["expect"] == "raises":
        # stated: "An identity tensor only exists if order is even" / ValueError("Order must be even ...")
        ctx.raises("teneye-odd-order-answered", ttb.teneye, m, n, **kw)
        return
    letters = "abcdefgh"[:m]
    xs = _XS.get(n) or [list(np.eye(n)[0]), list(np.ones(n) / np.sqrt(n)), list(np.arange(1, n + 1) / np.linalg.norm(np.arange(1, n + 1)))]
    E = _identity_tensor_ref(m, n) if (n ** m <= 4096 and m <= 6 and not case.get("calls")) else None
    E2 = _identity_tensor_closed_form(m, n) if n ** m <= 6561 else None  # (round 4) independent of the permutation count
    for tag in ("", "/second-call", "/third-call")[:case.get("calls", 3)]:
        with ctx.sut("teneye" + tag):
            T = ttb.teneye(*margs, **kw)
        _is_F_tensor(ctx, T, (n,) * m, "teneye" + tag)
        A = np.asarray(T.data, dtype=float)
        worst = 0.0
        for x in xs:
            x = np.array(x, dtype=float)
            x = x / np.sqrt(np.dot(x, x))
            got = np.einsum(letters + "," + ",".join(letters[1:]) + "->" + letters[0], A, *([x] * (m - 1))) if m > 1 else A
            worst = max(worst, float(np.max(np.abs(got - x))))
        ctx.check(worst <= 1e-12, "teneye-acts-as-identity-on-unit-vectors" + tag, worst)
        # symmetric in all modes
        sym = all(np.array_equal(A, np.transpose(A, p)) for p in itertools.permutations(range(m))) if m <= 6 else True
        ctx.check(sym, "teneye-symmetric" + tag)
        if E is not None:
            ctx.check(bool(np.all(np.abs(A - E) <= 4 * ref.EPS)), "teneye-entries" + tag, ref.diff_info(A, E))
        if E2 is not None:
            ctx.check(bool(np.all(np.abs(A - E2) <= 4 * ref.EPS)), "teneye-entries-closed-form" + tag, ref.diff_info(A, E2))
        # the tensor's own symmetric product agrees (ttsv with skip_dim=0 is what the docstring names)
        if m >= 2:
            x = np.array(xs[-1], dtype=float)
            x = x / np.sqrt(np.dot(x, x))
            with ctx.sut("teneye.ttsv" + tag):
                y = T.ttsv(x, 0)
            yv = np.asarray(y, dtype=float).reshape(-1)  # (ttsv hands back a bare scalar when size == 1: not teneye's business)
            ctx.check(yv.shape == (n,) and float(np.max(np.abs(yv - x))) <= 1e-12, "teneye-ttsv-skip0-returns-x" + tag, yv.tolist())
        # the caller edits the tensor it was given (single entries first, then everything) before asking again
        if tag == "":
            try:
                T[(0,) * m] = 5.0
                T[(n - 1,) * m] = 0.0
            except Exception:  # noqa: BLE001
                pass
        else:
            spoil_tensor(T)


# ==========================================================================
# sptenrand / sptensor.from_function
# ==========================================================================


def _requested(size, kind, value):
    """(count advertised for the request, admissible counts)"""
    if kind == "density":
        x = size * value
        lo, hi = math.floor(x), math.ceil(x)
        return {c for c in (lo, hi) if abs(c - x) < 1}
    if value < 1:
        return {int(math.ceil(size * value))}
    return {int(math.floor(value))}


@st.composite
def _sprand_case(draw, tier):
    shape, form = draw(_shape_and_form(tier, min_order=1, max_cells=48 if tier == "quick" else 200))
    size = ref.prod(shape)
    if size < 2:
        k = draw(st.integers(0, len(shape) - 1))
        shape[k] = draw(st.integers(2, 5))
        size = ref.prod(shape)
    kind = draw(st.sampled_from(["count", "count", "count-float", "fraction", "density"]))
    region = draw(st.sampled_from(["one", "low", "high", "max"]))
    if region == "one":
        c = 1
    elif region == "low":
        c = draw(st.integers(1, max(1, size // 2)))
    elif region == "high":
        c = draw(st.integers(max(1, size // 2), size - 1))
    else:
        c = size - 1
    if kind == "count":
        value = c
    elif kind == "count-float":
        value = c + draw(st.sampled_from([0.0, 0.25, 0.5, 0.99]))
        if value >= size:
            value = float(c)
    else:
        # a fraction of the size that asks for c entries (any value in ((c-1)/size, c/size])
        t = draw(st.sampled_from([1.0, 0.5, 0.999, 0.1]))
        value = (c - 1 + t) / size
        if value >= 1.0 or value <= 0.0:
            value = (c - 0.5) / size
    api = draw(st.sampled_from(["sptenrand", "from_function"])) if kind != "density" else "sptenrand"
    # numeric type of the count / density: python number or numpy scalar (sptenrand checks isinstance(.., (int, float)) on
    # its count, which np.float64 satisfies and np.int64 does not: the integer numpy scalar goes to from_function only)
    numtypes = ["python", "python", "np.float64"] + (["np.int64"] if api == "from_function" and float(value) == int(value) and value >= 1 else [])
    return dict(shape=shape, form=form, kind=kind, value=value, np_seed=draw(st.integers(0, 2 ** 31 - 1)), api=api,
                numtype=draw(st.sampled_from(numtypes)))


def _check_random_sparse(ctx, S, shape, want, what, requested_class, tag=""):
    requested_class = requested_class + tag
    ctx.require(isinstance(S, ttb.sptensor), f"{what}-returns-sptensor{tag}", type(S).__name__)
    ctx.check(tup(S.shape) == tuple(shape), f"{what}-shape{tag}", f"{S.shape} vs {shape}")
    probs = ref.sptensor_problems(S)
    ctx.require(not probs, f"{what}-wellformed{tag}", probs)
    n = int(S.nnz)
    if n not in want:
        if n < min(want):
            ctx.check(False, f"{what}-fewer-nonzeros-than-requested/{requested_class}", f"got {n}, requested {sorted(want)}")
        else:
            ctx.check(False, f"{what}-more-nonzeros-than-requested/{requested_class}", f"got {n}, requested {sorted(want)}")
    return n


@cell("C20/sparse/random", strategy=_sprand_case, quick=800, thorough=16000, shards=(2, 8))
def sparse_random(ctx, case):
    _sparse_random(ctx, case)


def _sparse_random(ctx, case):
    shape = tuple(case["shape"])
    size = ref.prod(shape)
    kind, value = case["kind"], case["value"]
    want = _requested(size, kind, value)
    req = max(want)
    nt_ = case.get("numtype", "python")
    ctx.label("api-" + case["api"], "kind-" + kind, "request-1" if req <= 1 else ("request-above-half" if 2 * req > size else "request-low"),
              *gen.shape_classes(shape), "form-" + case["form"], "number-" + nt_)
    ctx.nt = 2 * req > size and len(set(shape)) >= 2
    rclass = request_class(case)
    num = {"python": lambda v: v, "np.float64": np.float64, "np.int64": lambda v: np.int64(int(v))}[nt_]

    def unrelated():
        # another request in between (no reseeding): what it leaves behind must not matter after the next np.random.seed
        other = (3, 2) if shape != (3, 2) else (2, 4)
        try:
            spoil_sptensor(ttb.sptenrand(other, nonzeros=3))
        except Exception:  # noqa: BLE001
            pass

    if case["api"] == "sptenrand":
        kw = dict(density=num(float(value))) if kind == "density" else dict(nonzeros=num(value))
        first = None
        for tag in ("", "/second-call"):
            np.random.seed(case["np_seed"])
            with ctx.sut("sptenrand" + tag):
                S = ttb.sptenrand(_shape_arg(shape, case["form"]), **kw)
            _check_random_sparse(ctx, S, shape, want, "sptenrand", rclass, tag)
            v = np.asarray(S.vals, dtype=float).reshape(-1)
            ctx.check(bool(np.all((v >= 0) & (v < 1))), "sptenrand-values-in-unit-interval" + tag)
            if first is None:
                first = (np.array(S.subs, copy=True), np.array(S.vals, copy=True))
                spoil_sptensor(S)
                unrelated()
            else:
                ctx.check(np.array_equal(S.subs, first[0]) and np.array_equal(S.vals, first[1]), "sptenrand-reproducible-under-seed")
        # (round 3) two results alive at once: the second result is kept while a third one is made and edited
        np.random.seed(case["np_seed"])
        with ctx.sut("sptenrand/third-call"):
            S3 = ttb.sptenrand(_shape_arg(shape, case["form"]), **kw)
        if isinstance(S3, ttb.sptensor):
            spoil_sptensor(S3)
        ctx.check(np.array_equal(S.subs, first[0]) and np.array_equal(S.vals, first[1]), "sptenrand-earlier-result-changed-by-later-call")
    else:
        calls = []

        def fun(s):
            calls.append(s)
            return (np.arange(ref.prod(s), dtype=float) + 1.5).reshape(s)

        first = None
        for k, tag in ((1, ""), (2, "/second-call")):
            np.random.seed(case["np_seed"])
            with ctx.sut("sptensor.from_function" + tag):
                S = ttb.sptensor.from_function(fun, _shape_arg(shape, case["form"]), num(value))
            n = _check_random_sparse(ctx, S, shape, want, "from_function", rclass, tag)
            ctx.check(len(calls) == k and tup(calls[-1]) == (n, 1),
                      "from_function-one-value-per-nonzero-requested-from-function" + tag, calls)
            ctx.check(np.array_equal(np.asarray(S.vals, dtype=float).reshape(-1), np.arange(n, dtype=float) + 1.5),
                      "from_function-values-are-function-output" + tag)
            if first is None:
                first = (np.array(S.subs, copy=True), np.array(S.vals, copy=True))
                spoil_sptensor(S)
                unrelated()
            else:
                ctx.check(np.array_equal(S.subs, first[0]) and np.array_equal(S.vals, first[1]),
                          "from_function-reproducible-under-seed")
        np.random.seed(case["np_seed"])
        with ctx.sut("sptensor.from_function/third-call"):
            S3 = ttb.sptensor.from_function(fun, _shape_arg(shape, case["form"]), num(value))
        if isinstance(S3, ttb.sptensor):
            spoil_sptensor(S3)
        ctx.check(np.array_equal(S.subs, first[0]) and np.array_equal(S.vals, first[1]),
                  "from_function-earlier-result-changed-by-later-call")


def request_class(case):
    """class of a random-sparse request (pure function of the case): how many entries it asks for"""
    size = ref.prod(case["shape"])
    want = _requested(size, case["kind"], case["value"])
    req = max(want)
    if case["kind"] == "density" and size * case["value"] < 1:
        return "density-below-one-entry"
    return "one" if req <= 1 else "two-or-more"


# ==========================================================================
# round 3: shapes only a sparse tensor can have (products beyond 2**31, 2**53, 2**63; modes beyond 2**53)
# ==========================================================================

_HUGE_POOL = {
    ">2^31": [70000, 2 ** 16 + 1, 2 ** 20, 46341],
    ">2^53": [2 ** 20, 2 ** 27 + 3, 2 ** 31 - 1, 2 ** 31 + 5, 3_000_000],
    ">2^63": [3_000_000, 2 ** 31 + 5, 2 ** 40, 2 ** 22 + 1, 5_000_000, 2 ** 62],
    "mode>2^53": [2 ** 53 + 1, 2 ** 60, 2 ** 62, 2 ** 53 + 7],
}
_HUGE_THR = {">2^31": 2 ** 31, ">2^53": 2 ** 53, ">2^63": 2 ** 63, "mode>2^53": 2 ** 53}


@st.composite
def _huge_shape(draw):
    cls = draw(st.sampled_from([">2^31", ">2^53", ">2^63", ">2^63", ">2^63", "mode>2^53"]))
    shape = [draw(st.sampled_from(_HUGE_POOL[cls])) for _ in range(draw(st.integers(1, 3)))]
    while ref.prod(shape) <= _HUGE_THR[cls]:
        shape.append(draw(st.sampled_from(_HUGE_POOL[cls])))
    for _ in range(draw(st.integers(0, 2))):  # small and singleton modes in between
        shape.insert(draw(st.integers(0, len(shape))), draw(st.sampled_from([1, 2, 3, 5])))
    return shape


def _pos_in(dim):
    opts = [st.integers(0, dim - 1), st.just(dim - 1), st.integers(max(0, dim - 9), dim - 1), st.integers(0, min(dim - 1, 8))]
    if dim > 2 ** 53 + 64:
        opts += [st.integers(2 ** 53, 2 ** 53 + 64), st.integers(2 ** 53, dim - 1)]
    if dim > 2 ** 31 + 64:
        opts += [st.integers(2 ** 31 - 2, 2 ** 31 + 2)]
    return st.one_of(*opts)


@st.composite
def _huge_case(draw, tier):
    shape = draw(_huge_shape())
    api = draw(st.sampled_from(["sptenrand", "sptenrand-density", "from_function", "aggregator", "aggregator", "sptendiag"]))
    c = dict(shape=shape, api=api, np_seed=draw(st.integers(0, 2 ** 31 - 1)),
             sform=draw(st.sampled_from(["tuple", "list", "ndarray", "npint-list", "ndarray-uint64", "npuint64-tuple", "ndarray-readonly"])))
    if api in ("sptenrand", "from_function", "sptenrand-density"):
        k = draw(st.sampled_from([1, 2, 3, 7, 40, 500]))
        c["count"] = k
        c["value"] = (k - 0.5) / ref.prod(shape) if api == "sptenrand-density" else draw(st.sampled_from([k, float(k), k + 0.5]))
    elif api == "aggregator":
        nd = draw(st.integers(1, 6))
        picks = draw(st.lists(st.tuples(*[_pos_in(d) for d in shape]), min_size=nd, max_size=nd, unique=True))
        rows, vals = [], []
        for s_ in picks:
            mult = draw(st.sampled_from([1, 1, 2, 3]))
            vs = draw(st.lists(gen.values("int"), min_size=mult, max_size=mult))
            if mult >= 2 and draw(st.integers(0, 3)) == 0:
                vs = vs[:-1] + [-sum(vs[:-1])]
            for v in vs:
                rows.append(list(s_))
                vals.append(v)
        p_ = draw(st.permutations(range(len(rows))))
        c.update(subs=[rows[i] for i in p_], vals=[vals[i] for i in p_],
                 reducer=draw(st.sampled_from(["default", "sum", "np.sum", "max", "min", "np.max", "callable-count"])),
                 give_shape=draw(st.sampled_from(["given", "given", "inferred"])))
    else:
        k = draw(st.integers(1, 5))
        c["elements"] = draw(st.lists(gen.values(draw(st.sampled_from(["int", "float"]))), min_size=k, max_size=k))
        if draw(st.booleans()):  # some modes shorter than the element vector: they are enlarged
            j = draw(st.integers(0, len(shape) - 1))
            c["shape"] = shape[:j] + [draw(st.integers(1, 5))] + shape[j + 1:]
    return c


def _sp_dict(S):
    """stored entries of a sparse tensor as {subscript tuple of Python ints: value}; None when a subscript repeats"""
    if S.subs.size == 0:
        return {}
    out = {}
    for r, v in zip(np.asarray(S.subs).tolist(), np.asarray(S.vals, dtype=float).reshape(-1).tolist()):
        if tuple(r) in out:
            return None
        out[tuple(r)] = v
    return out


def _huge_wellformed(ctx, S, shape, what):
    ctx.require(isinstance(S, ttb.sptensor), f"{what}-returns-sptensor", type(S).__name__)
    ctx.check(tup(S.shape) == tuple(shape), f"{what}-shape", f"{S.shape} vs {shape}")
    ctx.require(isinstance(S.subs, np.ndarray) and isinstance(S.vals, np.ndarray), f"{what}-arrays")
    if S.subs.size:
        ctx.require(S.subs.ndim == 2 and S.subs.shape[1] == len(shape) and np.issubdtype(S.subs.dtype, np.integer)
                    and S.vals.shape == (S.subs.shape[0], 1), f"{what}-wellformed", (S.subs.shape, S.subs.dtype, S.vals.shape))
        rows = S.subs.tolist()  # Python integers: no dtype can hide a wrap-around
        ctx.check(all(0 <= x < d for r in rows for x, d in zip(r, shape)), f"{what}-subscripts-inside-shape",
                  [r for r in rows if not all(0 <= x < d for x, d in zip(r, shape))][:2])
        ctx.check(len({tuple(r) for r in rows}) == len(rows), f"{what}-subscripts-distinct")
        ctx.check(not bool(np.any(S.vals == 0)), f"{what}-no-stored-zero")
    return 0 if S.subs.size == 0 else S.subs.shape[0]


@cell("C20/sparse/huge-shapes", strategy=_huge_case, quick=100, thorough=2000, shards=(2, 8))
def sparse_huge(ctx, case):
    """the generators that never allocate the full array, asked for shapes whose number of entries exceeds 2**31,
    2**53 and 2**63 (linear positions that no int32 / float64 / int64 holds); every check on Python integers"""
    shape, api = tuple(case["shape"]), case["api"]
    size = ref.prod(shape)
    ctx.label("api-" + api, f"order{len(shape)}", "size>2^63" if size > 2 ** 63 - 1 else ("size>2^53" if size > 2 ** 53 else "size>2^31"),
              "mode>2^53" if max(shape) > 2 ** 53 else ("mode>2^31" if max(shape) > 2 ** 31 else "modes<=2^31"),
              "shape-" + case["sform"])
    ctx.nt = len(set(shape)) >= 2
    sarg = lambda: _shape_arg(shape, case["sform"])  # noqa: E731
    if api in ("sptenrand", "sptenrand-density", "from_function"):
        kind = "density" if api == "sptenrand-density" else "count"
        want = _requested(size, kind, case["value"])
        ctx.label(f"request-{case['count']}")
        first = None
        for tag in ("", "/second-call"):
            np.random.seed(case["np_seed"])
            if api == "from_function":
                with ctx.sut("sptensor.from_function/huge" + tag):
                    S = ttb.sptensor.from_function(lambda s_: (np.arange(ref.prod(s_), dtype=float) + 1.5).reshape(s_), sarg(),
                                                   case["value"])
            else:
                kw = dict(density=float(case["value"])) if kind == "density" else dict(nonzeros=case["value"])
                with ctx.sut(api + "/huge" + tag):
                    S = ttb.sptenrand(sarg(), **kw)
            n = _huge_wellformed(ctx, S, shape, api + "/huge" + tag)
            ctx.check(n in want, api + "-number-of-nonzeros/huge" + tag, f"got {n}, requested {sorted(want)}")
            v = np.asarray(S.vals, dtype=float).reshape(-1)
            if api == "from_function":
                ctx.check(np.array_equal(v, np.arange(n, dtype=float) + 1.5), "from_function-values-are-function-output/huge" + tag)
            else:
                ctx.check(bool(np.all((v >= 0) & (v < 1))), "sptenrand-values-in-unit-interval/huge" + tag)
            if first is None:
                first = (np.array(S.subs, copy=True), np.array(S.vals, copy=True))
                spoil_sptensor(S)
            else:
                ctx.check(np.array_equal(S.subs, first[0]) and np.array_equal(S.vals, first[1]), api + "-reproducible-under-seed/huge")
        return
    if api == "aggregator":
        rows, vals, red = case["subs"], case["vals"], case["reducer"]
        groups = {}
        for s_, v in zip(rows, vals):
            groups.setdefault(tuple(s_), []).append(v)
        expect = {s_: _reduce(red, g) for s_, g in groups.items()}
        expect = {s_: v for s_, v in expect.items() if v != 0}
        out_shape = shape if case["give_shape"] == "given" else tuple(max(r[k] for r in rows) + 1 for k in range(len(shape)))
        ctx.label("reducer-" + red, "shape-" + case["give_shape"], "has-repeat" if len(groups) < len(rows) else "all-distinct",
                  "some-group-reduces-to-zero" if len(expect) < len(groups) else "no-zero-group",
                  "subscript-not-a-float64" if any(int(float(x)) != x for r in rows for x in r) else "subscripts-are-float64")
        subs = np.array(rows, dtype=np.int64).reshape(len(rows), len(shape))
        v = np.array(vals, dtype=float).reshape(-1, 1)
        kw = {}
        if case["give_shape"] == "given":
            kw["shape"] = _shape_arg(out_shape, case["sform"])
        if red != "default":
            kw["function_handle"] = _reducer_arg(red)
        for tag in ("", "/second-call"):
            a_subs, a_vals = subs.copy(), v.copy()
            with ctx.sut("sptensor.from_aggregator/huge" + tag):
                S = ttb.sptensor.from_aggregator(a_subs, a_vals, **kw)
            _huge_wellformed(ctx, S, out_shape, "aggregator/huge" + tag)
            got = _sp_dict(S)
            ctx.check(got == expect, "aggregator-reduces-duplicates/huge" + tag, f"{got} vs {expect}")
            ctx.check(np.array_equal(a_subs, subs) and np.array_equal(a_vals, v), "aggregator-leaves-arguments/huge" + tag)
            spoil_sptensor(S)
        return
    el = case["elements"]
    k = len(el)
    out_shape = tuple(max(k, d) for d in shape)
    expect = {(i,) * len(shape): float(x) for i, x in enumerate(el) if x != 0}
    ctx.label("elements-longer-than-a-mode" if any(k > d for d in shape) else "elements-fit")
    for tag in ("", "/second-call"):
        with ctx.sut("sptendiag/huge" + tag):
            S = ttb.sptendiag(np.array(el, dtype=float), sarg())
        _huge_wellformed(ctx, S, out_shape, "sptendiag/huge" + tag)
        ctx.check(_sp_dict(S) == expect, "sptendiag-values-on-superdiagonal/huge" + tag, f"{_sp_dict(S)} vs {expect}")
        spoil_sptensor(S)


# ==========================================================================
# sptensor.from_aggregator
# ==========================================================================

# every reducer by name and as the matching NumPy callable, plus two plain Python callables
_REDUCERS = ["default", "sum", "np.sum", "max", "np.max", "min", "np.min", "mean", "np.mean", "prod", "np.prod",
             "callable-range", "callable-count"]


def _reduce(name, vals):
    if name in ("default", "sum", "np.sum"):
        return float(np.sum(np.array(vals, dtype=float)))
    if name in ("max", "np.max"):
        return float(max(vals))
    if name in ("min", "np.min"):
        return float(min(vals))
    if name in ("mean", "np.mean"):
        return float(np.sum(np.array(vals, dtype=float)) / len(vals))
    if name == "callable-range":
        return float(max(vals) - min(vals))
    if name == "callable-count":
        return float(len(vals))
    if name in ("prod", "np.prod"):
        return float(np.prod(np.array(vals, dtype=float)))
    raise ValueError(name)


def _reducer_arg(name):
    return {
        "sum": "sum", "max": "max", "min": "min", "prod": "prod", "mean": "mean", "np.mean": np.mean, "np.sum": np.sum,
        "np.max": np.max, "np.min": np.min, "np.prod": np.prod,
        "callable-range": lambda g: np.max(g) - np.min(g), "callable-count": lambda g: float(len(g)),
    }[name]


@st.composite
def _agg_case(draw, tier):
    shape = draw(gen.shapes(tier, min_order=1, max_cells=36 if tier == "quick" else 120))
    subsF = [list(s) for s in ref.all_subs_F(shape)]
    ndist = min(draw(st.sampled_from([0, 1, 2, 2, 3, 3, 4, 4, 5, 6])), len(subsF))
    picks = draw(st.lists(st.sampled_from(subsF), min_size=ndist, max_size=ndist, unique_by=tuple)) if ndist else []
    vkind = draw(st.sampled_from(["int", "int", "float"]))
    rows, vals = [], []
    for s in picks:
        mult = draw(st.sampled_from([1, 1, 2, 3, 4]))
        vs = draw(st.lists(gen.values(vkind), min_size=mult, max_size=mult))
        if mult >= 2 and draw(st.integers(0, 3)) == 0:
            # a group that sums to exactly zero (general floats: a value and its negative, the rest zeros)
            vs = vs[:-1] + [-sum(vs[:-1])] if vkind == "int" else [vs[0], -vs[0]] + [0.0] * (mult - 2)
        for v in vs:
            rows.append(list(s))
            vals.append(v)
    if len(rows) > 1:
        p = draw(st.permutations(range(len(rows))))
        rows, vals = [rows[i] for i in p], [vals[i] for i in p]
    # a subscript at the top of a narrow dtype's range: one mode is made long enough and one row is moved to its end
    top = draw(st.sampled_from([None, None, None, None, 255, 255, 256, 299]))
    if top is not None and rows:
        k = draw(st.integers(0, len(shape) - 1))
        shape = list(shape)
        shape[k] = top + 1
        moved = rows[draw(st.integers(0, len(rows) - 1))]
        for r in rows:  # every copy of that subscript moves (it stays one group)
            if r is not moved and r == moved:
                r[k] = top
        moved[k] = top
    hi = max([max(r) for r in rows], default=0)
    sdt = draw(st.sampled_from(["int64", "int64", "int32"] + (["uint8"] if hi <= 255 else []) + ["uint16"] +
                               ["uint32", "uint64", "int16"] + (["int8"] if hi <= 127 else [])))  # (round 4)
    # (round 3) 1e-9 .. 1e-300: values and reduced values below every absolute tolerance are still not zero
    scale = draw(st.sampled_from([1.0, 1.0, 1.0, 1e-6, 1e6, 1e-9, 1e-12, 1e-300])) if vkind == "float" else 1.0
    reducer = draw(st.sampled_from(_REDUCERS))
    if scale == 1e-300 and reducer in ("prod", "np.prod"):
        scale = 1e-12  # (a product of such values underflows whichever way it is associated)
    return dict(shape=shape, subs=rows, vals=[v * scale for v in vals], vkind=vkind, scale=scale,
                give_shape=draw(st.sampled_from(["given", "given", "inferred", "larger"])) if rows else "given",
                sform=draw(st.sampled_from(_SHAPE_FORMS)) if max(shape) <= 255 else draw(st.sampled_from(["tuple", "list", "ndarray", "ndarray-int32", "ndarray-uint16", "ndarray-uint64", "npuint64-tuple", "npint16-list", "ndarray-readonly", "ndarray-strided"])),
                reducer=reducer, subs_dtype=sdt,
                subs_layout=draw(st.sampled_from(["C", "C", "F", "strided"])),
                vals_dtype=draw(st.sampled_from(["float", "float", "int", "int32", "uint8", "float32", "int16"])) if vkind == "int" else "float")


def agg_classes(case):
    """pure function of the case (labels, clause tags, predicates): does shape inference need a size the subscript
    dtype cannot hold?"""
    rows = case["subs"]
    sdt = np.dtype(case.get("subs_dtype", "int64"))
    hi = max([max(r) for r in rows], default=0)
    return dict(inferred_size_overflows_subs_dtype=bool(rows) and case["give_shape"] == "inferred" and hi + 1 > np.iinfo(sdt).max)


@cell("C20/aggregator", strategy=_agg_case, quick=1000, thorough=20000, shards=(2, 8))
def aggregator(ctx, case):
    _aggregator(ctx, case)


def _aggregator(ctx, case):
    """duplicates combined by the reducer (dictionary aggregation), zero results dropped, shape given or inferred"""
    shape = list(case["shape"])
    N = len(shape)
    rows, vals = case["subs"], case["vals"]
    red = case["reducer"]
    vdt = case["vals_dtype"]
    if vdt == "uint8":  # values an unsigned byte can hold (sums of a few of them are compared by value)
        vals = [float(abs(v)) for v in vals]
    groups = {}
    for s, v in zip(rows, vals):
        groups.setdefault(tuple(s), []).append(v)
    mults = sorted(len(g) for g in groups.values())
    if case["give_shape"] == "inferred":
        out_shape = tuple(max(s[k] for s in rows) + 1 for k in range(N))
    elif case["give_shape"] == "larger":
        out_shape = tuple(d + 1 + (k % 2) for k, d in enumerate(shape))
    else:
        out_shape = tuple(shape)
    E = np.zeros(out_shape)
    B = np.zeros(out_shape)
    for s, g in groups.items():
        E[s] = _reduce(red, g)
        B[s] = float(np.sum(np.abs(g))) if red not in ("prod", "np.prod") else abs(E[s])
    ac = agg_classes(case)
    ctx.label("reducer-" + red, "shape-" + case["give_shape"], "empty" if not rows else
              ("has-repeat" if mults and mults[-1] > 1 else "all-distinct"),
              "single-row" if len(rows) == 1 else "rows", "vals-" + vdt, "subs-" + case.get("subs_dtype", "int64"),
              "some-group-reduces-to-zero" if any(E[s] == 0 for s in groups) else "no-zero-group",
              f"scale-{case.get('scale', 1.0):g}", "top-of-dtype-subscript" if max(out_shape) > 250 else "small-subscripts",
              "inferred-size-overflows-subs-dtype" if ac["inferred_size_overflows_subs_dtype"] else "sizes-fit-subs-dtype")
    unsorted_in = rows != sorted(rows, key=lambda r: tuple(reversed(r)))
    ctx.nt = bool(mults and mults[-1] > 1 and unsorted_in and len(set(out_shape)) >= 1 and len(groups) >= 2)
    subs = np.array(rows, dtype=int).reshape(len(rows), N).astype(np.dtype(case.get("subs_dtype", "int64")))
    v = np.array(vals, dtype=float).reshape(len(rows), 1)
    if vdt != "float":
        v = v.astype(dict(int=np.int64, int32=np.int32, uint8=np.uint8, float32=np.float32, int16=np.int16)[vdt])
    kw = {}
    if case["give_shape"] != "inferred":
        kw["shape"] = _shape_arg(out_shape, case["sform"])
    if red != "default":
        kw["function_handle"] = _reducer_arg(red)
    # uint8 values: sums are formed in the reducer's accumulator; a value that does not fit the byte is numpy's concern,
    # so groups are compared only when every exact result fits
    if vdt == "uint8" and any(abs(E[s]) > 255 for s in groups):
        ctx.skip("uint8-result-does-not-fit")
    otag = "/inferred-size-overflows-subs-dtype" if ac["inferred_size_overflows_subs_dtype"] else ""
    lay = case.get("subs_layout", "C")
    ctx.label("subs-layout-" + lay)
    for tag in ("", "/second-call"):
        a_subs, a_vals = subs.copy(), v.copy()
        if lay == "F":  # e.g. the transposed array tt_ind2sub hands back
            a_subs = np.asfortranarray(a_subs)
        elif lay == "strided" and len(rows):
            big = np.zeros((2 * len(rows), N), dtype=subs.dtype)
            big[::2] = subs
            a_subs = big[::2]
        with ctx.sut("sptensor.from_aggregator" + otag + tag):
            S = ttb.sptensor.from_aggregator(a_subs, a_vals, **kw)
        ctx.require(isinstance(S, ttb.sptensor), "aggregator-returns-sptensor" + tag, type(S).__name__)
        ctx.check(tup(S.shape) == out_shape, "aggregator-shape" + otag + tag, f"{S.shape} vs {out_shape}")
        probs = ref.sptensor_problems(S)
        ctx.require(not probs, "aggregator-wellformed-zeros-dropped" + tag, probs)
        got = ref.den(S) if tup(S.shape) == out_shape else None
        if got is not None:
            if case["vkind"] == "int" and red not in ("np.mean", "mean"):
                ok = ref.same_exact(got, E)
            elif vdt == "float32":  # (round 4) a mean formed in single precision: single-precision bound
                ok = bool(np.all(np.abs(np.asarray(got, dtype=float) - E) <= 8 * 2.0 ** -24 * B))
            else:
                nterms = max(mults) if mults else 1
                ok = ref.same_bound(got, E, B, nterms)
            ctx.check(ok, "aggregator-reduces-duplicates" + tag, ref.diff_info(got, E))
            # (round 3) only exact zeros are dropped: a group whose result cannot be zero in any order of evaluation
            # (one value, or all values of one sign; not the difference-type reducers) is stored however small it is
            sure = [s_ for s_, g in groups.items() if red not in ("callable-range",) and all(x != 0 for x in g) and
                    (len(g) == 1 or all(x > 0 for x in g) or all(x < 0 for x in g)) and E[s_] != 0]
            missing = [s_ for s_ in sure if got[s_] == 0]
            ctx.check(not missing, "aggregator-drops-only-exact-zeros" + tag, f"missing {missing[:3]} expected {[E[m] for m in missing[:3]]}")
        ctx.check(np.array_equal(a_subs, subs) and a_subs.dtype == subs.dtype and np.array_equal(a_vals, v),
                  "aggregator-leaves-arguments" + tag)
        if tag == "":
            spoil_sptensor(S)


# ==========================================================================
# ktensor.from_function
# ==========================================================================


@st.composite
def _kfun_case(draw, tier):
    shape, form = draw(_shape_and_form(tier, min_order=1))
    r = draw(st.integers(1, 4))
    factors = [draw(st.lists(st.lists(gen.values("int"), min_size=r, max_size=r), min_size=n, max_size=n)) for n in shape]
    return dict(shape=shape, form=form, rank=r, factors=factors, output=draw(st.sampled_from(["C", "F", "strided"])))


@cell("C20/ktensor/from_function", strategy=_kfun_case, quick=500, thorough=10000, shards=(1, 8))
def ktensor_from_function(ctx, case):
    _ktensor_from_function(ctx, case)


def _ktensor_from_function(ctx, case):
    """unit weights; factor i is what the function returned for (shape[i], rank), asked mode by mode"""
    shape, r = tuple(case["shape"]), case["rank"]
    fms = [np.array(f, dtype=float).reshape(n, r) for f, n in zip(case["factors"], shape)]
    ctx.label(*gen.shape_classes(shape), f"rank{r}", "output-" + case["output"], "form-" + case["form"])
    ctx.nt = len(set(shape)) >= 2 and r >= 2
    calls = []

    def fun(s):
        i = len(calls)
        calls.append(s)
        A = fms[i] if i < len(fms) and tup(s) == fms[i].shape else np.full(s, np.nan)
        A = A.copy()
        if case["output"] == "F":
            return np.asfortranarray(A.copy())
        if case["output"] == "C":
            return np.ascontiguousarray(A.copy())
        big = np.zeros((2 * A.shape[0], 2 * A.shape[1]))
        big[::2, ::2] = A
        return big[::2, ::2]

    A = ref.den_kruskal(np.ones(r), fms)
    for tag in ("", "/second-call"):
        del calls[:]
        with ctx.sut("ktensor.from_function" + tag):
            K = ttb.ktensor.from_function(fun, _shape_arg(shape, case["form"]), r)
        ctx.require(isinstance(K, ttb.ktensor), "kfrom_function-returns-ktensor" + tag, type(K).__name__)
        ctx.check([tup(c) for c in calls] == [(n, r) for n in shape], "kfrom_function-asks-one-matrix-per-mode" + tag, calls)
        ctx.check(tup(K.shape) == shape, "kfrom_function-shape" + tag, K.shape)
        w = np.asarray(K.weights)
        ctx.check(w.shape == (r,) and bool(np.all(w == 1.0)), "kfrom_function-unit-weights" + tag, w.tolist())
        ctx.require(len(K.factor_matrices) == len(shape), "kfrom_function-number-of-factors" + tag)
        ctx.check(all(ref.same_exact(g, f) for g, f in zip(K.factor_matrices, fms)),
                  "kfrom_function-factors-are-function-output" + tag)
        ctx.check(ref.same_exact(ref.den(K), A), "kfrom_function-denotes-sum-of-outer-products" + tag)
        if tag == "":
            # the caller rescales the model it was given in place (absorbs new weights into the first factor)
            try:
                K.weights[...] = 2.0
                K.redistribute(0)
                K.normalize()
            except Exception:  # noqa: BLE001
                pass
    ctx.check(all(ref.same_exact(f, np.array(f0, dtype=float).reshape(n, r)) for f, f0, n in zip(fms, case["factors"], shape)),
              "kfrom_function-leaves-function-output")


# ==========================================================================
# round 4: how the caller presents a valid request (class 11), reporting environment (13), rejected requests (12, 14),
# orders 5..8
# ==========================================================================


@contextlib.contextmanager
def _loglevel(name):
    """root logger at the given level with a NullHandler (core.evaluate disables logging: re-enabled and restored here)"""
    if name in (None, "ERROR"):
        yield
        return
    root = logging.getLogger()
    old, old_disable = root.level, root.manager.disable
    h = logging.NullHandler()
    kept = list(root.handlers)  # (a stream handler configured elsewhere would print every record: only the NullHandler listens)
    root.handlers[:] = [h]
    root.setLevel(getattr(logging, name))
    logging.disable(logging.NOTSET)
    try:
        yield
    finally:
        logging.disable(old_disable)
        root.setLevel(old)
        root.handlers[:] = kept


def _env():
    """process-wide settings a generator has no business changing"""
    root = logging.getLogger()
    return dict(errstate=dict(np.geterr()), loglevel=root.level, log_disabled=root.manager.disable,
                printoptions=repr(sorted(np.get_printoptions().items(), key=str)))


_NUM = {"python": lambda v: v, "np.float64": np.float64, "np.float32": np.float32, "np.int64": lambda v: np.int64(int(v)),
        "np.int32": lambda v: np.int32(int(v)), "np.uint8": lambda v: np.uint8(int(v)), "np.int16": lambda v: np.int16(int(v)),
        "np.uint64": lambda v: np.uint64(int(v))}


def _dfact(k):
    r = 1
    while k > 1:
        r *= k
        k -= 2
    return r


def _identity_tensor_closed_form(m, n):
    """E[idx] = prod_v (c_v - 1)!! / (m - 1)!!  when every index value v occurs an even number c_v of times, else 0
    (the number of perfect matchings of the positions into equal pairs over the number of all perfect matchings)"""
    E = np.zeros((n,) * m)
    for idx in itertools.product(range(n), repeat=m):
        num = 1
        for v in set(idx):
            c = idx.count(v)
            if c % 2:
                num = 0
                break
            num *= _dfact(c - 1)
        E[idx] = num / _dfact(m - 1)
    return E


def _same_dense(a, b):
    return (isinstance(a, ttb.tensor) and isinstance(b, ttb.tensor) and tup(a.shape) == tup(b.shape) and a.data.dtype == b.data.dtype
            and a.data.shape == b.data.shape and ref.same_exact(a.data, b.data)
            and a.data.flags["F_CONTIGUOUS"] == b.data.flags["F_CONTIGUOUS"])


def _same_sparse(a, b, dtype=True):
    if not (isinstance(a, ttb.sptensor) and isinstance(b, ttb.sptensor) and tup(a.shape) == tup(b.shape)):
        return False
    if a.subs.size == 0 or b.subs.size == 0:
        return a.subs.size == b.subs.size and a.vals.size == b.vals.size
    return (a.subs.shape == b.subs.shape and np.array_equal(a.subs, b.subs) and a.vals.shape == b.vals.shape
            and (a.vals.dtype == b.vals.dtype or not dtype) and np.array_equal(a.vals, b.vals))


_P_APIS = ["tenones", "tenzeros", "tenrand", "tensor.from_function", "tendiag", "sptendiag", "teneye", "sptenrand-count",
           "sptenrand-density", "sptensor.from_function", "aggregator", "aggregator", "ktensor.from_function"]
_INTTYPES = ["python", "np.int64", "np.int32", "np.uint8", "np.int16", "np.uint64"]
_ELFORMS = ["list", "tuple", "ndarray", "col", "row", "readonly", "strided", "ndarray-float32", "ndarray-int64", "ndarray-int32",
            "ndarray-uint8", "ndarray-int8", "ndarray-bool", "list-int", "list-npfloat32"]
# name, the numpy callable, the builtin: the same reducer
_RED_PRESENT = {"sum": [None, "sum", np.sum, sum, np.add.reduce, "nansum"], "max": ["max", np.max, max, np.amax, "amax"],
                "min": ["min", np.min, min, np.amin, "amin"], "prod": ["prod", np.prod, "nanprod"], "mean": ["mean", np.mean],
                "count": ["len", len, lambda g: len(g)]}


def _el_present(el, form):
    a = np.array(el, dtype=float)
    if form in ("list", "tuple", "ndarray", "col", "list-int") or form.startswith("ndarray-"):
        return _el_arg(el, form)
    if form == "row":
        return a.reshape(1, -1)
    if form == "readonly":
        a.setflags(write=False)
        return a
    if form == "strided":
        big = np.zeros(2 * len(el))
        big[::2] = a
        return big[::2]
    if form == "list-npfloat32":
        return [np.float32(v) for v in el]
    if form.startswith("scalar"):
        return {"scalar": float, "scalar-int": int, "scalar-np.int64": np.int64, "scalar-np.float32": np.float32,
                "scalar-0d": np.array}[form](el[0])
    raise ValueError(form)


@st.composite
def _pres_case(draw, tier):
    api = draw(st.sampled_from(_P_APIS))
    c = dict(api=api, np_seed=draw(st.integers(0, 2 ** 31 - 1)), loglevel=draw(st.sampled_from(["ERROR", "DEBUG", "DEBUG", "INFO"])),
             style=draw(st.sampled_from(["positional", "keyword", "mixed"])), order=draw(st.sampled_from(["F", "C", None])))
    if api == "teneye":
        m = draw(st.sampled_from([2, 2, 4, 4, 6]))
        c.update(ndims=m, size=draw(st.integers(1, 4 if m <= 4 else 2)), ntype=draw(st.sampled_from(_INTTYPES)),
                 stype=draw(st.sampled_from(_INTTYPES)))
        return c
    shape, form = draw(_shape_and_form(tier, min_order=1, max_cells=48))
    c.update(shape=shape, form=form)
    size = ref.prod(shape)
    if api in ("tendiag", "sptendiag"):
        k = draw(st.integers(1, 5))
        c.update(elements=draw(st.lists(st.integers(0, 6).map(float), min_size=k, max_size=k)), elform=draw(st.sampled_from(_ELFORMS)),
                 give_shape=draw(st.sampled_from(["given", "given", "default" if k <= 4 else "given"])))
        if k == 1 and draw(st.booleans()):  # a single element handed over as a scalar
            c["elform"] = draw(st.sampled_from(["scalar", "scalar-int", "scalar-np.int64", "scalar-np.float32", "scalar-0d"]))
        if c["elform"] == "ndarray-bool":
            c["elements"] = [float(v != 0) for v in c["elements"]]
    elif api in ("sptenrand-count", "sptenrand-density", "sptensor.from_function"):
        if size < 2:
            shape[0] = draw(st.integers(2, 5))
            size = ref.prod(shape)
        k = draw(st.integers(1, size - 1))
        if api == "sptenrand-density":
            c.update(kind="density", value=(k - 0.5) / size, numtype=draw(st.sampled_from(["python", "np.float64", "np.float32"])))
        else:
            c["fun_dtype"] = draw(st.sampled_from(["float64", "float32", "int64", "readonly"]))
            kind = draw(st.sampled_from(["count", "count", "count-float", "fraction"])) if api == "sptensor.from_function" else \
                draw(st.sampled_from(["count", "count", "count-float"]))
            value = k if kind == "count" else (k + 0.5 if kind == "count-float" and k + 0.5 < size else
                                               (float(k) if kind == "count-float" else (k - 0.5) / size))
            nts = {"count": ["python", "np.int64", "np.int32", "np.uint8", "np.int16", "np.uint64", "np.float64", "np.float32"],
                   "count-float": ["python", "np.float64", "np.float32"], "fraction": ["python", "np.float64", "np.float32"]}[kind]
            c.update(kind=kind, value=value, numtype=draw(st.sampled_from(nts)))
    elif api == "aggregator":
        subsF = [list(s_) for s_ in ref.all_subs_F(shape)]
        nd = min(draw(st.integers(1, 5)), len(subsF))
        picks = draw(st.lists(st.sampled_from(subsF), min_size=nd, max_size=nd, unique_by=tuple))
        rows, vals = [], []
        for s_ in picks:
            mult = draw(st.sampled_from([1, 1, 2, 3]))
            vs = draw(st.lists(st.integers(-6, 6).map(float), min_size=mult, max_size=mult))
            if mult >= 2 and draw(st.integers(0, 3)) == 0:
                vs = vs[:-1] + [-sum(vs[:-1])]
            rows += [list(s_)] * mult
            vals += vs
        p_ = draw(st.permutations(range(len(rows))))
        vdt = draw(st.sampled_from(["float64", "float32", "int64", "int32", "int16", "bool"]))
        # (boolean values: numpy_groupies refuses max / min of booleans; a boolean sum holds at most one True)
        red = draw(st.sampled_from(sorted(_RED_PRESENT) if vdt != "bool" else ["count", "mean", "prod", "prod", "sum"]))
        c.update(subs=[rows[i] for i in p_], vals=[vals[i] for i in p_], reducer=red,
                 red_form=draw(st.integers(0, len(_RED_PRESENT[red]) - 1)), vals_dtype=vdt,
                 subs_dtype=draw(st.sampled_from(["int64", "int32", "uint8", "int8", "uint16", "int16", "uint32", "uint64"])),
                 subs_flags=draw(st.sampled_from(["plain", "readonly", "F", "strided"])),
                 vals_flags=draw(st.sampled_from(["plain", "readonly", "strided"])),
                 give_shape=draw(st.sampled_from(["given", "inferred", "inferred-None"])))
    elif api == "ktensor.from_function":
        c["rank"] = draw(st.integers(1, 3))
    return c


@cell("C20/presentations", strategy=_pres_case, quick=250, thorough=2500, shards=(2, 8))
def presentations(ctx, case):
    """the same request in two presentations gives the same answer: the canonical call (tuple of Python ints, float64
    arrays, Python numbers, options by keyword, quiet logger) against the drawn presentation (shape form, numpy scalars,
    dtypes, read-only / strided arrays, reducer as name / NumPy callable / builtin, arguments positionally / all by
    keyword, root logger at DEBUG), under the same seed; the canonical answer is judged by the property's clauses"""
    api, style = case["api"], case["style"]
    ctx.label("api-" + api, "style-" + style, "log-" + case["loglevel"])
    env0 = _env()
    okw = {} if case["order"] is None else dict(order=case["order"])

    def both(canon, alt, what):
        np.random.seed(case["np_seed"])
        with ctx.sut(what + "/canonical"):
            A = canon()
        np.random.seed(case["np_seed"])
        with _loglevel(case["loglevel"]):
            with ctx.sut(what + "/presented"):
                B = alt()
        return A, B

    if api == "teneye":
        m, n = case["ndims"], case["size"]
        ctx.label(f"ndims{m}", "ndims-" + case["ntype"], "size-" + case["stype"])
        ctx.nt = n >= 2
        pm, pn = _NUM[case["ntype"]](m), _NUM[case["stype"]](n)
        A, B = both(lambda: ttb.teneye(m, n, **okw),
                    lambda: ttb.teneye(ndims=pm, size=pn, **okw) if style == "keyword" else
                    (ttb.teneye(pm, pn, case["order"] or "F") if style == "positional" else ttb.teneye(pm, pn, **okw)), "teneye")
        _is_F_tensor(ctx, A, (n,) * m, "teneye")
        ctx.check(bool(np.all(np.abs(A.data - _identity_tensor_closed_form(m, n)) <= 4 * ref.EPS)), "teneye-entries")
        ctx.check(_same_dense(A, B), "teneye-same-request-presented-differently")
    elif api in ("tenones", "tenzeros", "tenrand", "tensor.from_function"):
        shape = tuple(case["shape"])
        ctx.label(*gen.shape_classes(shape), "form-" + case["form"])
        ctx.nt = len(set(shape)) >= 2
        sarg = lambda: _shape_arg(shape, case["form"])  # noqa: E731
        if api == "tensor.from_function":
            fun = lambda s_: np.arange(ref.prod(s_), dtype=float) - 2.0  # noqa: E731  (flat: first index fastest)
            A, B = both(lambda: ttb.tensor.from_function(fun, shape),
                        lambda: ttb.tensor.from_function(function_handle=fun, shape=sarg()) if style == "keyword"
                        else ttb.tensor.from_function(fun, sarg()), api)
            _is_F_tensor(ctx, A, shape, "from_function")
            ctx.check(ref.same_exact(A.data, (np.arange(ref.prod(shape), dtype=float) - 2.0).reshape(shape, order="F")),
                      "from_function-entries-are-function-output")
        else:
            f = getattr(ttb, api)
            A, B = both(lambda: f(shape, **okw),
                        lambda: f(shape=sarg(), **okw) if style == "keyword" else
                        (f(sarg(), case["order"] or "F") if style == "positional" else f(sarg(), **okw)), api)
            _is_F_tensor(ctx, A, shape, api)
            if api != "tenrand":
                ctx.check(bool(np.all(A.data == (1.0 if api == "tenones" else 0.0))), api + "-entries")
            else:
                ctx.check(bool(np.all((A.data >= 0) & (A.data < 1))), "tenrand-in-unit-interval")
        ctx.check(_same_dense(A, B), api + "-same-request-presented-differently",
                  (tup(getattr(B, "shape", ())), str(getattr(getattr(B, "data", None), "dtype", None))))
    elif api in ("tendiag", "sptendiag"):
        el = case["elements"]
        shape = tuple(case["shape"]) if case["give_shape"] == "given" else None
        E = _diag_expect(el, shape)
        ctx.label("elements-" + case["elform"], "shape-" + case["give_shape"], "form-" + case["form"], f"order{E.ndim}")
        ctx.nt = shape is not None and len(set(shape)) >= 2 and len(el) >= 2
        f = getattr(ttb, api)
        earg = lambda: _el_present(el, case["elform"])  # noqa: E731
        kw = dict(okw) if api == "tendiag" else {}
        if shape is None:
            canon = lambda: f(np.array(el, dtype=float), **kw)  # noqa: E731
            alt = (lambda: f(elements=earg(), **kw)) if style == "keyword" else (lambda: f(earg(), **kw))
        else:
            canon = lambda: f(np.array(el, dtype=float), shape, **kw)  # noqa: E731
            sarg = lambda: _shape_arg(shape, case["form"])  # noqa: E731
            if style == "keyword":
                alt = lambda: f(elements=earg(), shape=sarg(), **kw)  # noqa: E731
            elif style == "positional" and api == "tendiag":
                alt = lambda: f(earg(), sarg(), case["order"] or "F")  # noqa: E731
            else:
                alt = lambda: f(earg(), sarg(), **kw)  # noqa: E731
        held = earg()
        A, B = both(canon, alt, api)
        if api == "tendiag":
            _is_F_tensor(ctx, A, E.shape, "tendiag")
            ctx.check(ref.same_exact(A.data, E), "tendiag-values-on-superdiagonal-zero-elsewhere")
            ctx.require(isinstance(B, ttb.tensor), "tendiag-returns-tensor/presented")
            ctx.check(tup(B.shape) == E.shape and ref.same_exact(B.data, E) and B.data.flags["F_CONTIGUOUS"],
                      "tendiag-same-request-presented-differently", (B.shape, ref.diff_info(B.data, E) if B.data.shape == E.shape else None))
        else:
            ctx.require(isinstance(A, ttb.sptensor) and isinstance(B, ttb.sptensor), "sptendiag-returns-sptensor")
            for T_, tag in ((A, ""), (B, "/presented")):
                probs = ref.sptensor_problems(T_)
                ctx.require(not probs, "sptendiag-wellformed" + tag, probs)
            ctx.check(tup(A.shape) == E.shape and ref.same_exact(ref.den(A), E), "sptendiag-values-on-superdiagonal-zero-elsewhere")
            ctx.check(_same_sparse(A, B, dtype=False), "sptendiag-same-request-presented-differently", (B.shape, B.subs.tolist()[:4]))
        ctx.check(_same_args([held], [earg()]), api + "-leaves-elements")
    elif api in ("sptenrand-count", "sptenrand-density", "sptensor.from_function"):
        shape = tuple(case["shape"])
        size = ref.prod(shape)
        kind, nt_ = case["kind"], case["numtype"]
        num = _NUM[nt_](case["value"])
        want = _requested(size, kind, float(num))
        ctx.label(*gen.shape_classes(shape), "form-" + case["form"], "kind-" + kind, "number-" + nt_)
        ctx.nt = len(set(shape)) >= 2 and max(want) >= 2
        ntag = "/" + _sptenrand_number_class(case)
        sarg = lambda: _shape_arg(shape, case["form"])  # noqa: E731
        if api == "sptensor.from_function":
            fun = lambda s_: (np.arange(ref.prod(s_), dtype=float) + 2.0).reshape(s_)  # noqa: E731
            fdt = case.get("fun_dtype", "float64")
            ctx.label("function-returns-" + fdt)

            def fun2(s_):  # the same values as the function hands them over: single precision, integers, a read-only array
                a = fun(s_).astype(np.dtype(fdt)) if fdt != "readonly" else fun(s_)
                if fdt == "readonly":
                    a.setflags(write=False)
                return a

            A, B = both(lambda: ttb.sptensor.from_function(fun, shape, float(num) if kind != "count" else int(num)),
                        lambda: ttb.sptensor.from_function(function_handle=fun2, shape=sarg(), nonzeros=num) if style == "keyword"
                        else ttb.sptensor.from_function(fun2, sarg(), num), "sptensor.from_function")
            what = "from_function"
            if isinstance(A, ttb.sptensor):
                ctx.check(np.array_equal(np.asarray(A.vals, dtype=float).reshape(-1), np.arange(A.nnz, dtype=float) + 2.0),
                          "from_function-values-are-function-output")
        elif kind == "density":
            A, B = both(lambda: ttb.sptenrand(shape, density=float(num)),
                        lambda: ttb.sptenrand(shape=sarg(), density=num) if style == "keyword" else
                        (ttb.sptenrand(sarg(), num) if style == "positional" else ttb.sptenrand(sarg(), density=num)),
                        "sptenrand" + ntag)
            what = "sptenrand"
        else:
            A, B = both(lambda: ttb.sptenrand(shape, nonzeros=float(num) if kind != "count" else int(num)),
                        lambda: ttb.sptenrand(shape=sarg(), nonzeros=num) if style == "keyword" else
                        (ttb.sptenrand(sarg(), None, num) if style == "positional" else ttb.sptenrand(sarg(), nonzeros=num)),
                        "sptenrand" + ntag)
            what = "sptenrand"
        _check_random_sparse(ctx, A, shape, want, what, request_class(dict(shape=shape, kind=kind, value=float(num))))
        ctx.check(_same_sparse(A, B, dtype=api != "sptensor.from_function" or case.get("fun_dtype", "float64") in ("float64", "readonly")),
                  what + "-same-request-presented-differently", (tup(getattr(B, "shape", ())), getattr(B, "nnz", None)))
    elif api == "aggregator":
        shape = tuple(case["shape"])
        N = len(shape)
        rows, vals, red = case["subs"], list(case["vals"]), case["reducer"]
        vdt = case["vals_dtype"]
        if vdt == "bool":
            vals = [float(v != 0) for v in vals]
        groups = {}
        for s_, v in zip(rows, vals):
            groups.setdefault(tuple(s_), []).append(v)
        expect = {s_: (_reduce(red, g) if red != "count" else float(len(g))) for s_, g in groups.items()}
        expect = {s_: v for s_, v in expect.items() if v != 0}
        given = case["give_shape"] == "given"
        out_shape = shape if given else tuple(max(r[k] for r in rows) + 1 for k in range(N))
        rf = _RED_PRESENT[red][case["red_form"]]
        ctx.label(*gen.shape_classes(shape), "reducer-" + red, "reducer-as-" + (rf if isinstance(rf, str) else ("default" if rf is None else
                  ("builtin" if rf in (sum, max, min, len) else "callable"))), "vals-" + vdt, "subs-" + case["subs_dtype"],
                  "subs-" + case["subs_flags"], "vals-" + case["vals_flags"], "shape-" + case["give_shape"], "form-" + case["form"],
                  "has-repeat" if len(groups) < len(rows) else "all-distinct",
                  "some-group-reduces-to-zero" if len(expect) < len(groups) else "no-zero-group")
        ctx.nt = len(groups) < len(rows) and len(groups) >= 2
        # what the presented dtype can hold exactly (narrow accumulators are NumPy's arithmetic, means are formed in the dtype)
        if vdt == "bool" and (red in ("max", "min") or (red == "sum" and any(sum(g) > 1 for g in groups.values()))):
            ctx.skip("boolean-values-with-a-reducer-whose-result-is-not-boolean")
        exact_alt = not (red == "mean" and vdt == "float32")
        subs0 = np.array(rows, dtype=np.int64).reshape(len(rows), N)
        v0 = np.array(vals, dtype=float).reshape(-1, 1)

        def present():
            s_ = subs0.astype(np.dtype(case["subs_dtype"]))
            if case["subs_flags"] == "F":
                s_ = np.asfortranarray(s_)
            elif case["subs_flags"] == "strided":
                big = np.zeros((2 * len(rows), N), dtype=s_.dtype)
                big[::2] = s_
                s_ = big[::2]
            elif case["subs_flags"] == "readonly":
                s_.setflags(write=False)
            v_ = v0.astype(np.dtype(vdt))
            if case["vals_flags"] == "strided":
                big = np.zeros((len(rows), 3), dtype=v_.dtype)
                big[:, 1:2] = v_
                v_ = big[:, 1:2]
            elif case["vals_flags"] == "readonly":
                v_.setflags(write=False)
            return s_, v_

        cred = {"sum": "sum", "max": "max", "min": "min", "prod": "prod", "mean": "mean", "count": (lambda g: float(len(g)))}[red]
        a_s, a_v = present()

        def alt():
            kw = {} if rf is None else dict(function_handle=rf)
            if given:
                kw = dict(shape=_shape_arg(shape, case["form"]), **kw)
            elif case["give_shape"] == "inferred-None":
                kw = dict(shape=None, **kw)
            if style == "keyword":
                return ttb.sptensor.from_aggregator(subs=a_s, vals=a_v, **kw)
            if style == "positional" and ("shape" in kw or "function_handle" not in kw):
                return ttb.sptensor.from_aggregator(a_s, a_v, *[kw[k_] for k_ in ("shape", "function_handle") if k_ in kw])
            return ttb.sptensor.from_aggregator(a_s, a_v, **kw)

        A, B = both(lambda: ttb.sptensor.from_aggregator(subs0.copy(), v0.copy(), out_shape, function_handle=cred), alt,
                    "sptensor.from_aggregator")
        for T_, tag in ((A, ""), (B, "/presented")):
            ctx.require(isinstance(T_, ttb.sptensor), "aggregator-returns-sptensor" + tag, type(T_).__name__)
            probs = ref.sptensor_problems(T_)
            ctx.require(not probs, "aggregator-wellformed-zeros-dropped" + tag, probs)
            ctx.check(tup(T_.shape) == out_shape, "aggregator-shape" + tag, f"{T_.shape} vs {out_shape}")
        ctx.check(_sp_dict(A) == expect, "aggregator-reduces-duplicates", f"{_sp_dict(A)} vs {expect}")
        got = _sp_dict(B)
        if exact_alt:
            ctx.check(got == expect, "aggregator-same-request-presented-differently", f"{got} vs {expect}")
        else:
            ctx.check(got is not None and set(got) == set(expect) and all(abs(got[k_] - expect[k_]) <= 8 * 2.0 ** -24 * 6 for k_ in expect),
                      "aggregator-same-request-presented-differently/single-precision", f"{got} vs {expect}")
        f_s, f_v = present()
        ctx.check(np.array_equal(a_s, f_s) and a_s.dtype == f_s.dtype and np.array_equal(a_v, f_v) and a_v.dtype == f_v.dtype
                  and a_s.shape == f_s.shape and a_v.shape == f_v.shape, "aggregator-leaves-arguments")
    else:
        shape, r = tuple(case["shape"]), case["rank"]
        ctx.label(*gen.shape_classes(shape), "form-" + case["form"])
        ctx.nt = len(set(shape)) >= 2
        fun = lambda s_: (np.arange(ref.prod(s_), dtype=float) + 1.0).reshape(s_)  # noqa: E731
        sarg = lambda: _shape_arg(shape, case["form"])  # noqa: E731
        A, B = both(lambda: ttb.ktensor.from_function(fun, shape, r),
                    lambda: ttb.ktensor.from_function(function_handle=fun, shape=sarg(), num_components=r) if style == "keyword"
                    else ttb.ktensor.from_function(fun, sarg(), r), "ktensor.from_function")
        ctx.require(isinstance(A, ttb.ktensor) and isinstance(B, ttb.ktensor), "kfrom_function-returns-ktensor")
        ctx.check(tup(A.shape) == shape and all(ref.same_exact(f_, fun((n_, r))) for f_, n_ in zip(A.factor_matrices, shape))
                  and bool(np.all(np.asarray(A.weights) == 1.0)), "kfrom_function-factors-are-function-output")
        ctx.check(tup(B.shape) == shape and len(B.factor_matrices) == len(shape) and np.array_equal(A.weights, B.weights)
                  and all(ref.same_exact(x, y) for x, y in zip(A.factor_matrices, B.factor_matrices)),
                  "kfrom_function-same-request-presented-differently")
    ctx.check(_env() == env0, "generator-changes-process-settings", f"{_env()} vs {env0}")


def _sptenrand_number_class(case):
    """pure function of the case: sptenrand given its count / density as a numpy scalar that is not a Python int / float
    subclass (np.float64 is one)"""
    if case.get("api") in ("sptenrand-count", "sptenrand-density") and case.get("numtype") not in ("python", "np.float64"):
        return "number-is-numpy-scalar-not-python-subclass"
    return "number-is-python-or-float64"


# --------------------------------------------------------------------------
# orders 5..8 (the shapes of the other cells stop at order 4 in the quick tier): the existing bodies on high-order requests
# --------------------------------------------------------------------------


@st.composite
def _high_case(draw, tier):
    n = draw(st.sampled_from([5, 5, 6, 6, 7, 8]))
    cap = 600 if tier == "quick" else 3000
    shape, cells = [], 1
    for _ in range(n):
        s_ = draw(st.sampled_from([1, 2, 2, 2, 3, 3, 4]))
        if cells * s_ > cap:
            s_ = 2 if cells * 2 <= cap else 1
        shape.append(s_)
        cells *= s_
    shape = [shape[i] for i in draw(st.permutations(range(n)))]
    api = draw(st.sampled_from(["dense", "from_function", "diag", "diag", "diag-default", "sprand", "sprand", "aggregator", "aggregator"]))
    form = draw(st.sampled_from(_SHAPE_FORMS))
    c = dict(api=api, loglevel=draw(st.sampled_from(["ERROR", "ERROR", "DEBUG"])))
    seed = draw(st.integers(0, 2 ** 31 - 1))
    order = draw(st.sampled_from(["F", "C", None]))
    if api == "dense":
        c["sub"] = dict(shape=shape, form=form, order=order, np_seed=seed)
    elif api == "from_function":
        c["sub"] = dict(shape=shape, form=form, data=draw(st.lists(gen.values("int"), min_size=cells, max_size=cells)),
                        output=draw(st.sampled_from(["C", "F", "flat", "C-int", "strided", "flat-float32", "F-int32"])))
    elif api in ("diag", "diag-default"):
        k = draw(st.sampled_from([1, 2, 3, 4, 5])) if api == "diag" else draw(st.sampled_from([5, 5, 6, 6, 7]))
        vkind = draw(st.sampled_from(["int", "float"]))
        c["sub"] = dict(elements=draw(st.lists(gen.values(vkind), min_size=k, max_size=k)), shape=shape if api == "diag" else None,
                        elform=draw(st.sampled_from(["list", "ndarray", "tuple", "col"])), sform=form, vkind=vkind, scale=1.0, order=order)
    elif api == "sprand":
        size = cells
        if size < 2:
            shape[0] = 3
            size = 3
        kind = draw(st.sampled_from(["count", "count-float", "fraction", "density"]))
        k = draw(st.one_of(st.integers(1, size - 1), st.just(size - 1), st.integers(max(1, size // 2), size - 1)))
        value = k if kind == "count" else (k + 0.25 if kind == "count-float" and k + 0.25 < size else
                                           (float(k) if kind == "count-float" else (k - 0.5) / size))
        c["sub"] = dict(shape=shape, form=form, kind=kind, value=value, np_seed=seed,
                        api="sptenrand" if kind == "density" else draw(st.sampled_from(["sptenrand", "from_function"])), numtype="python")
    else:
        nd = draw(st.integers(1, 6))
        picks = draw(st.lists(st.tuples(*[st.integers(0, d - 1) for d in shape]), min_size=nd, max_size=nd, unique=True))
        vkind = draw(st.sampled_from(["int", "int", "float"]))
        rows, vals = [], []
        for s_ in picks:
            mult = draw(st.sampled_from([1, 1, 2, 3]))
            vs = draw(st.lists(gen.values(vkind), min_size=mult, max_size=mult))
            if mult >= 2 and draw(st.integers(0, 2) if True else None) == 0:
                vs = vs[:-1] + [-sum(vs[:-1])] if vkind == "int" else [vs[0], -vs[0]] + [0.0] * (mult - 2)
            rows += [list(s_) for _ in range(mult)]
            vals += vs
        p_ = draw(st.permutations(range(len(rows))))
        c["sub"] = dict(shape=shape, subs=[rows[i] for i in p_], vals=[vals[i] for i in p_], vkind=vkind, scale=1.0,
                        give_shape=draw(st.sampled_from(["given", "inferred", "inferred"])), sform=form,
                        reducer=draw(st.sampled_from(_REDUCERS)), subs_dtype=draw(st.sampled_from(["int64", "int32", "uint8"])),
                        subs_layout=draw(st.sampled_from(["C", "F", "strided"])),
                        vals_dtype=draw(st.sampled_from(["float", "int", "float32"])) if vkind == "int" else "float")
    return c


@cell("C20/high-order", strategy=_high_case, quick=40, thorough=400, shards=(2, 8))
def high_order(ctx, case):
    """every generator on requests of order 5..8 (tendiag / sptendiag without a shape: 5..7 elements), judged by the same
    exact oracles as the low-order cells; a third of the cases with the root logger at DEBUG"""
    api, sub = case["api"], case["sub"]
    ctx.label("api-" + api, "log-" + case["loglevel"])
    with _loglevel(case["loglevel"]):
        if api == "dense":
            _dense_generators(ctx, sub)
        elif api == "from_function":
            _dense_from_function(ctx, sub)
        elif api in ("diag", "diag-default"):
            _diagonals(ctx, sub)
        elif api == "sprand":
            _sparse_random(ctx, sub)
        else:
            _aggregator(ctx, sub)


# --------------------------------------------------------------------------
# rejected requests (classes 12 and 14): nothing is left behind, and the next valid request is answered as before
# --------------------------------------------------------------------------

_REJECTS = {
    "aggregator": ["one-value-many-subs", "one-sub-many-values", "one-1x1-sub-many-values", "vals-flat", "vals-row", "vals-two-columns",
                   "vals-3d", "sub-outside-shape", "sub-outside-shape-zero-value", "subs-wider-than-shape", "subs-narrower-than-shape",
                   "subs-narrower-than-shape-all-extents-1", "negative-sub", "shape-has-zero-mode", "shape-not-integer",
                   "unknown-reducer-name", "one-value-fewer", "one-value-more", "reducer-in-shape-position",
                   "shape-in-reducer-position", "shape-empty"],
    "sptenrand": ["density-and-count", "neither", "density-zero", "density-negative", "density-above-one", "count-is-size",
                  "count-above-size", "count-negative", "count-in-density-position", "shape-not-integer"],
    "sptensor.from_function": ["count-is-size", "count-above-size", "count-negative", "function-not-callable"],
    "tensor.from_function": ["function-returns-one-more", "function-returns-one-fewer", "function-returns-two-for-all-extents-1",
                             "shape-not-integer", "negative-mode"],
    "tendiag": ["elements-matrix", "shape-not-integer", "order-not-F-or-C"],
    "sptendiag": ["elements-matrix", "shape-not-integer"],
    "teneye": ["odd-order", "odd-order-numpy-int", "order-not-F-or-C"],
    "tenones": ["shape-not-integer", "negative-mode", "order-not-F-or-C"],
}


@st.composite
def _reject_case(draw, tier):
    api = draw(st.sampled_from(sorted(_REJECTS) + ["aggregator", "aggregator"]))
    shape = draw(gen.shapes(tier, min_order=1, max_cells=36))
    if ref.prod(shape) < 3 and api in ("sptenrand", "sptensor.from_function"):
        shape[0] = draw(st.integers(3, 5))
    c = dict(api=api, shape=shape, reject=draw(st.sampled_from(_REJECTS[api])), np_seed=draw(st.integers(0, 2 ** 31 - 1)),
             nrej=draw(st.sampled_from([1, 1, 2])))
    n = draw(st.integers(2, 5))
    subsF = [list(s_) for s_ in ref.all_subs_F(shape)]
    c["subs"] = [draw(st.sampled_from(subsF)) for _ in range(n)]
    c["vals"] = draw(st.lists(gen.values("int", nonzero=True), min_size=n, max_size=n))
    c["reducer"] = draw(st.sampled_from(["default", "sum", "max", "min", "np.max", "mean", "callable-count"]))
    c["elements"] = draw(st.lists(gen.values("int"), min_size=2, max_size=4))
    c["count"] = draw(st.integers(1, max(1, ref.prod(shape) - 1)))
    c["ndims"] = draw(st.sampled_from([1, 3, 5]))
    c["size"] = draw(st.integers(1, 3))
    return c


@cell("C20/rejected", strategy=_reject_case, quick=150, thorough=1500, shards=(2, 8))
def rejected(ctx, case):
    """history: valid request - ill-formed request(s) of the same generator - the same valid request.  The ill-formed request
    must be answered with an exception; the arrays the caller handed over are bit for bit what they were (values, dtype, shape,
    flags), process-wide settings are unchanged, and the valid request after it is answered exactly as before it.  The
    ill-formed part is generated together with extents of 1 / equal lengths elsewhere, so that broadcasting cannot hide it."""
    api, rej = case["api"], case["reject"]
    shape = tuple(case["shape"])
    N, size = len(shape), ref.prod(shape)
    ctx.label("api-" + api, api + "/" + rej, f"rejected-{case['nrej']}x")
    ctx.nt = True
    rows, vals = case["subs"], case["vals"]
    n = len(rows)
    subs = np.array(rows, dtype=np.int64).reshape(n, N)
    v = np.array(vals, dtype=float).reshape(n, 1)
    el = np.array(case["elements"], dtype=float)
    fkw = {} if case["reducer"] == "default" else dict(function_handle=_reducer_arg(case["reducer"]))
    fun_sp = lambda s_: (np.arange(ref.prod(s_), dtype=float) + 1.5).reshape(s_)  # noqa: E731
    ones1 = (1,) * N

    def valid():
        np.random.seed(case["np_seed"])
        if api == "aggregator":
            return ttb.sptensor.from_aggregator(subs.copy(), v.copy(), shape, **fkw)
        if api == "sptenrand":
            return ttb.sptenrand(shape, nonzeros=min(case["count"], size - 1))
        if api == "sptensor.from_function":
            return ttb.sptensor.from_function(fun_sp, shape, min(case["count"], size - 1))
        if api == "tensor.from_function":
            return ttb.tensor.from_function(lambda s_: np.arange(ref.prod(s_), dtype=float), shape)
        if api == "tendiag":
            return ttb.tendiag(el.copy(), shape)
        if api == "sptendiag":
            return ttb.sptendiag(el.copy(), shape)
        if api == "teneye":
            return ttb.teneye(2 if case["ndims"] < 5 else 4, case["size"])
        return ttb.tenones(shape)

    held = {}  # the mutable arguments of the ill-formed request

    def ill():
        a_s, a_v, a_e = subs.copy(), v.copy(), el.copy()
        fshape = np.array(shape, dtype=float)
        held.clear()
        held.update(subs=a_s, vals=a_v, elements=a_e, fshape=fshape)
        if api == "aggregator":
            f = ttb.sptensor.from_aggregator
            if rej == "one-value-many-subs":  # (n, N) subscripts, one value: broadcasts
                return lambda: f(a_s, a_v[:1], shape, **fkw)
            if rej == "one-sub-many-values":
                return lambda: f(a_s[:1], a_v, shape, **fkw)
            if rej == "one-1x1-sub-many-values":  # a single subscript of a 1-way tensor: subs.size == 1
                return lambda: f(np.zeros((1, 1), dtype=np.int64), a_v, (shape[0],), **fkw)
            if rej == "vals-flat":
                held["vals"] = a_v = a_v.reshape(-1)
                return lambda: f(a_s, a_v, shape, **fkw)
            if rej == "vals-row":
                held["vals"] = a_v = np.ascontiguousarray(a_v.reshape(1, -1))
                return lambda: f(a_s, a_v, shape, **fkw)
            if rej == "vals-two-columns":
                held["vals"] = a_v = np.ascontiguousarray(np.hstack([a_v, a_v]))
                return lambda: f(a_s, a_v, shape, **fkw)
            if rej == "vals-3d":
                held["vals"] = a_v = a_v.reshape(-1, 1, 1).copy()
                return lambda: f(a_s, a_v, shape, **fkw)
            if rej in ("sub-outside-shape", "sub-outside-shape-zero-value"):
                k = case["np_seed"] % N
                a_s[case["np_seed"] % n, k] = shape[k]
                if rej.endswith("zero-value"):  # the ill-formed part has no visible effect on the values
                    a_v[case["np_seed"] % n, 0] = 0.0
                return lambda: f(a_s, a_v, shape, **fkw)
            if rej == "subs-wider-than-shape":  # the extra column addresses extent-1 modes only
                held["subs"] = a_s = np.hstack([a_s, np.zeros((n, 1), dtype=np.int64)])
                return lambda: f(a_s, a_v, shape, **fkw)
            if rej == "subs-narrower-than-shape":
                return lambda: f(a_s, a_v, shape + (1,), **fkw)
            if rej == "subs-narrower-than-shape-all-extents-1":
                held["subs"] = a_s = np.zeros((n, N), dtype=np.int64)
                return lambda: f(a_s, a_v, ones1 + (1,), **fkw)
            if rej == "negative-sub":
                a_s[case["np_seed"] % n, case["np_seed"] % N] = -1
                return lambda: f(a_s, a_v, shape, **fkw)
            if rej == "shape-has-zero-mode":
                k = case["np_seed"] % N
                return lambda: f(a_s, a_v, shape[:k] + (0,) + shape[k + 1:], **fkw)
            if rej == "shape-not-integer":
                return lambda: f(a_s, a_v, fshape, **fkw)
            if rej == "unknown-reducer-name":
                return lambda: f(a_s, a_v, shape, "summ")
            if rej == "one-value-fewer":
                return lambda: f(a_s, a_v[:-1], shape, **fkw)
            if rej == "reducer-in-shape-position":  # a value that is valid for the neighbouring argument
                return lambda: f(a_s, a_v, "max")
            if rej == "shape-in-reducer-position":
                return lambda: f(a_s, a_v, None, shape)
            if rej == "shape-empty":
                return lambda: f(a_s, a_v, (), **fkw)
            return lambda: f(a_s, np.vstack([a_v, a_v[:1]]), shape, **fkw)
        if api == "sptenrand":
            f = ttb.sptenrand
            return {"density-and-count": lambda: f(shape, density=0.5, nonzeros=1), "neither": lambda: f(shape),
                    "density-zero": lambda: f(shape, density=0.0), "density-negative": lambda: f(shape, density=-0.25),
                    "density-above-one": lambda: f(shape, density=1.5), "count-is-size": lambda: f(shape, nonzeros=size),
                    "count-above-size": lambda: f(shape, nonzeros=size + 3), "count-negative": lambda: f(shape, nonzeros=-1),
                    "count-in-density-position": lambda: f(shape, 1 + case["count"]),
                    "shape-not-integer": lambda: f(fshape, nonzeros=1)}[rej]
        if api == "sptensor.from_function":
            f = ttb.sptensor.from_function
            return {"count-is-size": lambda: f(fun_sp, shape, size), "count-above-size": lambda: f(fun_sp, shape, size + 3),
                    "count-negative": lambda: f(fun_sp, shape, -1), "function-not-callable": lambda: f(a_v, shape, 1)}[rej]
        if api == "tensor.from_function":
            f = ttb.tensor.from_function
            return {"function-returns-one-more": lambda: f(lambda s_: np.ones(ref.prod(s_) + 1), shape),
                    "function-returns-one-fewer": lambda: f(lambda s_: np.ones(ref.prod(s_) - 1), shape),
                    "function-returns-two-for-all-extents-1": lambda: f(lambda s_: np.ones(2), ones1),
                    "shape-not-integer": lambda: f(np.ones, fshape),
                    "negative-mode": lambda: f(np.ones, shape[:-1] + (-shape[-1],))}[rej]
        if api in ("tendiag", "sptendiag"):
            f = getattr(ttb, api)
            if rej == "elements-matrix":
                held["elements"] = a_e = np.arange(4, dtype=float).reshape(2, 2) + 1
                return lambda: f(a_e, shape)
            if rej == "shape-not-integer":
                return lambda: f(a_e, fshape)
            return lambda: f(a_e, shape, "K")
        if api == "teneye":
            return {"odd-order": lambda: ttb.teneye(case["ndims"], case["size"]),
                    "odd-order-numpy-int": lambda: ttb.teneye(np.int64(case["ndims"]), np.int32(case["size"])),
                    "order-not-F-or-C": lambda: ttb.teneye(2, case["size"], "K")}[rej]
        return {"shape-not-integer": lambda: ttb.tenones(fshape), "negative-mode": lambda: ttb.tenones(shape[:-1] + (-shape[-1],)),
                "order-not-F-or-C": lambda: ttb.tenones(shape, "K")}[rej]

    def snapshot():
        return {k_: (a.copy(), a.dtype, a.shape, a.strides, a.flags["WRITEABLE"]) for k_, a in held.items()}

    def same(snap):
        return all(held[k_].dtype == dt and held[k_].shape == sh and held[k_].strides == st_ and held[k_].flags["WRITEABLE"] == wr
                   and np.array_equal(held[k_], a0) for k_, (a0, dt, sh, st_, wr) in snap.items())

    env0 = _env()
    with ctx.sut(api + "/valid-request"):
        first = valid()
    for _ in range(case["nrej"]):
        call = ill()
        snap = snapshot()
        ctx.raises(api + "/" + rej + "-answered", call)
        ctx.check(same(snap), "rejected-request-changed-its-arguments", rej)
        ctx.check(_env() == env0, "rejected-request-changed-process-settings", f"{_env()} vs {env0}")
    with ctx.sut(api + "/valid-request-after-rejected"):
        again = valid()
    if isinstance(first, ttb.sptensor):
        probs = ref.sptensor_problems(again)
        ctx.require(not probs, "valid-request-after-rejected-wellformed", probs)
        ctx.check(_same_sparse(first, again), "valid-request-answered-differently-after-rejected-request")
        if api == "aggregator":
            groups = {}
            for s_, x in zip(rows, vals):
                groups.setdefault(tuple(s_), []).append(x)
            expect = {s_: _reduce(case["reducer"], g) for s_, g in groups.items()}
            expect = {s_: x for s_, x in expect.items() if x != 0}
            ctx.check(tup(again.shape) == shape and _sp_dict(again) == expect, "aggregator-reduces-duplicates/after-rejected",
                      f"{_sp_dict(again)} vs {expect}")
        elif api == "sptendiag":
            ctx.check(ref.same_exact(ref.den(again), _diag_expect(list(el), shape)), "sptendiag-values-on-superdiagonal-zero-elsewhere/after-rejected")
        else:
            ctx.check(tup(again.shape) == shape and again.nnz == min(case["count"], size - 1), "random-sparse-count/after-rejected", again.nnz)
    else:
        ctx.require(isinstance(again, ttb.tensor) and isinstance(first, ttb.tensor), "valid-request-after-rejected-returns-tensor")
        ctx.check(_same_dense(first, again), "valid-request-answered-differently-after-rejected-request")
        if api == "tendiag":
            ctx.check(ref.same_exact(again.data, _diag_expect(list(el), shape)), "tendiag-values-on-superdiagonal-zero-elsewhere/after-rejected")
        elif api == "tenones":
            ctx.check(tup(again.shape) == shape and bool(np.all(again.data == 1.0)), "tenones-all-one/after-rejected")
        elif api == "tensor.from_function":
            ctx.check(ref.same_exact(again.data, np.arange(size, dtype=float).reshape(shape, order="F")),
                      "from_function-entries-are-function-output/after-rejected")


# ==========================================================================
# predicates for known findings
# ==========================================================================

def _single_row_other_reducer(c):
    return len(c["subs"]) == 1 and c["reducer"] not in ("default", "sum", "np.sum", "prod")


PREDICATES = {
    # tendiag assigns the (empty) element vector through an empty subscript array
    "diag_no_elements": lambda c: "elements" in c and len(c["elements"]) == 0,
    # from_aggregator squeezes a one-row value column to a 0-d array, which numpy_groupies takes for a scalar
    "single_row_and_reducer_not_sum_or_prod": _single_row_other_reducer,
    # every retry of sptensor.from_function redraws all subscripts instead of accumulating: any request for >= 2 entries
    # can come back short
    "request_two_or_more": lambda c: request_class(c) == "two-or-more",
    # sptenrand(density=d) hands d*size to from_function, which treats a value < 1 as a density again
    "density_below_one_entry": lambda c: request_class(c) == "density-below-one-entry",
    # from_aggregator infers the shape as np.max(subs, axis=0) + 1 in the dtype of subs
    "inferred_size_overflows_subs_dtype": lambda c: agg_classes(c)["inferred_size_overflows_subs_dtype"],
    # parse_shape keeps numpy-integer entries of a tuple / list shape; sizes are then multiplied in that dtype
    "uint8_tuple_shape_product_overflows": lambda c: diag_u8(c) if "elements" in c else u8_overflow(c.get("form"), c["shape"]),
    # sptenrand tests isinstance(density, float) / isinstance(nonzeros, (int, float)): numpy integers and np.float32 fail it
    "sptenrand_number_is_numpy_scalar_not_python_subclass":
        lambda c: _sptenrand_number_class(c) == "number-is-numpy-scalar-not-python-subclass",
}
