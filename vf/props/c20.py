"""C20 — generators and aggregating constructors build what they advertise.

Every cell builds the expected object from the request alone (NumPy / Python dictionaries), never through another
pyttb generator.  Randomised generators (tenrand, sptenrand, sptensor.from_function) are seeded with the generated
``np_seed`` right before each call, so a case is reproducible and "same seed twice" is itself a checked clause.

Round 2.  *Every generator is called twice with the same arguments*: the first result is judged, then overwritten in
place through the object's own assignment interface (a caller may do what it likes with a tensor it was given), then the
generator is called again and the second result is judged by the same clauses (tagged ``/second-call``) - a generator
that hands out a cached or shared buffer fails there.  The random generators additionally see an unrelated request
between the two seeded calls.  A case that fails a ``/second-call`` clause carries the whole history (call, overwrite, call)
and therefore reproduces in a fresh process; the enumerated teneye cases, which repeat the same (ndims, size), are run in
a forked child each (``isolated``) so that a buffer kept by a defective generator cannot leak into the next case.  *Dtypes*: shapes
as int32 / uint8 arrays and numpy scalars, element vectors and aggregated values in integer / boolean dtypes, subscripts in
int32 / uint8 / uint16 (also with indices at the top of the dtype's range), counts as numpy scalars where the signature
accepts them.  Reducers by name and as the matching NumPy callable; exact cancellation also for general floats; values
scaled by 1e-6 / 1e+6 (relative bounds only).
"""

from __future__ import annotations

import itertools
import logging
import math

import numpy as np
from hypothesis import strategies as st

import pyttb as ttb

from .. import gen, ref
from ..core import cell
from ._c16_helpers import isolated

PROPERTY = "C20"

# tensor / ktensor constructors called with copy=False by the generators under test log a layout warning per call
logging.getLogger().setLevel(logging.ERROR)
RULE = (
    "requests = (generator, shape in one of the accepted forms [tuple, list, ndarray, int], order flag, element vector, "
    "function output layout, requested count or density, np_seed, subscript list with generated multiplicities and "
    "stored order, reducer) drawn by Hypothesis, teneye enumerated over ndims in {2,4,6} x size 1..3; oracle = the "
    "object rebuilt from the request with NumPy / a Python dict of lists.  Non-trivial: non-cubical shape (dense "
    "generators, diagonals, from_function), element vector shorter or longer than a mode (diagonals), a request of "
    "more than half the tensor size (random sparse), at least one repeated subscript and unsorted input (aggregator).  "
    "Round 2: every generator is called twice with the same arguments, the first result overwritten in between (random ones "
    "under the same seed with an unrelated request in between), both results judged; shapes as int32 / uint8 arrays, numpy "
    "scalars and tuples of numpy integers; element vectors, aggregated values and subscripts in integer / boolean dtypes "
    "(subscripts also at the top of uint8 / uint16); counts as numpy scalars; reducers by name and as NumPy callable; "
    "exact cancellation of general floats; values scaled by 1e-6 / 1e+6; F-ordered and strided subscript arrays.  Round 3: "
    "C20/sparse/huge-shapes - sptenrand (count and density), sptensor.from_function, from_aggregator and sptendiag on shapes "
    "with more than 2**31, 2**53 and 2**63 entries and modes up to 2**62, judged on Python integers (subscripts inside the "
    "shape, distinct, exact count, values, reproducible under the seed, dictionary aggregation); aggregated values and "
    "diagonal elements scaled by 1e-9 / 1e-12 / 1e-300 with the clause 'only exact zeros are dropped'; an empty element "
    "vector for the diagonals; the second result of every dense / random sparse generator stays alive and is judged again "
    "after a third result was made and edited; the arguments of tendiag / sptendiag are judged after the result was edited."
)
ASSUMPTIONS = [
    "teneye: T x^(m-1) = x for unit x is checked with |got - x| <= 1e-12 (the rounding of ||x|| = 1 and of a sum of "
    "at most 3^5 products; observed worst 4e-16)",
    "aggregator sums / means of general floats: 64*n*eps*sum|v| (association order of numpy_groupies is not specified); "
    "integer-valued data exact",
    "functions handed to the sparse generators return non-zero values (a stored zero would not be a well-formed "
    "sparse tensor whatever the generator does)",
    "density requests: the advertised count is density*size rounded either way (|nnz - density*size| < 1); count "
    "requests >= 1: floor(nonzeros); fractions < 1 given as nonzeros: ceil(fraction*size) (docstring of from_function)",
    "sptenrand(nonzeros=...) is given Python numbers or np.float64 only: it rejects numpy integer scalars by an explicit "
    "isinstance(nonzeros, (int, float)) test (reported, not listed); sptensor.from_function takes them",
    "the first result is overwritten through the object's own assignment interface; if that assignment raises the result "
    "simply stays as it was (assignment is C04's subject)",
    "uint8 aggregated values: a group is compared only when its exact result fits a byte (wrap-around of the accumulator is "
    "NumPy's arithmetic, not the constructor's)",
]

_SHAPE_FORMS = ["tuple", "list", "ndarray", "ndarray-col", "npint-list", "ndarray-int32", "ndarray-uint8", "npint32-tuple",
                "npuint8-tuple"]


def _shape_arg(shape, form):
    if form == "tuple":
        return tuple(shape)
    if form == "list":
        return list(shape)
    if form == "ndarray":
        return np.array(shape, dtype=int)
    if form == "ndarray-col":
        return np.array(shape, dtype=int).reshape(-1, 1)
    if form == "npint-list":
        return [np.int64(s) for s in shape]
    if form == "ndarray-int32":
        return np.array(shape, dtype=np.int32)
    if form == "ndarray-uint8":  # (every generated mode size is far below 256; the product need not be)
        return np.array(shape, dtype=np.uint8)
    if form == "npint32-tuple":
        return tuple(np.int32(s) for s in shape)
    if form == "npuint8-tuple":  # e.g. tuple(np.array(..., dtype=np.uint8)): entries fit, their product need not
        return tuple(np.uint8(s) for s in shape)
    if form == "int":
        return int(shape[0])
    if form == "npint":
        return np.int64(shape[0])
    raise ValueError(form)


@st.composite
def _shape_and_form(draw, tier, **kw):
    shape = draw(gen.shapes(tier, **kw))
    forms = list(_SHAPE_FORMS) + (["int", "int", "npint"] if len(shape) == 1 else [])
    return shape, draw(st.sampled_from(forms))


def tup(s):
    return tuple(int(v) for v in s)


_U8 = "/uint8-shape-entries-product-overflows"


def u8_overflow(form, built_shape, surviving=True):
    """pure function of the request: the shape is a tuple of np.uint8 entries (each fits) whose product does not fit a byte
    (``surviving``: at least one np.uint8 entry is still in the shape the generator multiplies out)"""
    return form == "npuint8-tuple" and surviving and ref.prod(built_shape) > 255


def spoil_tensor(T):
    """overwrite every entry of a dense tensor the caller was given, through subscripted assignment (assignment itself is
    another property's subject: if it raises, the result simply stays as it was)"""
    try:
        shape = tuple(int(x) for x in T.shape)
        if len(shape) and all(shape):
            T[tuple(slice(0, n) for n in shape)] = -3.25
    except Exception:  # noqa: BLE001
        pass


def spoil_sptensor(S):
    """overwrite stored values of a sparse tensor the caller was given (assignment to existing and to new entries)"""
    try:
        if S.subs.size:
            for row in np.array(S.subs, copy=True)[:3]:
                S[tuple(int(x) for x in row)] = 9.75
        S[tuple(0 for _ in S.shape)] = 1.5
    except Exception:  # noqa: BLE001
        pass


def _is_F_tensor(ctx, T, shape, what):
    ctx.require(isinstance(T, ttb.tensor), f"{what}-returns-tensor", type(T).__name__)
    ctx.check(tup(T.shape) == tuple(shape), f"{what}-shape", f"{T.shape} vs {shape}")
    ctx.require(isinstance(T.data, np.ndarray) and T.data.shape == tuple(shape), f"{what}-data-shape",
                getattr(T.data, "shape", None))
    ctx.check(T.data.flags["F_CONTIGUOUS"], f"{what}-data-fortran-ordered")


# ==========================================================================
# tenones / tenzeros / tenrand
# ==========================================================================


@st.composite
def _dense_gen_case(draw, tier):
    shape, form = draw(_shape_and_form(tier, min_order=1))
    return dict(shape=shape, form=form, order=draw(st.sampled_from(["F", "C", None])),
                np_seed=draw(st.integers(0, 2 ** 31 - 1)))


def _dense_generators(ctx, case):
    shape = tuple(case["shape"])
    ctx.label(*gen.shape_classes(shape), "form-" + case["form"], f"order-{case['order']}")
    ctx.nt = len(set(shape)) >= 2
    kw = {} if case["order"] is None else dict(order=case["order"])
    keep = {}
    u8 = _U8 if u8_overflow(case["form"], shape) else ""
    ctx.label("uint8-entries-product-overflows" if u8 else "shape-product-fits-entry-dtype")
    for tag in ("", "/second-call"):
        with ctx.sut("tenones" + u8 + tag):
            O = ttb.tenones(_shape_arg(shape, case["form"]), **kw)
        _is_F_tensor(ctx, O, shape, "tenones" + tag)
        ctx.check(O.data.dtype == np.float64 and bool(np.all(O.data == 1.0)), "tenones-all-one" + tag)
        with ctx.sut("tenzeros" + u8 + tag):
            Z = ttb.tenzeros(_shape_arg(shape, case["form"]), **kw)
        _is_F_tensor(ctx, Z, shape, "tenzeros" + tag)
        ctx.check(Z.data.dtype == np.float64 and bool(np.all(Z.data == 0.0)), "tenzeros-all-zero" + tag)
        np.random.seed(case["np_seed"])
        with ctx.sut("tenrand" + u8 + tag):
            R = ttb.tenrand(_shape_arg(shape, case["form"]), **kw)
        _is_F_tensor(ctx, R, shape, "tenrand" + tag)
        ctx.check(R.data.dtype == np.float64 and bool(np.all((R.data >= 0.0) & (R.data < 1.0))),
                  "tenrand-in-unit-interval" + tag, (float(R.data.min()), float(R.data.max())))
        if tag == "":
            keep["R"] = np.array(R.data, copy=True)
            ctx.check(not np.shares_memory(O.data, Z.data) and not np.shares_memory(O.data, R.data), "generators-return-fresh-data")
            # the caller overwrites what it was given, asks for something else, then repeats the request
            for T in (O, Z, R):
                spoil_tensor(T)
            with ctx.sut("tenrand-unrelated-request"):
                ttb.tenrand((2, 3))
        else:
            ctx.check(np.array_equal(R.data, keep["R"]), "tenrand-reproducible-under-seed")
            # (round 3) two results alive at once: a third set is made and edited, the second set is judged again
            with ctx.sut("dense-generators/third-call"):
                third = [ttb.tenones(_shape_arg(shape, case["form"]), **kw), ttb.tenzeros(_shape_arg(shape, case["form"]), **kw)]
                np.random.seed(case["np_seed"])
                third.append(ttb.tenrand(_shape_arg(shape, case["form"]), **kw))
            for T in third:
                if isinstance(T, ttb.tensor):
                    spoil_tensor(T)
            ctx.check(bool(np.all(O.data == 1.0)) and bool(np.all(Z.data == 0.0)) and np.array_equal(R.data, keep["R"]),
                      "dense-generators-earlier-result-changed-by-later-call")


@cell("C20/dense/ones-zeros-rand", strategy=_dense_gen_case, quick=500, thorough=10000, shards=(1, 8))
def dense_generators(ctx, case):
    _dense_generators(ctx, case)


# ==========================================================================
# tensor.from_function
# ==========================================================================


@st.composite
def _from_function_case(draw, tier):
    shape, form = draw(_shape_and_form(tier, min_order=1))
    n = ref.prod(shape)
    data = draw(st.lists(gen.values("int"), min_size=n, max_size=n))
    return dict(shape=shape, form=form, data=data, output=draw(st.sampled_from(["C", "F", "flat", "C-int", "strided"])))


@cell("C20/dense/from_function", strategy=_from_function_case, quick=500, thorough=10000, shards=(1, 8))
def dense_from_function(ctx, case):
    _dense_from_function(ctx, case)


def _dense_from_function(ctx, case):
    """a function returning an array of the requested shape (any layout) defines T[i] = f(shape)[i]; a flat vector is the
    first-index-fastest listing (docstring: 'return a 1D vector' to avoid reordering)"""
    shape = tuple(case["shape"])
    out = case["output"]
    ctx.label(*gen.shape_classes(shape), "output-" + out, "form-" + case["form"])
    ctx.nt = len(set(shape)) >= 2
    A = gen.arr_F(shape, case["data"])  # the intended tensor
    calls = []

    def fun(s):
        calls.append(s)
        if out == "flat":
            return A.ravel(order="F").copy()
        if out == "F":
            return np.asfortranarray(A.copy())
        if out == "C":
            return np.ascontiguousarray(A.copy())
        if out == "C-int":
            return np.ascontiguousarray(A.astype(np.int64))
        big = np.zeros(tuple(2 * d for d in shape))
        sl = tuple(slice(None, None, 2) for _ in shape)
        big[sl] = A
        return big[sl]

    u8 = _U8 if u8_overflow(case["form"], shape) else ""
    ctx.label("uint8-entries-product-overflows" if u8 else "shape-product-fits-entry-dtype")
    for n, tag in ((1, ""), (2, "/second-call")):
        with ctx.sut("tensor.from_function" + u8 + tag):
            T = ttb.tensor.from_function(fun, _shape_arg(shape, case["form"]))
        ctx.check(len(calls) == n and isinstance(calls[-1], tuple) and tup(calls[-1]) == shape,
                  "from_function-called-with-shape" + tag, calls)
        _is_F_tensor(ctx, T, shape, "from_function" + tag)
        ctx.check(ref.same_exact(T.data, A), "from_function-entries-are-function-output" + tag, ref.diff_info(T.data, A))
        spoil_tensor(T)
    ctx.check(ref.same_exact(A, gen.arr_F(shape, case["data"])), "from_function-leaves-function-output")


# ==========================================================================
# tendiag / sptendiag
# ==========================================================================


@st.composite
def _diag_case(draw, tier):
    k = draw(st.sampled_from([0, 1, 1, 2, 2, 3, 3, 4, 4, 5, 5]))  # (round 3) 0: no element at all, with a shape given
    vkind = draw(st.sampled_from(["int", "float"]))
    el = draw(st.lists(gen.values(vkind), min_size=k, max_size=k))
    # (round 3) whole element vectors of magnitude 1e-9 .. 1e-300 / 1e+300: below every absolute tolerance, still not zero
    scale = draw(st.sampled_from([1.0, 1.0, 1.0, 1e-9, 1e-12, 1e-300, 1e300])) if vkind == "float" else 1.0
    el = [v * scale for v in el]
    mode = draw(st.sampled_from(["default", "cubical", "noncubical", "noncubical", "noncubical"]))
    if k == 0 and mode == "default":
        mode = "noncubical"
    maxs = 5 if tier == "quick" else 7
    if mode == "default":
        k = min(k, 4)
        el = el[:k]
        shape = None
    elif mode == "cubical":
        n = draw(st.integers(1, 4))
        shape = [draw(st.integers(1, maxs))] * n
    else:
        n = draw(st.integers(1, 4))
        shape = [draw(st.integers(1, maxs)) for _ in range(n)]
        # make "shorter / equal / longer than some mode" all likely
        if draw(st.booleans()) and n >= 2 and k >= 1:
            shape[draw(st.integers(0, n - 1))] = k
    elform = draw(st.sampled_from(["list", "ndarray", "tuple", "col", "scalar" if k == 1 else "list"] +
                                  (["ndarray-int64", "ndarray-int32", "ndarray-uint8", "ndarray-bool", "list-int"]
                                   if vkind == "int" else []))) if k else "ndarray"
    if elform == "ndarray-uint8":
        el = [abs(v) for v in el]
    elif elform == "ndarray-bool":
        el = [float(v != 0) for v in el]
    sform = draw(st.sampled_from(_SHAPE_FORMS + (["int"] if shape and len(shape) == 1 else [])))
    return dict(elements=el, shape=shape, elform=elform, sform=sform, vkind=vkind, scale=scale,
                order=draw(st.sampled_from(["F", "C", None])))


def _el_arg(el, form):
    if form == "list":
        return list(el)
    if form == "tuple":
        return tuple(el)
    if form == "ndarray":
        return np.array(el, dtype=float)
    if form == "col":
        return np.array(el, dtype=float).reshape(-1, 1)
    if form.startswith("ndarray-"):
        return np.array(el, dtype=float).astype(np.dtype(form[len("ndarray-"):]))
    if form == "list-int":
        return [int(v) for v in el]
    return float(el[0])


def _diag_expect(el, shape):
    k = len(el)
    full = (k,) * k if shape is None else tuple(max(k, d) for d in shape)
    E = np.zeros(full)
    for i, v in enumerate(el):
        E[(i,) * len(full)] = v
    return E


def diag_u8(case):
    """tendiag enlarges a mode shorter than the element vector to its (python int) length: a np.uint8 entry survives
    only where the mode is longer"""
    shape, k = case["shape"], len(case["elements"])
    return shape is not None and u8_overflow(case["sform"], [max(k, d) for d in shape], any(d > k for d in shape))


@cell("C20/diag", strategy=_diag_case, quick=600, thorough=12000, shards=(1, 8))
def diagonals(ctx, case):
    _diagonals(ctx, case)


def _diagonals(ctx, case):
    """tendiag / sptendiag: the given values at (i,i,...,i), zero elsewhere, shape = requested shape enlarged to the
    number of elements where a mode is shorter (docstring)"""
    el, shape = case["elements"], case["shape"]
    k = len(el)
    E = _diag_expect(el, shape)
    if shape is None:
        ctx.label("shape-default")
    else:
        ctx.label("cubical" if len(set(shape)) == 1 else "non-cubical",
                  *(["elements-longer-than-a-mode"] if any(k > d for d in shape) else []),
                  *(["elements-shorter-than-a-mode"] if any(k < d for d in shape) else []),
                  *(["elements-equal-a-mode"] if any(k == d for d in shape) else []))
    ctx.label("has-zero-element" if any(v == 0 for v in el) else "no-zero-element", f"order{E.ndim}", "elements-" + case["elform"],
              "shape-" + str(case["sform"]), f"scale-{case.get('scale', 1.0):g}", "no-elements" if k == 0 else "some-elements")
    ctx.nt = shape is not None and len(set(shape)) >= 2 and any(k != d for d in shape) and k >= 2
    kw = {} if case["order"] is None else dict(order=case["order"])

    def args():
        out = [_el_arg(el, case["elform"])]
        if shape is not None:
            out.append(_shape_arg(shape, case["sform"]))
        return out

    u8 = _U8 if diag_u8(case) else ""
    ne = "/no-elements" if k == 0 else ""
    ctx.label("uint8-entries-product-overflows" if u8 else "shape-product-fits-entry-dtype")
    for tag in ("", "/second-call"):
        held = args()  # (round 3) the caller keeps its arguments: they are judged again after the result was edited
        with ctx.sut("sptendiag" + ne + tag):
            S = ttb.sptendiag(*held)
        ctx.require(isinstance(S, ttb.sptensor), "sptendiag-returns-sptensor" + tag, type(S).__name__)
        ctx.check(tup(S.shape) == E.shape, "sptendiag-shape" + tag, f"{S.shape} vs {E.shape}")
        probs = ref.sptensor_problems(S)
        ctx.require(not probs, "sptendiag-wellformed" + tag, probs)
        ctx.check(ref.same_exact(ref.den(S), E), "sptendiag-values-on-superdiagonal-zero-elsewhere" + tag,
                  ref.diff_info(ref.den(S), E))
        ctx.check(S.nnz == sum(1 for v in el if v != 0), "sptendiag-stores-nonzero-elements-only" + tag, S.nnz)
        spoil_sptensor(S)
        ctx.check(_same_args(held, args()), "sptendiag-result-edit-reaches-arguments" + tag)
        with ctx.sut("tendiag" + u8 + ne + tag):
            T = ttb.tendiag(*held, **kw)
        _is_F_tensor(ctx, T, E.shape, "tendiag" + tag)
        ctx.check(ref.same_exact(T.data, E), "tendiag-values-on-superdiagonal-zero-elsewhere" + tag, ref.diff_info(T.data, E))
        spoil_tensor(T)
        ctx.check(_same_args(held, args()), "tendiag-result-edit-reaches-arguments" + tag)


def _same_args(held, fresh):
    """the arguments a caller kept are still what a fresh build of them gives (arrays compared with dtype)"""
    if len(held) != len(fresh):
        return False
    for a, b in zip(held, fresh):
        if isinstance(b, np.ndarray):
            if not (isinstance(a, np.ndarray) and a.dtype == b.dtype and a.shape == b.shape and ref.same_exact(a, b)):
                return False
        elif isinstance(b, (list, tuple)):
            if not (type(a) is type(b) and len(a) == len(b) and all(float(x) == float(y) for x, y in zip(a, b))):
                return False
        elif float(a) != float(b):
            return False
    return True


# ==========================================================================
# teneye
# ==========================================================================

_XS = {
    1: [[1.0], [-1.0]],
    2: [[1.0, 0.0], [0.0, -1.0], [0.6, 0.8], [-0.8, 0.6], [2 ** -0.5, 2 ** -0.5], [0.28, -0.96]],
    3: [[1.0, 0.0, 0.0], [0.0, 0.0, 1.0], [2 / 3, -1 / 3, 2 / 3], [0.0, 0.6, -0.8], [3 ** -0.5, 3 ** -0.5, 3 ** -0.5],
        [2 / 7, 3 / 7, 6 / 7], [-0.36, 0.48, 0.8]],
}


def _enum_teneye(tier):
    for m in (2, 4, 6):
        for n in (1, 2, 3):
            for order in ("F", "C", None):
                yield dict(ndims=m, size=n, order=order, expect="identity")
            yield dict(ndims=m, size=n, order=None, expect="identity", npargs=True)  # numpy integer scalars
    if tier == "thorough":
        yield dict(ndims=8, size=2, order=None, expect="identity")
        yield dict(ndims=2, size=6, order=None, expect="identity")
        yield dict(ndims=4, size=4, order=None, expect="identity")
    for m in (1, 3, 5, 7):
        for n in (1, 2, 3):
            yield dict(ndims=m, size=n, order=None, expect="raises")


def _identity_tensor_ref(m, n):
    """E[i1..im] = (1/m!) * #{permutations s : i_s(1)=i_s(2), i_s(3)=i_s(4), ...}  (Qi's identity tensor)"""
    E = np.zeros((n,) * m)
    perms = list(itertools.permutations(range(m)))
    for idx in itertools.product(range(n), repeat=m):
        c = 0
        for p in perms:
            if all(idx[p[2 * j]] == idx[p[2 * j + 1]] for j in range(m // 2)):
                c += 1
        E[idx] = c / math.factorial(m)
    return E


@cell("C20/teneye", enum=_enum_teneye, shards=(2, 8))
def teneye_cell(ctx, case):
    isolated(ctx, _teneye, case)


def _teneye(ctx, case):
    m, n = case["ndims"], case["size"]
    ctx.nt = case["expect"] == "identity" and m >= 4 and n >= 2
    ctx.label(f"ndims{m}", f"size{n}", case["expect"], "numpy-scalar-arguments" if case.get("npargs") else "int-arguments")
    kw = {} if case["order"] is None else dict(order=case["order"])
    margs = (np.int64(m), np.int32(n)) if case.get("npargs") else (m, n)
    if case["expect"] == "raises":
        # stated: "An identity tensor only exists if order is even" / ValueError("Order must be even ...")
        ctx.raises("teneye-odd-order-answered", ttb.teneye, m, n, **kw)
        return
    letters = "abcdefgh"[:m]
    xs = _XS.get(n) or [list(np.eye(n)[0]), list(np.ones(n) / np.sqrt(n)), list(np.arange(1, n + 1) / np.linalg.norm(np.arange(1, n + 1)))]
    E = _identity_tensor_ref(m, n) if (n ** m <= 4096 and m <= 6) else None
    for tag in ("", "/second-call", "/third-call"):
        with ctx.sut("teneye" + tag):
            T = ttb.teneye(*margs, **kw)
        _is_F_tensor(ctx, T, (n,) * m, "teneye" + tag)
        A = np.asarray(T.data, dtype=float)
        worst = 0.0
        for x in xs:
            x = np.array(x, dtype=float)
            x = x / np.sqrt(np.dot(x, x))
            got = np.einsum(letters + "," + ",".join(letters[1:]) + "->" + letters[0], A, *([x] * (m - 1))) if m > 1 else A
            worst = max(worst, float(np.max(np.abs(got - x))))
        ctx.check(worst <= 1e-12, "teneye-acts-as-identity-on-unit-vectors" + tag, worst)
        # symmetric in all modes
        sym = all(np.array_equal(A, np.transpose(A, p)) for p in itertools.permutations(range(m))) if m <= 6 else True
        ctx.check(sym, "teneye-symmetric" + tag)
        if E is not None:
            ctx.check(bool(np.all(np.abs(A - E) <= 4 * ref.EPS)), "teneye-entries" + tag, ref.diff_info(A, E))
        # the tensor's own symmetric product agrees (ttsv with skip_dim=0 is what the docstring names)
        if m >= 2:
            x = np.array(xs[-1], dtype=float)
            x = x / np.sqrt(np.dot(x, x))
            with ctx.sut("teneye.ttsv" + tag):
                y = T.ttsv(x, 0)
            yv = np.asarray(y, dtype=float).reshape(-1)  # (ttsv hands back a bare scalar when size == 1: not teneye's business)
            ctx.check(yv.shape == (n,) and float(np.max(np.abs(yv - x))) <= 1e-12, "teneye-ttsv-skip0-returns-x" + tag, yv.tolist())
        # the caller edits the tensor it was given (single entries first, then everything) before asking again
        if tag == "":
            try:
                T[(0,) * m] = 5.0
                T[(n - 1,) * m] = 0.0
            except Exception:  # noqa: BLE001
                pass
        else:
            spoil_tensor(T)


# ==========================================================================
# sptenrand / sptensor.from_function
# ==========================================================================


def _requested(size, kind, value):
    """(count advertised for the request, admissible counts)"""
    if kind == "density":
        x = size * value
        lo, hi = math.floor(x), math.ceil(x)
        return {c for c in (lo, hi) if abs(c - x) < 1}
    if value < 1:
        return {int(math.ceil(size * value))}
    return {int(math.floor(value))}


@st.composite
def _sprand_case(draw, tier):
    shape, form = draw(_shape_and_form(tier, min_order=1, max_cells=48 if tier == "quick" else 200))
    size = ref.prod(shape)
    if size < 2:
        k = draw(st.integers(0, len(shape) - 1))
        shape[k] = draw(st.integers(2, 5))
        size = ref.prod(shape)
    kind = draw(st.sampled_from(["count", "count", "count-float", "fraction", "density"]))
    region = draw(st.sampled_from(["one", "low", "high", "max"]))
    if region == "one":
        c = 1
    elif region == "low":
        c = draw(st.integers(1, max(1, size // 2)))
    elif region == "high":
        c = draw(st.integers(max(1, size // 2), size - 1))
    else:
        c = size - 1
    if kind == "count":
        value = c
    elif kind == "count-float":
        value = c + draw(st.sampled_from([0.0, 0.25, 0.5, 0.99]))
        if value >= size:
            value = float(c)
    else:
        # a fraction of the size that asks for c entries (any value in ((c-1)/size, c/size])
        t = draw(st.sampled_from([1.0, 0.5, 0.999, 0.1]))
        value = (c - 1 + t) / size
        if value >= 1.0 or value <= 0.0:
            value = (c - 0.5) / size
    api = draw(st.sampled_from(["sptenrand", "from_function"])) if kind != "density" else "sptenrand"
    # numeric type of the count / density: python number or numpy scalar (sptenrand checks isinstance(.., (int, float)) on
    # its count, which np.float64 satisfies and np.int64 does not: the integer numpy scalar goes to from_function only)
    numtypes = ["python", "python", "np.float64"] + (["np.int64"] if api == "from_function" and float(value) == int(value) and value >= 1 else [])
    return dict(shape=shape, form=form, kind=kind, value=value, np_seed=draw(st.integers(0, 2 ** 31 - 1)), api=api,
                numtype=draw(st.sampled_from(numtypes)))


def _check_random_sparse(ctx, S, shape, want, what, requested_class, tag=""):
    requested_class = requested_class + tag
    ctx.require(isinstance(S, ttb.sptensor), f"{what}-returns-sptensor{tag}", type(S).__name__)
    ctx.check(tup(S.shape) == tuple(shape), f"{what}-shape{tag}", f"{S.shape} vs {shape}")
    probs = ref.sptensor_problems(S)
    ctx.require(not probs, f"{what}-wellformed{tag}", probs)
    n = int(S.nnz)
    if n not in want:
        if n < min(want):
            ctx.check(False, f"{what}-fewer-nonzeros-than-requested/{requested_class}", f"got {n}, requested {sorted(want)}")
        else:
            ctx.check(False, f"{what}-more-nonzeros-than-requested/{requested_class}", f"got {n}, requested {sorted(want)}")
    return n


@cell("C20/sparse/random", strategy=_sprand_case, quick=800, thorough=16000, shards=(2, 8))
def sparse_random(ctx, case):
    _sparse_random(ctx, case)


def _sparse_random(ctx, case):
    shape = tuple(case["shape"])
    size = ref.prod(shape)
    kind, value = case["kind"], case["value"]
    want = _requested(size, kind, value)
    req = max(want)
    nt_ = case.get("numtype", "python")
    ctx.label("api-" + case["api"], "kind-" + kind, "request-1" if req <= 1 else ("request-above-half" if 2 * req > size else "request-low"),
              *gen.shape_classes(shape), "form-" + case["form"], "number-" + nt_)
    ctx.nt = 2 * req > size and len(set(shape)) >= 2
    rclass = request_class(case)
    num = {"python": lambda v: v, "np.float64": np.float64, "np.int64": lambda v: np.int64(int(v))}[nt_]

    def unrelated():
        # another request in between (no reseeding): what it leaves behind must not matter after the next np.random.seed
        other = (3, 2) if shape != (3, 2) else (2, 4)
        try:
            spoil_sptensor(ttb.sptenrand(other, nonzeros=3))
        except Exception:  # noqa: BLE001
            pass

    if case["api"] == "sptenrand":
        kw = dict(density=num(float(value))) if kind == "density" else dict(nonzeros=num(value))
        first = None
        for tag in ("", "/second-call"):
            np.random.seed(case["np_seed"])
            with ctx.sut("sptenrand" + tag):
                S = ttb.sptenrand(_shape_arg(shape, case["form"]), **kw)
            _check_random_sparse(ctx, S, shape, want, "sptenrand", rclass, tag)
            v = np.asarray(S.vals, dtype=float).reshape(-1)
            ctx.check(bool(np.all((v >= 0) & (v < 1))), "sptenrand-values-in-unit-interval" + tag)
            if first is None:
                first = (np.array(S.subs, copy=True), np.array(S.vals, copy=True))
                spoil_sptensor(S)
                unrelated()
            else:
                ctx.check(np.array_equal(S.subs, first[0]) and np.array_equal(S.vals, first[1]), "sptenrand-reproducible-under-seed")
        # (round 3) two results alive at once: the second result is kept while a third one is made and edited
        np.random.seed(case["np_seed"])
        with ctx.sut("sptenrand/third-call"):
            S3 = ttb.sptenrand(_shape_arg(shape, case["form"]), **kw)
        if isinstance(S3, ttb.sptensor):
            spoil_sptensor(S3)
        ctx.check(np.array_equal(S.subs, first[0]) and np.array_equal(S.vals, first[1]), "sptenrand-earlier-result-changed-by-later-call")
    else:
        calls = []

        def fun(s):
            calls.append(s)
            return (np.arange(ref.prod(s), dtype=float) + 1.5).reshape(s)

        first = None
        for k, tag in ((1, ""), (2, "/second-call")):
            np.random.seed(case["np_seed"])
            with ctx.sut("sptensor.from_function" + tag):
                S = ttb.sptensor.from_function(fun, _shape_arg(shape, case["form"]), num(value))
            n = _check_random_sparse(ctx, S, shape, want, "from_function", rclass, tag)
            ctx.check(len(calls) == k and tup(calls[-1]) == (n, 1),
                      "from_function-one-value-per-nonzero-requested-from-function" + tag, calls)
            ctx.check(np.array_equal(np.asarray(S.vals, dtype=float).reshape(-1), np.arange(n, dtype=float) + 1.5),
                      "from_function-values-are-function-output" + tag)
            if first is None:
                first = (np.array(S.subs, copy=True), np.array(S.vals, copy=True))
                spoil_sptensor(S)
                unrelated()
            else:
                ctx.check(np.array_equal(S.subs, first[0]) and np.array_equal(S.vals, first[1]),
                          "from_function-reproducible-under-seed")
        np.random.seed(case["np_seed"])
        with ctx.sut("sptensor.from_function/third-call"):
            S3 = ttb.sptensor.from_function(fun, _shape_arg(shape, case["form"]), num(value))
        if isinstance(S3, ttb.sptensor):
            spoil_sptensor(S3)
        ctx.check(np.array_equal(S.subs, first[0]) and np.array_equal(S.vals, first[1]),
                  "from_function-earlier-result-changed-by-later-call")


def request_class(case):
    """class of a random-sparse request (pure function of the case): how many entries it asks for"""
    size = ref.prod(case["shape"])
    want = _requested(size, case["kind"], case["value"])
    req = max(want)
    if case["kind"] == "density" and size * case["value"] < 1:
        return "density-below-one-entry"
    return "one" if req <= 1 else "two-or-more"


# ==========================================================================
# round 3: shapes only a sparse tensor can have (products beyond 2**31, 2**53, 2**63; modes beyond 2**53)
# ==========================================================================

_HUGE_POOL = {
    ">2^31": [70000, 2 ** 16 + 1, 2 ** 20, 46341],
    ">2^53": [2 ** 20, 2 ** 27 + 3, 2 ** 31 - 1, 2 ** 31 + 5, 3_000_000],
    ">2^63": [3_000_000, 2 ** 31 + 5, 2 ** 40, 2 ** 22 + 1, 5_000_000, 2 ** 62],
    "mode>2^53": [2 ** 53 + 1, 2 ** 60, 2 ** 62, 2 ** 53 + 7],
}
_HUGE_THR = {">2^31": 2 ** 31, ">2^53": 2 ** 53, ">2^63": 2 ** 63, "mode>2^53": 2 ** 53}


@st.composite
def _huge_shape(draw):
    cls = draw(st.sampled_from([">2^31", ">2^53", ">2^63", ">2^63", ">2^63", "mode>2^53"]))
    shape = [draw(st.sampled_from(_HUGE_POOL[cls])) for _ in range(draw(st.integers(1, 3)))]
    while ref.prod(shape) <= _HUGE_THR[cls]:
        shape.append(draw(st.sampled_from(_HUGE_POOL[cls])))
    for _ in range(draw(st.integers(0, 2))):  # small and singleton modes in between
        shape.insert(draw(st.integers(0, len(shape))), draw(st.sampled_from([1, 2, 3, 5])))
    return shape


def _pos_in(dim):
    opts = [st.integers(0, dim - 1), st.just(dim - 1), st.integers(max(0, dim - 9), dim - 1), st.integers(0, min(dim - 1, 8))]
    if dim > 2 ** 53 + 64:
        opts += [st.integers(2 ** 53, 2 ** 53 + 64), st.integers(2 ** 53, dim - 1)]
    if dim > 2 ** 31 + 64:
        opts += [st.integers(2 ** 31 - 2, 2 ** 31 + 2)]
    return st.one_of(*opts)


@st.composite
def _huge_case(draw, tier):
    shape = draw(_huge_shape())
    api = draw(st.sampled_from(["sptenrand", "sptenrand-density", "from_function", "aggregator", "aggregator", "sptendiag"]))
    c = dict(shape=shape, api=api, np_seed=draw(st.integers(0, 2 ** 31 - 1)),
             sform=draw(st.sampled_from(["tuple", "list", "ndarray", "npint-list"])))
    if api in ("sptenrand", "from_function", "sptenrand-density"):
        k = draw(st.sampled_from([1, 2, 3, 7, 40, 500]))
        c["count"] = k
        c["value"] = (k - 0.5) / ref.prod(shape) if api == "sptenrand-density" else draw(st.sampled_from([k, float(k), k + 0.5]))
    elif api == "aggregator":
        nd = draw(st.integers(1, 6))
        picks = draw(st.lists(st.tuples(*[_pos_in(d) for d in shape]), min_size=nd, max_size=nd, unique=True))
        rows, vals = [], []
        for s_ in picks:
            mult = draw(st.sampled_from([1, 1, 2, 3]))
            vs = draw(st.lists(gen.values("int"), min_size=mult, max_size=mult))
            if mult >= 2 and draw(st.integers(0, 3)) == 0:
                vs = vs[:-1] + [-sum(vs[:-1])]
            for v in vs:
                rows.append(list(s_))
                vals.append(v)
        p_ = draw(st.permutations(range(len(rows))))
        c.update(subs=[rows[i] for i in p_], vals=[vals[i] for i in p_],
                 reducer=draw(st.sampled_from(["default", "sum", "np.sum", "max", "min", "np.max", "callable-count"])),
                 give_shape=draw(st.sampled_from(["given", "given", "inferred"])))
    else:
        k = draw(st.integers(1, 5))
        c["elements"] = draw(st.lists(gen.values(draw(st.sampled_from(["int", "float"]))), min_size=k, max_size=k))
        if draw(st.booleans()):  # some modes shorter than the element vector: they are enlarged
            j = draw(st.integers(0, len(shape) - 1))
            c["shape"] = shape[:j] + [draw(st.integers(1, 5))] + shape[j + 1:]
    return c


def _sp_dict(S):
    """stored entries of a sparse tensor as {subscript tuple of Python ints: value}; None when a subscript repeats"""
    if S.subs.size == 0:
        return {}
    out = {}
    for r, v in zip(np.asarray(S.subs).tolist(), np.asarray(S.vals, dtype=float).reshape(-1).tolist()):
        if tuple(r) in out:
            return None
        out[tuple(r)] = v
    return out


def _huge_wellformed(ctx, S, shape, what):
    ctx.require(isinstance(S, ttb.sptensor), f"{what}-returns-sptensor", type(S).__name__)
    ctx.check(tup(S.shape) == tuple(shape), f"{what}-shape", f"{S.shape} vs {shape}")
    ctx.require(isinstance(S.subs, np.ndarray) and isinstance(S.vals, np.ndarray), f"{what}-arrays")
    if S.subs.size:
        ctx.require(S.subs.ndim == 2 and S.subs.shape[1] == len(shape) and np.issubdtype(S.subs.dtype, np.integer)
                    and S.vals.shape == (S.subs.shape[0], 1), f"{what}-wellformed", (S.subs.shape, S.subs.dtype, S.vals.shape))
        rows = S.subs.tolist()  # Python integers: no dtype can hide a wrap-around
        ctx.check(all(0 <= x < d for r in rows for x, d in zip(r, shape)), f"{what}-subscripts-inside-shape",
                  [r for r in rows if not all(0 <= x < d for x, d in zip(r, shape))][:2])
        ctx.check(len({tuple(r) for r in rows}) == len(rows), f"{what}-subscripts-distinct")
        ctx.check(not bool(np.any(S.vals == 0)), f"{what}-no-stored-zero")
    return 0 if S.subs.size == 0 else S.subs.shape[0]


@cell("C20/sparse/huge-shapes", strategy=_huge_case, quick=100, thorough=2000, shards=(2, 8))
def sparse_huge(ctx, case):
    """the generators that never allocate the full array, asked for shapes whose number of entries exceeds 2**31,
    2**53 and 2**63 (linear positions that no int32 / float64 / int64 holds); every check on Python integers"""
    shape, api = tuple(case["shape"]), case["api"]
    size = ref.prod(shape)
    ctx.label("api-" + api, f"order{len(shape)}", "size>2^63" if size > 2 ** 63 - 1 else ("size>2^53" if size > 2 ** 53 else "size>2^31"),
              "mode>2^53" if max(shape) > 2 ** 53 else ("mode>2^31" if max(shape) > 2 ** 31 else "modes<=2^31"),
              "shape-" + case["sform"])
    ctx.nt = len(set(shape)) >= 2
    sarg = lambda: _shape_arg(shape, case["sform"])  # noqa: E731
    if api in ("sptenrand", "sptenrand-density", "from_function"):
        kind = "density" if api == "sptenrand-density" else "count"
        want = _requested(size, kind, case["value"])
        ctx.label(f"request-{case['count']}")
        first = None
        for tag in ("", "/second-call"):
            np.random.seed(case["np_seed"])
            if api == "from_function":
                with ctx.sut("sptensor.from_function/huge" + tag):
                    S = ttb.sptensor.from_function(lambda s_: (np.arange(ref.prod(s_), dtype=float) + 1.5).reshape(s_), sarg(),
                                                   case["value"])
            else:
                kw = dict(density=float(case["value"])) if kind == "density" else dict(nonzeros=case["value"])
                with ctx.sut(api + "/huge" + tag):
                    S = ttb.sptenrand(sarg(), **kw)
            n = _huge_wellformed(ctx, S, shape, api + "/huge" + tag)
            ctx.check(n in want, api + "-number-of-nonzeros/huge" + tag, f"got {n}, requested {sorted(want)}")
            v = np.asarray(S.vals, dtype=float).reshape(-1)
            if api == "from_function":
                ctx.check(np.array_equal(v, np.arange(n, dtype=float) + 1.5), "from_function-values-are-function-output/huge" + tag)
            else:
                ctx.check(bool(np.all((v >= 0) & (v < 1))), "sptenrand-values-in-unit-interval/huge" + tag)
            if first is None:
                first = (np.array(S.subs, copy=True), np.array(S.vals, copy=True))
                spoil_sptensor(S)
            else:
                ctx.check(np.array_equal(S.subs, first[0]) and np.array_equal(S.vals, first[1]), api + "-reproducible-under-seed/huge")
        return
    if api == "aggregator":
        rows, vals, red = case["subs"], case["vals"], case["reducer"]
        groups = {}
        for s_, v in zip(rows, vals):
            groups.setdefault(tuple(s_), []).append(v)
        expect = {s_: _reduce(red, g) for s_, g in groups.items()}
        expect = {s_: v for s_, v in expect.items() if v != 0}
        out_shape = shape if case["give_shape"] == "given" else tuple(max(r[k] for r in rows) + 1 for k in range(len(shape)))
        ctx.label("reducer-" + red, "shape-" + case["give_shape"], "has-repeat" if len(groups) < len(rows) else "all-distinct",
                  "some-group-reduces-to-zero" if len(expect) < len(groups) else "no-zero-group",
                  "subscript-not-a-float64" if any(int(float(x)) != x for r in rows for x in r) else "subscripts-are-float64")
        subs = np.array(rows, dtype=np.int64).reshape(len(rows), len(shape))
        v = np.array(vals, dtype=float).reshape(-1, 1)
        kw = {}
        if case["give_shape"] == "given":
            kw["shape"] = _shape_arg(out_shape, case["sform"])
        if red != "default":
            kw["function_handle"] = _reducer_arg(red)
        for tag in ("", "/second-call"):
            a_subs, a_vals = subs.copy(), v.copy()
            with ctx.sut("sptensor.from_aggregator/huge" + tag):
                S = ttb.sptensor.from_aggregator(a_subs, a_vals, **kw)
            _huge_wellformed(ctx, S, out_shape, "aggregator/huge" + tag)
            got = _sp_dict(S)
            ctx.check(got == expect, "aggregator-reduces-duplicates/huge" + tag, f"{got} vs {expect}")
            ctx.check(np.array_equal(a_subs, subs) and np.array_equal(a_vals, v), "aggregator-leaves-arguments/huge" + tag)
            spoil_sptensor(S)
        return
    el = case["elements"]
    k = len(el)
    out_shape = tuple(max(k, d) for d in shape)
    expect = {(i,) * len(shape): float(x) for i, x in enumerate(el) if x != 0}
    ctx.label("elements-longer-than-a-mode" if any(k > d for d in shape) else "elements-fit")
    for tag in ("", "/second-call"):
        with ctx.sut("sptendiag/huge" + tag):
            S = ttb.sptendiag(np.array(el, dtype=float), sarg())
        _huge_wellformed(ctx, S, out_shape, "sptendiag/huge" + tag)
        ctx.check(_sp_dict(S) == expect, "sptendiag-values-on-superdiagonal/huge" + tag, f"{_sp_dict(S)} vs {expect}")
        spoil_sptensor(S)


# ==========================================================================
# sptensor.from_aggregator
# ==========================================================================

# every reducer by name and as the matching NumPy callable, plus two plain Python callables
_REDUCERS = ["default", "sum", "np.sum", "max", "np.max", "min", "np.min", "mean", "np.mean", "prod", "np.prod",
             "callable-range", "callable-count"]


def _reduce(name, vals):
    if name in ("default", "sum", "np.sum"):
        return float(np.sum(np.array(vals, dtype=float)))
    if name in ("max", "np.max"):
        return float(max(vals))
    if name in ("min", "np.min"):
        return float(min(vals))
    if name in ("mean", "np.mean"):
        return float(np.sum(np.array(vals, dtype=float)) / len(vals))
    if name == "callable-range":
        return float(max(vals) - min(vals))
    if name == "callable-count":
        return float(len(vals))
    if name in ("prod", "np.prod"):
        return float(np.prod(np.array(vals, dtype=float)))
    raise ValueError(name)


def _reducer_arg(name):
    return {
        "sum": "sum", "max": "max", "min": "min", "prod": "prod", "mean": "mean", "np.mean": np.mean, "np.sum": np.sum,
        "np.max": np.max, "np.min": np.min, "np.prod": np.prod,
        "callable-range": lambda g: np.max(g) - np.min(g), "callable-count": lambda g: float(len(g)),
    }[name]


@st.composite
def _agg_case(draw, tier):
    shape = draw(gen.shapes(tier, min_order=1, max_cells=36 if tier == "quick" else 120))
    subsF = [list(s) for s in ref.all_subs_F(shape)]
    ndist = min(draw(st.sampled_from([0, 1, 2, 2, 3, 3, 4, 4, 5, 6])), len(subsF))
    picks = draw(st.lists(st.sampled_from(subsF), min_size=ndist, max_size=ndist, unique_by=tuple)) if ndist else []
    vkind = draw(st.sampled_from(["int", "int", "float"]))
    rows, vals = [], []
    for s in picks:
        mult = draw(st.sampled_from([1, 1, 2, 3, 4]))
        vs = draw(st.lists(gen.values(vkind), min_size=mult, max_size=mult))
        if mult >= 2 and draw(st.integers(0, 3)) == 0:
            # a group that sums to exactly zero (general floats: a value and its negative, the rest zeros)
            vs = vs[:-1] + [-sum(vs[:-1])] if vkind == "int" else [vs[0], -vs[0]] + [0.0] * (mult - 2)
        for v in vs:
            rows.append(list(s))
            vals.append(v)
    if len(rows) > 1:
        p = draw(st.permutations(range(len(rows))))
        rows, vals = [rows[i] for i in p], [vals[i] for i in p]
    # a subscript at the top of a narrow dtype's range: one mode is made long enough and one row is moved to its end
    top = draw(st.sampled_from([None, None, None, None, 255, 255, 256, 299]))
    if top is not None and rows:
        k = draw(st.integers(0, len(shape) - 1))
        shape = list(shape)
        shape[k] = top + 1
        moved = rows[draw(st.integers(0, len(rows) - 1))]
        for r in rows:  # every copy of that subscript moves (it stays one group)
            if r is not moved and r == moved:
                r[k] = top
        moved[k] = top
    hi = max([max(r) for r in rows], default=0)
    sdt = draw(st.sampled_from(["int64", "int64", "int32"] + (["uint8"] if hi <= 255 else []) + ["uint16"]))
    # (round 3) 1e-9 .. 1e-300: values and reduced values below every absolute tolerance are still not zero
    scale = draw(st.sampled_from([1.0, 1.0, 1.0, 1e-6, 1e6, 1e-9, 1e-12, 1e-300])) if vkind == "float" else 1.0
    reducer = draw(st.sampled_from(_REDUCERS))
    if scale == 1e-300 and reducer in ("prod", "np.prod"):
        scale = 1e-12  # (a product of such values underflows whichever way it is associated)
    return dict(shape=shape, subs=rows, vals=[v * scale for v in vals], vkind=vkind, scale=scale,
                give_shape=draw(st.sampled_from(["given", "given", "inferred", "larger"])) if rows else "given",
                sform=draw(st.sampled_from(_SHAPE_FORMS)) if max(shape) <= 255 else draw(st.sampled_from(["tuple", "list", "ndarray", "ndarray-int32"])),
                reducer=reducer, subs_dtype=sdt,
                subs_layout=draw(st.sampled_from(["C", "C", "F", "strided"])),
                vals_dtype=draw(st.sampled_from(["float", "float", "int", "int32", "uint8"])) if vkind == "int" else "float")


def agg_classes(case):
    """pure function of the case (labels, clause tags, predicates): does shape inference need a size the subscript
    dtype cannot hold?"""
    rows = case["subs"]
    sdt = np.dtype(case.get("subs_dtype", "int64"))
    hi = max([max(r) for r in rows], default=0)
    return dict(inferred_size_overflows_subs_dtype=bool(rows) and case["give_shape"] == "inferred" and hi + 1 > np.iinfo(sdt).max)


@cell("C20/aggregator", strategy=_agg_case, quick=1000, thorough=20000, shards=(2, 8))
def aggregator(ctx, case):
    _aggregator(ctx, case)


def _aggregator(ctx, case):
    """duplicates combined by the reducer (dictionary aggregation), zero results dropped, shape given or inferred"""
    shape = list(case["shape"])
    N = len(shape)
    rows, vals = case["subs"], case["vals"]
    red = case["reducer"]
    vdt = case["vals_dtype"]
    if vdt == "uint8":  # values an unsigned byte can hold (sums of a few of them are compared by value)
        vals = [float(abs(v)) for v in vals]
    groups = {}
    for s, v in zip(rows, vals):
        groups.setdefault(tuple(s), []).append(v)
    mults = sorted(len(g) for g in groups.values())
    if case["give_shape"] == "inferred":
        out_shape = tuple(max(s[k] for s in rows) + 1 for k in range(N))
    elif case["give_shape"] == "larger":
        out_shape = tuple(d + 1 + (k % 2) for k, d in enumerate(shape))
    else:
        out_shape = tuple(shape)
    E = np.zeros(out_shape)
    B = np.zeros(out_shape)
    for s, g in groups.items():
        E[s] = _reduce(red, g)
        B[s] = float(np.sum(np.abs(g))) if red not in ("prod", "np.prod") else abs(E[s])
    ac = agg_classes(case)
    ctx.label("reducer-" + red, "shape-" + case["give_shape"], "empty" if not rows else
              ("has-repeat" if mults and mults[-1] > 1 else "all-distinct"),
              "single-row" if len(rows) == 1 else "rows", "vals-" + vdt, "subs-" + case.get("subs_dtype", "int64"),
              "some-group-reduces-to-zero" if any(E[s] == 0 for s in groups) else "no-zero-group",
              f"scale-{case.get('scale', 1.0):g}", "top-of-dtype-subscript" if max(out_shape) > 250 else "small-subscripts",
              "inferred-size-overflows-subs-dtype" if ac["inferred_size_overflows_subs_dtype"] else "sizes-fit-subs-dtype")
    unsorted_in = rows != sorted(rows, key=lambda r: tuple(reversed(r)))
    ctx.nt = bool(mults and mults[-1] > 1 and unsorted_in and len(set(out_shape)) >= 1 and len(groups) >= 2)
    subs = np.array(rows, dtype=int).reshape(len(rows), N).astype(np.dtype(case.get("subs_dtype", "int64")))
    v = np.array(vals, dtype=float).reshape(len(rows), 1)
    if vdt != "float":
        v = v.astype(dict(int=np.int64, int32=np.int32, uint8=np.uint8)[vdt])
    kw = {}
    if case["give_shape"] != "inferred":
        kw["shape"] = _shape_arg(out_shape, case["sform"])
    if red != "default":
        kw["function_handle"] = _reducer_arg(red)
    # uint8 values: sums are formed in the reducer's accumulator; a value that does not fit the byte is numpy's concern,
    # so groups are compared only when every exact result fits
    if vdt == "uint8" and any(abs(E[s]) > 255 for s in groups):
        ctx.skip("uint8-result-does-not-fit")
    otag = "/inferred-size-overflows-subs-dtype" if ac["inferred_size_overflows_subs_dtype"] else ""
    lay = case.get("subs_layout", "C")
    ctx.label("subs-layout-" + lay)
    for tag in ("", "/second-call"):
        a_subs, a_vals = subs.copy(), v.copy()
        if lay == "F":  # e.g. the transposed array tt_ind2sub hands back
            a_subs = np.asfortranarray(a_subs)
        elif lay == "strided" and len(rows):
            big = np.zeros((2 * len(rows), N), dtype=subs.dtype)
            big[::2] = subs
            a_subs = big[::2]
        with ctx.sut("sptensor.from_aggregator" + otag + tag):
            S = ttb.sptensor.from_aggregator(a_subs, a_vals, **kw)
        ctx.require(isinstance(S, ttb.sptensor), "aggregator-returns-sptensor" + tag, type(S).__name__)
        ctx.check(tup(S.shape) == out_shape, "aggregator-shape" + otag + tag, f"{S.shape} vs {out_shape}")
        probs = ref.sptensor_problems(S)
        ctx.require(not probs, "aggregator-wellformed-zeros-dropped" + tag, probs)
        got = ref.den(S) if tup(S.shape) == out_shape else None
        if got is not None:
            if case["vkind"] == "int" and red not in ("np.mean", "mean"):
                ok = ref.same_exact(got, E)
            else:
                nterms = max(mults) if mults else 1
                ok = ref.same_bound(got, E, B, nterms)
            ctx.check(ok, "aggregator-reduces-duplicates" + tag, ref.diff_info(got, E))
            # (round 3) only exact zeros are dropped: a group whose result cannot be zero in any order of evaluation
            # (one value, or all values of one sign; not the difference-type reducers) is stored however small it is
            sure = [s_ for s_, g in groups.items() if red not in ("callable-range",) and all(x != 0 for x in g) and
                    (len(g) == 1 or all(x > 0 for x in g) or all(x < 0 for x in g)) and E[s_] != 0]
            missing = [s_ for s_ in sure if got[s_] == 0]
            ctx.check(not missing, "aggregator-drops-only-exact-zeros" + tag, f"missing {missing[:3]} expected {[E[m] for m in missing[:3]]}")
        ctx.check(np.array_equal(a_subs, subs) and a_subs.dtype == subs.dtype and np.array_equal(a_vals, v),
                  "aggregator-leaves-arguments" + tag)
        if tag == "":
            spoil_sptensor(S)


# ==========================================================================
# ktensor.from_function
# ==========================================================================


@st.composite
def _kfun_case(draw, tier):
    shape, form = draw(_shape_and_form(tier, min_order=1))
    r = draw(st.integers(1, 4))
    factors = [draw(st.lists(st.lists(gen.values("int"), min_size=r, max_size=r), min_size=n, max_size=n)) for n in shape]
    return dict(shape=shape, form=form, rank=r, factors=factors, output=draw(st.sampled_from(["C", "F", "strided"])))


@cell("C20/ktensor/from_function", strategy=_kfun_case, quick=500, thorough=10000, shards=(1, 8))
def ktensor_from_function(ctx, case):
    _ktensor_from_function(ctx, case)


def _ktensor_from_function(ctx, case):
    """unit weights; factor i is what the function returned for (shape[i], rank), asked mode by mode"""
    shape, r = tuple(case["shape"]), case["rank"]
    fms = [np.array(f, dtype=float).reshape(n, r) for f, n in zip(case["factors"], shape)]
    ctx.label(*gen.shape_classes(shape), f"rank{r}", "output-" + case["output"], "form-" + case["form"])
    ctx.nt = len(set(shape)) >= 2 and r >= 2
    calls = []

    def fun(s):
        i = len(calls)
        calls.append(s)
        A = fms[i] if i < len(fms) and tup(s) == fms[i].shape else np.full(s, np.nan)
        A = A.copy()
        if case["output"] == "F":
            return np.asfortranarray(A.copy())
        if case["output"] == "C":
            return np.ascontiguousarray(A.copy())
        big = np.zeros((2 * A.shape[0], 2 * A.shape[1]))
        big[::2, ::2] = A
        return big[::2, ::2]

    A = ref.den_kruskal(np.ones(r), fms)
    for tag in ("", "/second-call"):
        del calls[:]
        with ctx.sut("ktensor.from_function" + tag):
            K = ttb.ktensor.from_function(fun, _shape_arg(shape, case["form"]), r)
        ctx.require(isinstance(K, ttb.ktensor), "kfrom_function-returns-ktensor" + tag, type(K).__name__)
        ctx.check([tup(c) for c in calls] == [(n, r) for n in shape], "kfrom_function-asks-one-matrix-per-mode" + tag, calls)
        ctx.check(tup(K.shape) == shape, "kfrom_function-shape" + tag, K.shape)
        w = np.asarray(K.weights)
        ctx.check(w.shape == (r,) and bool(np.all(w == 1.0)), "kfrom_function-unit-weights" + tag, w.tolist())
        ctx.require(len(K.factor_matrices) == len(shape), "kfrom_function-number-of-factors" + tag)
        ctx.check(all(ref.same_exact(g, f) for g, f in zip(K.factor_matrices, fms)),
                  "kfrom_function-factors-are-function-output" + tag)
        ctx.check(ref.same_exact(ref.den(K), A), "kfrom_function-denotes-sum-of-outer-products" + tag)
        if tag == "":
            # the caller rescales the model it was given in place (absorbs new weights into the first factor)
            try:
                K.weights[...] = 2.0
                K.redistribute(0)
                K.normalize()
            except Exception:  # noqa: BLE001
                pass
    ctx.check(all(ref.same_exact(f, np.array(f0, dtype=float).reshape(n, r)) for f, f0, n in zip(fms, case["factors"], shape)),
              "kfrom_function-leaves-function-output")


# ==========================================================================
# predicates for known findings
# ==========================================================================

def _single_row_other_reducer(c):
    return len(c["subs"]) == 1 and c["reducer"] not in ("default", "sum", "np.sum", "prod")


PREDICATES = {
    # tendiag assigns the (empty) element vector through an empty subscript array
    "diag_no_elements": lambda c: "elements" in c and len(c["elements"]) == 0,
    # from_aggregator squeezes a one-row value column to a 0-d array, which numpy_groupies takes for a scalar
    "single_row_and_reducer_not_sum_or_prod": _single_row_other_reducer,
    # every retry of sptensor.from_function redraws all subscripts instead of accumulating: any request for >= 2 entries
    # can come back short
    "request_two_or_more": lambda c: request_class(c) == "two-or-more",
    # sptenrand(density=d) hands d*size to from_function, which treats a value < 1 as a density again
    "density_below_one_entry": lambda c: request_class(c) == "density-below-one-entry",
    # from_aggregator infers the shape as np.max(subs, axis=0) + 1 in the dtype of subs
    "inferred_size_overflows_subs_dtype": lambda c: agg_classes(c)["inferred_size_overflows_subs_dtype"],
    # parse_shape keeps numpy-integer entries of a tuple / list shape; sizes are then multiplied in that dtype
    "uint8_tuple_shape_product_overflows": lambda c: diag_u8(c) if "elements" in c else u8_overflow(c.get("form"), c["shape"]),
}
