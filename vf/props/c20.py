"""C20 — generators and aggregating constructors build what they advertise.

Every cell builds the expected object from the request alone (NumPy / Python dictionaries), never through another
pyttb generator.  Randomised generators (tenrand, sptenrand, sptensor.from_function) are seeded with the generated
``np_seed`` right before each call, so a case is reproducible and "same seed twice" is itself a checked clause.
"""

from __future__ import annotations

import itertools
import logging
import math

import numpy as np
from hypothesis import strategies as st

import pyttb as ttb

from .. import gen, ref
from ..core import cell

PROPERTY = "C20"

# tensor / ktensor constructors called with copy=False by the generators under test log a layout warning per call
logging.getLogger().setLevel(logging.ERROR)
RULE = (
    "requests = (generator, shape in one of the accepted forms [tuple, list, ndarray, int], order flag, element vector, "
    "function output layout, requested count or density, np_seed, subscript list with generated multiplicities and "
    "stored order, reducer) drawn by Hypothesis, teneye enumerated over ndims in {2,4,6} x size 1..3; oracle = the "
    "object rebuilt from the request with NumPy / a Python dict of lists.  Non-trivial: non-cubical shape (dense "
    "generators, diagonals, from_function), element vector shorter or longer than a mode (diagonals), a request of "
    "more than half the tensor size (random sparse), at least one repeated subscript and unsorted input (aggregator)."
)
ASSUMPTIONS = [
    "teneye: T x^(m-1) = x for unit x is checked with |got - x| <= 1e-12 (the rounding of ||x|| = 1 and of a sum of "
    "at most 3^5 products; observed worst 4e-16)",
    "aggregator sums / means of general floats: 64*n*eps*sum|v| (association order of numpy_groupies is not specified); "
    "integer-valued data exact",
    "functions handed to the sparse generators return non-zero values (a stored zero would not be a well-formed "
    "sparse tensor whatever the generator does)",
    "density requests: the advertised count is density*size rounded either way (|nnz - density*size| < 1); count "
    "requests >= 1: floor(nonzeros); fractions < 1 given as nonzeros: ceil(fraction*size) (docstring of from_function)",
]

_SHAPE_FORMS = ["tuple", "list", "ndarray", "ndarray-col", "npint-list"]


def _shape_arg(shape, form):
    if form == "tuple":
        return tuple(shape)
    if form == "list":
        return list(shape)
    if form == "ndarray":
        return np.array(shape, dtype=int)
    if form == "ndarray-col":
        return np.array(shape, dtype=int).reshape(-1, 1)
    if form == "npint-list":
        return [np.int64(s) for s in shape]
    if form == "int":
        return int(shape[0])
    raise ValueError(form)


@st.composite
def _shape_and_form(draw, tier, **kw):
    shape = draw(gen.shapes(tier, **kw))
    forms = list(_SHAPE_FORMS) + (["int", "int"] if len(shape) == 1 else [])
    return shape, draw(st.sampled_from(forms))


def tup(s):
    return tuple(int(v) for v in s)


def _is_F_tensor(ctx, T, shape, what):
    ctx.require(isinstance(T, ttb.tensor), f"{what}-returns-tensor", type(T).__name__)
    ctx.check(tup(T.shape) == tuple(shape), f"{what}-shape", f"{T.shape} vs {shape}")
    ctx.require(isinstance(T.data, np.ndarray) and T.data.shape == tuple(shape), f"{what}-data-shape",
                getattr(T.data, "shape", None))
    ctx.check(T.data.flags["F_CONTIGUOUS"], f"{what}-data-fortran-ordered")


# ==========================================================================
# tenones / tenzeros / tenrand
# ==========================================================================


@st.composite
def _dense_gen_case(draw, tier):
    shape, form = draw(_shape_and_form(tier, min_order=1))
    return dict(shape=shape, form=form, order=draw(st.sampled_from(["F", "C", None])),
                np_seed=draw(st.integers(0, 2 ** 31 - 1)))


@cell("C20/dense/ones-zeros-rand", strategy=_dense_gen_case, quick=500, thorough=10000, shards=(1, 8))
def dense_generators(ctx, case):
    shape = tuple(case["shape"])
    ctx.label(*gen.shape_classes(shape), "form-" + case["form"], f"order-{case['order']}")
    ctx.nt = len(set(shape)) >= 2
    kw = {} if case["order"] is None else dict(order=case["order"])
    with ctx.sut("tenones"):
        O = ttb.tenones(_shape_arg(shape, case["form"]), **kw)
    _is_F_tensor(ctx, O, shape, "tenones")
    ctx.check(O.data.dtype == np.float64 and bool(np.all(O.data == 1.0)), "tenones-all-one")
    with ctx.sut("tenzeros"):
        Z = ttb.tenzeros(_shape_arg(shape, case["form"]), **kw)
    _is_F_tensor(ctx, Z, shape, "tenzeros")
    ctx.check(Z.data.dtype == np.float64 and bool(np.all(Z.data == 0.0)), "tenzeros-all-zero")
    np.random.seed(case["np_seed"])
    with ctx.sut("tenrand"):
        R = ttb.tenrand(_shape_arg(shape, case["form"]), **kw)
    _is_F_tensor(ctx, R, shape, "tenrand")
    ctx.check(R.data.dtype == np.float64 and bool(np.all((R.data >= 0.0) & (R.data < 1.0))), "tenrand-in-unit-interval",
              (float(R.data.min()), float(R.data.max())))
    np.random.seed(case["np_seed"])
    with ctx.sut("tenrand-again"):
        R2 = ttb.tenrand(_shape_arg(shape, case["form"]), **kw)
    ctx.check(np.array_equal(R.data, R2.data), "tenrand-reproducible-under-seed")
    ctx.check(R.data is not R2.data and not np.shares_memory(O.data, Z.data), "generators-return-fresh-data")


# ==========================================================================
# tensor.from_function
# ==========================================================================


@st.composite
def _from_function_case(draw, tier):
    shape, form = draw(_shape_and_form(tier, min_order=1))
    n = ref.prod(shape)
    data = draw(st.lists(gen.values("int"), min_size=n, max_size=n))
    return dict(shape=shape, form=form, data=data, output=draw(st.sampled_from(["C", "F", "flat", "C-int", "strided"])))


@cell("C20/dense/from_function", strategy=_from_function_case, quick=500, thorough=10000, shards=(1, 8))
def dense_from_function(ctx, case):
    """a function returning an array of the requested shape (any layout) defines T[i] = f(shape)[i]; a flat vector is the
    first-index-fastest listing (docstring: 'return a 1D vector' to avoid reordering)"""
    shape = tuple(case["shape"])
    out = case["output"]
    ctx.label(*gen.shape_classes(shape), "output-" + out, "form-" + case["form"])
    ctx.nt = len(set(shape)) >= 2
    A = gen.arr_F(shape, case["data"])  # the intended tensor
    calls = []

    def fun(s):
        calls.append(s)
        if out == "flat":
            return A.ravel(order="F").copy()
        if out == "F":
            return np.asfortranarray(A.copy())
        if out == "C":
            return np.ascontiguousarray(A.copy())
        if out == "C-int":
            return np.ascontiguousarray(A.astype(np.int64))
        big = np.zeros(tuple(2 * d for d in shape))
        sl = tuple(slice(None, None, 2) for _ in shape)
        big[sl] = A
        return big[sl]

    with ctx.sut("tensor.from_function"):
        T = ttb.tensor.from_function(fun, _shape_arg(shape, case["form"]))
    ctx.check(len(calls) == 1 and isinstance(calls[0], tuple) and tup(calls[0]) == shape, "from_function-called-with-shape",
              calls)
    _is_F_tensor(ctx, T, shape, "from_function")
    ctx.check(ref.same_exact(T.data, A), "from_function-entries-are-function-output", ref.diff_info(T.data, A))


# ==========================================================================
# tendiag / sptendiag
# ==========================================================================


@st.composite
def _diag_case(draw, tier):
    k = draw(st.integers(1, 5))
    vkind = draw(st.sampled_from(["int", "float"]))
    el = draw(st.lists(gen.values(vkind), min_size=k, max_size=k))
    mode = draw(st.sampled_from(["default", "cubical", "noncubical", "noncubical", "noncubical"]))
    maxs = 5 if tier == "quick" else 7
    if mode == "default":
        k = min(k, 4)
        el = el[:k]
        shape = None
    elif mode == "cubical":
        n = draw(st.integers(1, 4))
        shape = [draw(st.integers(1, maxs))] * n
    else:
        n = draw(st.integers(1, 4))
        shape = [draw(st.integers(1, maxs)) for _ in range(n)]
        # make "shorter / equal / longer than some mode" all likely
        if draw(st.booleans()) and n >= 2:
            shape[draw(st.integers(0, n - 1))] = k
    elform = draw(st.sampled_from(["list", "ndarray", "tuple", "col", "scalar" if k == 1 else "list"]))
    sform = draw(st.sampled_from(_SHAPE_FORMS + (["int"] if shape and len(shape) == 1 else [])))
    return dict(elements=el, shape=shape, elform=elform, sform=sform, vkind=vkind,
                order=draw(st.sampled_from(["F", "C", None])))


def _el_arg(el, form):
    if form == "list":
        return list(el)
    if form == "tuple":
        return tuple(el)
    if form == "ndarray":
        return np.array(el, dtype=float)
    if form == "col":
        return np.array(el, dtype=float).reshape(-1, 1)
    return float(el[0])


def _diag_expect(el, shape):
    k = len(el)
    full = (k,) * k if shape is None else tuple(max(k, d) for d in shape)
    E = np.zeros(full)
    for i, v in enumerate(el):
        E[(i,) * len(full)] = v
    return E


@cell("C20/diag", strategy=_diag_case, quick=600, thorough=12000, shards=(1, 8))
def diagonals(ctx, case):
    """tendiag / sptendiag: the given values at (i,i,...,i), zero elsewhere, shape = requested shape enlarged to the
    number of elements where a mode is shorter (docstring)"""
    el, shape = case["elements"], case["shape"]
    k = len(el)
    E = _diag_expect(el, shape)
    if shape is None:
        ctx.label("shape-default")
    else:
        ctx.label("cubical" if len(set(shape)) == 1 else "non-cubical",
                  *(["elements-longer-than-a-mode"] if any(k > d for d in shape) else []),
                  *(["elements-shorter-than-a-mode"] if any(k < d for d in shape) else []),
                  *(["elements-equal-a-mode"] if any(k == d for d in shape) else []))
    ctx.label("has-zero-element" if any(v == 0 for v in el) else "no-zero-element", f"order{E.ndim}")
    ctx.nt = shape is not None and len(set(shape)) >= 2 and any(k != d for d in shape) and k >= 2
    args = [_el_arg(el, case["elform"])]
    if shape is not None:
        args.append(_shape_arg(shape, case["sform"]))
    kw = {} if case["order"] is None else dict(order=case["order"])
    with ctx.sut("tendiag"):
        T = ttb.tendiag(*args, **kw)
    _is_F_tensor(ctx, T, E.shape, "tendiag")
    ctx.check(ref.same_exact(T.data, E), "tendiag-values-on-superdiagonal-zero-elsewhere", ref.diff_info(T.data, E))
    args = [_el_arg(el, case["elform"])]
    if shape is not None:
        args.append(_shape_arg(shape, case["sform"]))
    with ctx.sut("sptendiag"):
        S = ttb.sptendiag(*args)
    ctx.require(isinstance(S, ttb.sptensor), "sptendiag-returns-sptensor", type(S).__name__)
    ctx.check(tup(S.shape) == E.shape, "sptendiag-shape", f"{S.shape} vs {E.shape}")
    probs = ref.sptensor_problems(S)
    ctx.require(not probs, "sptendiag-wellformed", probs)
    ctx.check(ref.same_exact(ref.den(S), E), "sptendiag-values-on-superdiagonal-zero-elsewhere",
              ref.diff_info(ref.den(S), E))
    ctx.check(S.nnz == sum(1 for v in el if v != 0), "sptendiag-stores-nonzero-elements-only", S.nnz)


# ==========================================================================
# teneye
# ==========================================================================

_XS = {
    1: [[1.0], [-1.0]],
    2: [[1.0, 0.0], [0.0, -1.0], [0.6, 0.8], [-0.8, 0.6], [2 ** -0.5, 2 ** -0.5], [0.28, -0.96]],
    3: [[1.0, 0.0, 0.0], [0.0, 0.0, 1.0], [2 / 3, -1 / 3, 2 / 3], [0.0, 0.6, -0.8], [3 ** -0.5, 3 ** -0.5, 3 ** -0.5],
        [2 / 7, 3 / 7, 6 / 7], [-0.36, 0.48, 0.8]],
}


def _enum_teneye(tier):
    for m in (2, 4, 6):
        for n in (1, 2, 3):
            for order in ("F", "C", None):
                yield dict(ndims=m, size=n, order=order, expect="identity")
    if tier == "thorough":
        yield dict(ndims=8, size=2, order=None, expect="identity")
        yield dict(ndims=2, size=6, order=None, expect="identity")
        yield dict(ndims=4, size=4, order=None, expect="identity")
    for m in (1, 3, 5, 7):
        for n in (1, 2, 3):
            yield dict(ndims=m, size=n, order=None, expect="raises")


def _identity_tensor_ref(m, n):
    """E[i1..im] = (1/m!) * #{permutations s : i_s(1)=i_s(2), i_s(3)=i_s(4), ...}  (Qi's identity tensor)"""
    E = np.zeros((n,) * m)
    perms = list(itertools.permutations(range(m)))
    for idx in itertools.product(range(n), repeat=m):
        c = 0
        for p in perms:
            if all(idx[p[2 * j]] == idx[p[2 * j + 1]] for j in range(m // 2)):
                c += 1
        E[idx] = c / math.factorial(m)
    return E


@cell("C20/teneye", enum=_enum_teneye, shards=(2, 8))
def teneye_cell(ctx, case):
    m, n = case["ndims"], case["size"]
    ctx.nt = case["expect"] == "identity" and m >= 4 and n >= 2
    ctx.label(f"ndims{m}", f"size{n}", case["expect"])
    kw = {} if case["order"] is None else dict(order=case["order"])
    if case["expect"] == "raises":
        # stated: "An identity tensor only exists if order is even" / ValueError("Order must be even ...")
        ctx.raises("teneye-odd-order-answered", ttb.teneye, m, n, **kw)
        return
    with ctx.sut("teneye"):
        T = ttb.teneye(m, n, **kw)
    _is_F_tensor(ctx, T, (n,) * m, "teneye")
    A = np.asarray(T.data, dtype=float)
    letters = "abcdefgh"[:m]
    xs = _XS.get(n) or [list(np.eye(n)[0]), list(np.ones(n) / np.sqrt(n)), list(np.arange(1, n + 1) / np.linalg.norm(np.arange(1, n + 1)))]
    worst = 0.0
    for x in xs:
        x = np.array(x, dtype=float)
        x = x / np.sqrt(np.dot(x, x))
        got = np.einsum(letters + "," + ",".join(letters[1:]) + "->" + letters[0], A, *([x] * (m - 1))) if m > 1 else A
        worst = max(worst, float(np.max(np.abs(got - x))))
    ctx.check(worst <= 1e-12, "teneye-acts-as-identity-on-unit-vectors", worst)
    # symmetric in all modes
    sym = all(np.array_equal(A, np.transpose(A, p)) for p in itertools.permutations(range(m))) if m <= 6 else True
    ctx.check(sym, "teneye-symmetric")
    if n ** m <= 4096 and m <= 6:
        E = _identity_tensor_ref(m, n)
        ctx.check(bool(np.all(np.abs(A - E) <= 4 * ref.EPS)), "teneye-entries", ref.diff_info(A, E))
    # the tensor's own symmetric product agrees (ttsv with skip_dim=0 is what the docstring names)
    if m >= 2:
        x = np.array(xs[-1], dtype=float)
        x = x / np.sqrt(np.dot(x, x))
        with ctx.sut("teneye.ttsv"):
            y = T.ttsv(x, 0)
        yv = np.asarray(y, dtype=float).reshape(-1)  # (ttsv hands back a bare scalar when size == 1: not teneye's business)
        ctx.check(yv.shape == (n,) and float(np.max(np.abs(yv - x))) <= 1e-12, "teneye-ttsv-skip0-returns-x", yv.tolist())


# ==========================================================================
# sptenrand / sptensor.from_function
# ==========================================================================


def _requested(size, kind, value):
    """(count advertised for the request, admissible counts)"""
    if kind == "density":
        x = size * value
        lo, hi = math.floor(x), math.ceil(x)
        return {c for c in (lo, hi) if abs(c - x) < 1}
    if value < 1:
        return {int(math.ceil(size * value))}
    return {int(math.floor(value))}


@st.composite
def _sprand_case(draw, tier):
    shape, form = draw(_shape_and_form(tier, min_order=1, max_cells=48 if tier == "quick" else 200))
    size = ref.prod(shape)
    if size < 2:
        k = draw(st.integers(0, len(shape) - 1))
        shape[k] = draw(st.integers(2, 5))
        size = ref.prod(shape)
    kind = draw(st.sampled_from(["count", "count", "count-float", "fraction", "density"]))
    region = draw(st.sampled_from(["one", "low", "high", "max"]))
    if region == "one":
        c = 1
    elif region == "low":
        c = draw(st.integers(1, max(1, size // 2)))
    elif region == "high":
        c = draw(st.integers(max(1, size // 2), size - 1))
    else:
        c = size - 1
    if kind == "count":
        value = c
    elif kind == "count-float":
        value = c + draw(st.sampled_from([0.0, 0.25, 0.5, 0.99]))
        if value >= size:
            value = float(c)
    else:
        # a fraction of the size that asks for c entries (any value in ((c-1)/size, c/size])
        t = draw(st.sampled_from([1.0, 0.5, 0.999, 0.1]))
        value = (c - 1 + t) / size
        if value >= 1.0 or value <= 0.0:
            value = (c - 0.5) / size
    return dict(shape=shape, form=form, kind=kind, value=value, np_seed=draw(st.integers(0, 2 ** 31 - 1)),
                api=draw(st.sampled_from(["sptenrand", "from_function"])) if kind != "density" else "sptenrand")


def _check_random_sparse(ctx, S, shape, want, what, requested_class):
    ctx.require(isinstance(S, ttb.sptensor), f"{what}-returns-sptensor", type(S).__name__)
    ctx.check(tup(S.shape) == tuple(shape), f"{what}-shape", f"{S.shape} vs {shape}")
    probs = ref.sptensor_problems(S)
    ctx.require(not probs, f"{what}-wellformed", probs)
    n = int(S.nnz)
    if n not in want:
        if n < min(want):
            ctx.check(False, f"{what}-fewer-nonzeros-than-requested/{requested_class}", f"got {n}, requested {sorted(want)}")
        else:
            ctx.check(False, f"{what}-more-nonzeros-than-requested/{requested_class}", f"got {n}, requested {sorted(want)}")
    return n


@cell("C20/sparse/random", strategy=_sprand_case, quick=800, thorough=16000, shards=(2, 8))
def sparse_random(ctx, case):
    shape = tuple(case["shape"])
    size = ref.prod(shape)
    kind, value = case["kind"], case["value"]
    want = _requested(size, kind, value)
    req = max(want)
    ctx.label("api-" + case["api"], "kind-" + kind, "request-1" if req <= 1 else ("request-above-half" if 2 * req > size else "request-low"),
              *gen.shape_classes(shape))
    ctx.nt = 2 * req > size and len(set(shape)) >= 2
    rclass = request_class(case)
    sarg = _shape_arg(shape, case["form"])
    if case["api"] == "sptenrand":
        kw = dict(density=float(value)) if kind == "density" else dict(nonzeros=value)
        np.random.seed(case["np_seed"])
        with ctx.sut("sptenrand"):
            S = ttb.sptenrand(sarg, **kw)
        n = _check_random_sparse(ctx, S, shape, want, "sptenrand", rclass)
        v = np.asarray(S.vals, dtype=float).reshape(-1)
        ctx.check(bool(np.all((v >= 0) & (v < 1))), "sptenrand-values-in-unit-interval")
        np.random.seed(case["np_seed"])
        with ctx.sut("sptenrand-again"):
            S2 = ttb.sptenrand(_shape_arg(shape, case["form"]), **kw)
        ctx.check(np.array_equal(S.subs, S2.subs) and np.array_equal(S.vals, S2.vals), "sptenrand-reproducible-under-seed")
    else:
        calls = []

        def fun(s):
            calls.append(s)
            return (np.arange(ref.prod(s), dtype=float) + 1.5).reshape(s)

        np.random.seed(case["np_seed"])
        with ctx.sut("sptensor.from_function"):
            S = ttb.sptensor.from_function(fun, sarg, value)
        n = _check_random_sparse(ctx, S, shape, want, "from_function", rclass)
        ctx.check(len(calls) == 1 and tup(calls[0]) == (n, 1), "from_function-one-value-per-nonzero-requested-from-function",
                  calls)
        ctx.check(np.array_equal(np.asarray(S.vals, dtype=float).reshape(-1), np.arange(n, dtype=float) + 1.5),
                  "from_function-values-are-function-output")
        np.random.seed(case["np_seed"])
        with ctx.sut("sptensor.from_function-again"):
            S2 = ttb.sptensor.from_function(fun, _shape_arg(shape, case["form"]), value)
        ctx.check(np.array_equal(S.subs, S2.subs) and np.array_equal(S.vals, S2.vals),
                  "from_function-reproducible-under-seed")


def request_class(case):
    """class of a random-sparse request (pure function of the case): how many entries it asks for"""
    size = ref.prod(case["shape"])
    want = _requested(size, case["kind"], case["value"])
    req = max(want)
    if case["kind"] == "density" and size * case["value"] < 1:
        return "density-below-one-entry"
    return "one" if req <= 1 else "two-or-more"


# ==========================================================================
# sptensor.from_aggregator
# ==========================================================================

_REDUCERS = ["default", "sum", "max", "min", "np.mean", "np.sum", "np.max", "callable-range", "callable-count", "prod"]


def _reduce(name, vals):
    if name in ("default", "sum", "np.sum"):
        return float(np.sum(np.array(vals, dtype=float)))
    if name in ("max", "np.max"):
        return float(max(vals))
    if name == "min":
        return float(min(vals))
    if name == "np.mean":
        return float(np.sum(np.array(vals, dtype=float)) / len(vals))
    if name == "callable-range":
        return float(max(vals) - min(vals))
    if name == "callable-count":
        return float(len(vals))
    if name == "prod":
        return float(np.prod(np.array(vals, dtype=float)))
    raise ValueError(name)


def _reducer_arg(name):
    return {
        "sum": "sum", "max": "max", "min": "min", "prod": "prod", "np.mean": np.mean, "np.sum": np.sum, "np.max": np.max,
        "callable-range": lambda g: np.max(g) - np.min(g), "callable-count": lambda g: float(len(g)),
    }[name]


@st.composite
def _agg_case(draw, tier):
    shape = draw(gen.shapes(tier, min_order=1, max_cells=36 if tier == "quick" else 120))
    subsF = [list(s) for s in ref.all_subs_F(shape)]
    ndist = min(draw(st.sampled_from([0, 1, 2, 2, 3, 3, 4, 4, 5, 6])), len(subsF))
    picks = draw(st.lists(st.sampled_from(subsF), min_size=ndist, max_size=ndist, unique_by=tuple)) if ndist else []
    vkind = draw(st.sampled_from(["int", "int", "float"]))
    rows, vals = [], []
    for s in picks:
        mult = draw(st.sampled_from([1, 1, 2, 3, 4]))
        vs = draw(st.lists(gen.values(vkind), min_size=mult, max_size=mult))
        if mult >= 2 and draw(st.integers(0, 3)) == 0:
            vs[-1] = -sum(vs[:-1]) if vkind == "int" else vs[-1]  # a group that sums to zero
        for v in vs:
            rows.append(list(s))
            vals.append(v)
    if len(rows) > 1:
        p = draw(st.permutations(range(len(rows))))
        rows, vals = [rows[i] for i in p], [vals[i] for i in p]
    return dict(shape=shape, subs=rows, vals=vals, vkind=vkind,
                give_shape=draw(st.sampled_from(["given", "given", "inferred", "larger"])) if rows else "given",
                sform=draw(st.sampled_from(_SHAPE_FORMS)), reducer=draw(st.sampled_from(_REDUCERS)),
                vals_dtype=draw(st.sampled_from(["float", "float", "int"])) if vkind == "int" else "float")


@cell("C20/aggregator", strategy=_agg_case, quick=1000, thorough=20000, shards=(2, 8))
def aggregator(ctx, case):
    """duplicates combined by the reducer (dictionary aggregation), zero results dropped, shape given or inferred"""
    shape = list(case["shape"])
    N = len(shape)
    rows, vals = case["subs"], case["vals"]
    red = case["reducer"]
    groups = {}
    for s, v in zip(rows, vals):
        groups.setdefault(tuple(s), []).append(v)
    mults = sorted(len(g) for g in groups.values())
    if case["give_shape"] == "inferred":
        out_shape = tuple(max(s[k] for s in rows) + 1 for k in range(N))
    elif case["give_shape"] == "larger":
        out_shape = tuple(d + 1 + (k % 2) for k, d in enumerate(shape))
    else:
        out_shape = tuple(shape)
    E = np.zeros(out_shape)
    B = np.zeros(out_shape)
    for s, g in groups.items():
        E[s] = _reduce(red, g)
        B[s] = float(np.sum(np.abs(g))) if red != "prod" else abs(E[s])
    ctx.label("reducer-" + red, "shape-" + case["give_shape"], "empty" if not rows else
              ("has-repeat" if mults and mults[-1] > 1 else "all-distinct"),
              "single-row" if len(rows) == 1 else "rows", "vals-" + case["vals_dtype"],
              "some-group-reduces-to-zero" if any(E[s] == 0 for s in groups) else "no-zero-group")
    unsorted_in = rows != sorted(rows, key=lambda r: tuple(reversed(r)))
    ctx.nt = bool(mults and mults[-1] > 1 and unsorted_in and len(set(out_shape)) >= 1 and len(groups) >= 2)
    subs = np.array(rows, dtype=int).reshape(len(rows), N)
    v = np.array(vals, dtype=float).reshape(len(rows), 1)
    if case["vals_dtype"] == "int":
        v = v.astype(np.int64)
    args = [subs.copy(), v.copy()]
    kw = {}
    if case["give_shape"] != "inferred":
        kw["shape"] = _shape_arg(out_shape, case["sform"])
    if red != "default":
        kw["function_handle"] = _reducer_arg(red)
    with ctx.sut("sptensor.from_aggregator"):
        S = ttb.sptensor.from_aggregator(*args, **kw)
    ctx.require(isinstance(S, ttb.sptensor), "aggregator-returns-sptensor", type(S).__name__)
    ctx.check(tup(S.shape) == out_shape, "aggregator-shape", f"{S.shape} vs {out_shape}")
    probs = ref.sptensor_problems(S)
    ctx.require(not probs, "aggregator-wellformed-zeros-dropped", probs)
    got = ref.den(S)
    if case["vkind"] == "int" and red not in ("np.mean",):
        ok = ref.same_exact(got, E)
    else:
        nterms = max(mults) if mults else 1
        ok = ref.same_bound(got, E, B, nterms)
    ctx.check(ok, "aggregator-reduces-duplicates", ref.diff_info(got, E))
    ctx.check(np.array_equal(subs, np.array(rows, dtype=int).reshape(len(rows), N)) and
              np.array_equal(v.astype(float).reshape(-1), np.array(vals, dtype=float)), "aggregator-leaves-arguments")


# ==========================================================================
# ktensor.from_function
# ==========================================================================


@st.composite
def _kfun_case(draw, tier):
    shape, form = draw(_shape_and_form(tier, min_order=1))
    r = draw(st.integers(1, 4))
    factors = [draw(st.lists(st.lists(gen.values("int"), min_size=r, max_size=r), min_size=n, max_size=n)) for n in shape]
    return dict(shape=shape, form=form, rank=r, factors=factors, output=draw(st.sampled_from(["C", "F", "strided"])))


@cell("C20/ktensor/from_function", strategy=_kfun_case, quick=500, thorough=10000, shards=(1, 8))
def ktensor_from_function(ctx, case):
    """unit weights; factor i is what the function returned for (shape[i], rank), asked mode by mode"""
    shape, r = tuple(case["shape"]), case["rank"]
    fms = [np.array(f, dtype=float).reshape(n, r) for f, n in zip(case["factors"], shape)]
    ctx.label(*gen.shape_classes(shape), f"rank{r}", "output-" + case["output"], "form-" + case["form"])
    ctx.nt = len(set(shape)) >= 2 and r >= 2
    calls = []

    def fun(s):
        i = len(calls)
        calls.append(s)
        A = fms[i] if i < len(fms) and tup(s) == fms[i].shape else np.full(s, np.nan)
        if case["output"] == "F":
            return np.asfortranarray(A.copy())
        if case["output"] == "C":
            return np.ascontiguousarray(A.copy())
        big = np.zeros((2 * A.shape[0], 2 * A.shape[1]))
        big[::2, ::2] = A
        return big[::2, ::2]

    with ctx.sut("ktensor.from_function"):
        K = ttb.ktensor.from_function(fun, _shape_arg(shape, case["form"]), r)
    ctx.require(isinstance(K, ttb.ktensor), "kfrom_function-returns-ktensor", type(K).__name__)
    ctx.check([tup(c) for c in calls] == [(n, r) for n in shape], "kfrom_function-asks-one-matrix-per-mode", calls)
    ctx.check(tup(K.shape) == shape, "kfrom_function-shape", K.shape)
    w = np.asarray(K.weights)
    ctx.check(w.shape == (r,) and bool(np.all(w == 1.0)), "kfrom_function-unit-weights", w.tolist())
    ctx.require(len(K.factor_matrices) == len(shape), "kfrom_function-number-of-factors")
    ctx.check(all(ref.same_exact(g, f) for g, f in zip(K.factor_matrices, fms)), "kfrom_function-factors-are-function-output")
    A = ref.den_kruskal(np.ones(r), fms)
    ctx.check(ref.same_exact(ref.den(K), A), "kfrom_function-denotes-sum-of-outer-products")


# ==========================================================================
# predicates for known findings
# ==========================================================================

def _single_row_other_reducer(c):
    return len(c["subs"]) == 1 and c["reducer"] not in ("default", "sum", "np.sum", "prod")


PREDICATES = {
    # from_aggregator squeezes a one-row value column to a 0-d array, which numpy_groupies takes for a scalar
    "single_row_and_reducer_not_sum_or_prod": _single_row_other_reducer,
    # every retry of sptensor.from_function redraws all subscripts instead of accumulating: any request for >= 2 entries
    # can come back short
    "request_two_or_more": lambda c: request_class(c) == "two-or-more",
    # sptenrand(density=d) hands d*size to from_function, which treats a value < 1 as a density again
    "density_below_one_entry": lambda c: request_class(c) == "density-below-one-entry",
}
