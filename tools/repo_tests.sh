#!/bin/bash
# Runs the pinned doctest suite and the repository's functional tests (guard off).
cd /repo && /venv/bin/python -m pytest -q -p no:cacheprovider 2>&1 | tail -2
cd /repo && /venv/bin/python -m pytest -q -p no:cacheprovider tests --deselect tests/test_package.py -x 2>&1 | tail -2
