#!/bin/bash
# usage: tools/try_patch.sh <patch.diff> [--demo demo.py] [--suites] <Cxx> [<Cyy> ...]
# Applies the patch to a scratch worktree of /repo HEAD, optionally confirms that the pinned suites still pass and that the
# demonstration fails with / passes without the change, then runs the given checks (quick) against the scratch tree.
set -u
PATCH="$(readlink -f "$1")"; shift
DEMO=""; SUITES=0
while [[ "${1:-}" == --* ]]; do
  case "$1" in
    --demo) DEMO="$(readlink -f "$2")"; shift 2;;
    --suites) SUITES=1; shift;;
    *) echo "bad flag $1"; exit 2;;
  esac
done
WT="$(mktemp -d /tmp/mut.XXXXXX)"
rmdir "$WT"
git -C /repo worktree add -q --detach "$WT" HEAD || exit 2
cleanup() { git -C /repo worktree remove --force "$WT" >/dev/null 2>&1; rm -rf "$WT"; }
trap cleanup EXIT
if [ -n "$DEMO" ]; then
  /venv/bin/python "$DEMO" "$WT" >/dev/null 2>&1; echo "demo on unchanged tree: exit $? (expect 0)"
fi
if ! git -C "$WT" apply "$PATCH"; then
  git -C "$WT" apply --3way "$PATCH" || { echo "PATCH DOES NOT APPLY"; exit 2; }
fi
if [ -n "$DEMO" ]; then
  /venv/bin/python "$DEMO" "$WT" >/dev/null 2>&1; echo "demo on changed tree: exit $? (expect 1)"
fi
if [ "$SUITES" = 1 ]; then
  (cd "$WT" && /venv/bin/python -m pytest -q -p no:cacheprovider 2>&1 | tail -1)
  (cd "$WT" && /venv/bin/python -m pytest -q -p no:cacheprovider tests --deselect tests/test_package.py 2>&1 | tail -1)
fi
for P in "$@"; do
  T0=$(date +%s)
  OUT="$(cd /verif && VERIF_REPO="$WT" ./check "$P" --tier "${TIER:-quick}" 2>&1)"; RC=$?
  T1=$(date +%s)
  echo "== $P rc=$RC $((T1-T0))s  violations=$(echo "$OUT" | grep -c '^VIOLATION')"
  echo "$OUT" | grep -B1 '^VIOLATION' | grep -v '^VIOLATION' | grep -v '^--' | cut -c1-220 | head -8
  echo "$OUT" | grep 'HARNESS' | head -3
done
