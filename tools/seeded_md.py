#!/venv/bin/python
"""Generate seeded/README.md from the meta.json files."""
import glob, json, os
HERE = os.path.dirname(os.path.dirname(os.path.abspath(__file__)))
rows = []
for d in sorted(glob.glob(os.path.join(HERE, "seeded", "C*"))):
    m = json.load(open(os.path.join(d, "meta.json")))
    rows.append((os.path.basename(d), m["property"], m["detected_by_checks"], m["needs_to_manifest"], m["detected_by"], m["applies_to"]))
out = ["# Independently seeded property-breaking changes", "",
       "Each directory: `patch.diff` (apply with `git -C /repo apply`, undo with `git -C /repo checkout -- .`; or use "
       "`tools/try_patch.sh`), `demo.py <repo root>` (exit 1 with the change, 0 without), `notes.md` (the author's notes), `meta.json`.",
       "Round 1 directories are `Cxx-a`, `Cxx-b`; round 2 `Cxx-a2`, `Cxx-b2`; round 3 `Cxx-a3`, `Cxx-b3`; round 4 `Cxx-a4`, `Cxx-b4`. The 'caught' column says whether the current checks report it; `meta.json` `detected_on_first_run` says whether they did before the strengthening that followed that round.", "",
       "| change | caught | needs, in order to manifest | detected by | applies to |", "|---|---|---|---|---|"]
for r in rows:
    out.append("| " + " | ".join(str(x).replace("|", "/")[:420] for x in (r[0], r[2], r[3], r[4], r[5])) + " |")
open(os.path.join(HERE, "seeded", "README.md"), "w").write("\n".join(out) + "\n")
print(len(rows), "rows")
