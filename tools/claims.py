# exec'd by make_manifest.py: one claim() per property whose check is built and trusted.
NA_REASONS = {}

_NOTE = ("Trusted base: NumPy/SciPy reference semantics in vf/ref.py and the per-cell oracles; Hypothesis case generation "
         "seeded by VERIF_SEED; exploration never proves absence - evidence lists cases generated, distinct non-trivial "
         "cases per cell, label histograms and samples.")

claim("C07", "property-based testing: Hypothesis-generated and exhaustively enumerated (all N! orders, all ordered factorisations) cases vs NumPy transpose/reshape/squeeze oracle + inverse round trip",
      "Generated-input search: every permute/reshape/squeeze variant of tensor, sptensor, ktensor, ttensor is compared exactly with the NumPy index map on the denoted array; finite sub-spaces (all orders for N<=4, all factorisations of small element counts) are enumerated completely.",
      _NOTE, "DESIGN.md section 4 C07")
