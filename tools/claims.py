# exec'd by make_manifest.py: one claim() per property whose check is built and trusted.
NA_REASONS = {}

_NOTE = ("Trusted base: NumPy/SciPy reference semantics in vf/ref.py and the per-cell oracles; Hypothesis case generation "
         "seeded by VERIF_SEED; exploration never proves absence - evidence lists cases generated, distinct non-trivial "
         "cases per cell, label histograms and samples.")

claim("C07", "property-based testing: Hypothesis-generated and exhaustively enumerated (all N! orders, all ordered factorisations) cases vs NumPy transpose/reshape/squeeze oracle + inverse round trip",
      "Generated-input search: every permute/reshape/squeeze variant of tensor, sptensor, ktensor, ttensor is compared exactly with the NumPy index map on the denoted array; finite sub-spaces (all orders for N<=4, all factorisations of small element counts) are enumerated completely.",
      _NOTE, "DESIGN.md section 4 C07")

claim("C01", "property-based testing: Hypothesis-generated conversions + exhaustive enumeration of every ordered mode split vs NumPy index-formula oracle (round trips)",
      "Generated-input search over every conversion (dense<->sparse, Kruskal/Tucker/sum->dense, tensor<->tenmat, sptensor<->sptenmat, constructors, scipy inputs): each result is compared through the array it denotes with the array computed by NumPy from the case, plus reported shape/nnz/mode split; all ordered (rdims,cdims) partitions and the fc/bc/t conventions are enumerated for fixed shapes.",
      _NOTE, "DESIGN.md section 4 C01")
claim("C02", "property-based testing: generated holders x mode designations vs einsum/tensordot reference on the denoted array; exhaustive designation enumeration on fixed shapes",
      "Generated-input search over ttv/ttm/mttkrp/mttkrps/ttt/ttsv/innerprod/norm/contract/collapse/scale/mask/reconstruct for every holder class and every way of designating modes; oracle = defining sum in NumPy, exact for integer-valued data and within a rigorous rounding bound otherwise; labels measure sparse/dense/scalar/empty result branches.",
      _NOTE, "DESIGN.md section 4 C02")
claim("C03", "property-based testing: exhaustive enumeration of all pairs of zero patterns (<=8 cells) x operators + Hypothesis sampling beyond, differential against NumPy ufuncs on the expanded arrays",
      "Every operator (+ - * / and/or/xor/not, six comparisons) on sptensor x {scalar, tensor, sptensor}, both operand orders, is compared position by position (NaN-aware, exact) with the NumPy operator on the expanded arrays; small shapes are enumerated completely over pattern pairs, stored orders permuted.",
      _NOTE, "DESIGN.md section 4 C03")
claim("C04", "model-based property testing over generated operation histories: dense tensor, sparse tensor and a NumPy model driven in lockstep; enumeration of region keys",
      "Histories of reads and writes (all key forms, growth in extent and order, zero assignment) are generated as concrete operation lists; after every step den(T)==den(S)==model, S well-formed, every read equals the model under rectangular semantics and leaves the object unchanged; single-operation cells and an exhaustive region-key enumeration localise failures.",
      _NOTE, "DESIGN.md section 4 C04")
claim("C05", "property-based testing: one cell per public operation (223), bit-exact operand snapshots + memory-sharing and write-through probes on results",
      "For every public operation of the seven classes and the five algorithm entry points, on generated operands that favour view-returning paths: operands are bit-identical after the call, no result array shares memory with an operand array, and overwriting either side is invisible through the other; documented in-place operations may change only their receiver.",
      _NOTE, "DESIGN.md section 4 C05")
claim("C06", "metamorphic property testing: every public sparse operation re-run under all n! (n<=4) / sampled stored orders of each operand; well-formedness predicate on every sparse result",
      "About 110 sparse operations are run on the same denoted operands stored in every order; all runs must return the same class, shape and values (raise/return included) and every sptensor/sptenmat returned must be well-formed with no explicit zero after combining/filtering operations; pairs of patterns are enumerated exhaustively on small shapes.",
      _NOTE, "DESIGN.md section 4 C06")
claim("C08", "property-based testing: generated Kruskal tensors x re-parameterisation arguments, einsum invariance oracle + normal-form predicates + exact round trips; generated histories of re-parameterisations",
      "normalize/arrange/fixsigns/redistribute/extract/tovec/from_vector/tolist/update/+,-,*/score on generated Kruskal tensors (zero/negative weights, zero columns): the denoted array is unchanged within a rigorous bound (or is the documented sum/multiple), the promised normal form holds, round trips are exact; a history cell applies sequences of operations to one object and re-checks the round trips on every state reached.",
      _NOTE, "DESIGN.md section 4 C08")
claim("C09", "property-based testing of cp_als: generated low-rank+noise problems x options; recomputation oracle, truncated-run monotonicity, normal-equation residual, recording data wrapper",
      "cp_als on tensor/sptensor/ttensor/sumtensor data with every kind of start, mode order, optimised-mode subset, tolerance, limit and printing interval: normal form, reported fit/residual recomputed from the returned model, monotone fit over truncated runs, least-squares stationarity of the last updated mode, iteration limit and stop rule, returned guess, unchanged operands, and the sequence of mttkrp requests seen by a duck-typed wrapper.",
      _NOTE, "DESIGN.md section 4 C09")
claim("C10", "property-based testing of hosvd / tucker_als: constructed spectra with tolerances placed on both sides of every rank-switch value; orthonormality, core relation and error-bound oracle; enumeration of switch values and rank vectors",
      "hosvd (both truncation strategies, all mode orders, automatic and given ranks) and tucker_als (all starts, orders, limits): orthonormal factors, core = data times transposed factors, relative error <= tol for automatic ranks, exact requested ranks, reported fit recomputed, monotone fit over truncated runs.",
      _NOTE, "DESIGN.md section 4 C10")
claim("C11", "property-based testing of cp_apr (mu, pdnr, pqnr): generated count tensors with empty slices / zero fibres x option sets; independent recomputation of the Poisson log-likelihood",
      "Each algorithm on dense and sparse count data with non-negative guesses (zero rows included): non-negative model of the requested rank/shape, reported objective equals the recomputed log-likelihood (-inf matched), KKT violations non-negative with one entry per outer iteration, iteration limit, at least as likely as the guess, operands unchanged.",
      _NOTE, "DESIGN.md section 4 C11")
claim("C12", "property-based testing: complex-step / Richardson differentiation oracle for the ten losses; tensor-level objective and gradients vs einsum definition and directional derivatives; differential mttkrps vs mttkrp and estimate vs evaluate",
      "Every built-in loss's gradient is compared with the machine-accurate derivative of its function over its domain; fg.evaluate's objective and factor gradients are compared with the weighted sum of the loss and with directional derivatives of an independent objective; mttkrps equals per-mode mttkrp; the sampled estimator on all entries equals the exact evaluation.",
      _NOTE, "DESIGN.md section 4 C12")
claim("C13", "property-based testing of samplers and solvers + generated solve histories on one optimizer object compared with fresh objects (model-based); recording sampler wrapper",
      "Samplers: subscripts in range, one value and weight per sample, values equal the data, weight totals; stochastic solvers: trace length, returned model is the best epoch on the recorded function sample, bounds respected; L-BFGS-B objective truthful and non-increasing; sequences of 2..4 solves on one object must equal fresh-object solves bit for bit.",
      _NOTE, "DESIGN.md section 4 C13")
claim("C14", "property-based testing: constructed spectra (well-separated eigenvalues) x every mode, count and holder; eigh-of-Gram-matrix oracle; enumeration of fixed models",
      "nvecs of tensor/sptensor/ktensor/ttensor holders of the same array for every mode n and count r on both solver paths: shape, real dtype, orthonormal columns, eigen-residual in decreasing order, captured energy, projector equal to the reference projector (cross-holder agreement), sign normalisation.",
      _NOTE, "DESIGN.md section 4 C14")
claim("C15", "property-based testing + exhaustive enumeration of disjoint mode groupings for orders <=4; permutation-average oracle and exact invariance test, differential between the two implementations",
      "symmetrize equals the mean over within-group transposes, is symmetric, idempotent and leaves symmetric input unchanged; issymmetric equals an exact invariance test for every grouping (proper subsets, several groups) and both versions agree; Kruskal symmetrize/issymmetric likewise.",
      _NOTE, "DESIGN.md section 4 C15")
claim("C16", "round-trip property testing over the full double range: export, independent parse of the file text, import, bit-level comparison; rewritten files with other index bases",
      "tensor/sptensor/ktensor/matrix with values across the whole exponent range (subnormals, +-max, -0.0, 17-digit cases) are written, the file text is parsed by the harness (1-based subscripts, layout), read back and compared bit for bit including subscripts and their order; files rewritten with base 0/2/5 are read back with index_base.",
      _NOTE, "DESIGN.md section 4 C16")
claim("C17", "exhaustive enumeration (index spaces, all dims/exclude_dims/M combinations for N<=5, all pairs of small row lists) + Hypothesis sampling vs set-algebra / Kronecker reference",
      "ind2sub/sub2ind are mutually inverse first-index-fastest bijections; tt_dimscheck returns sorted modes and multiplicand positions for every argument form; row membership/intersection/difference/union agree with set algebra on tuples including the pairing used by sptensor; khatrirao equals the column-wise Kronecker product.",
      _NOTE, "DESIGN.md section 4 C17")
claim("C18", "metamorphic property testing: pairs of runs of each decomposition algorithm from one generated problem (dense vs sparse, printing interval, same seed, positive scaling, mode relabelling)",
      "23 relation cells over cp_als, cp_apr (3 variants), hosvd, tucker_als, gcp_opt/LBFGSB: the two runs must give the same model within 1e-7 relative (times c / transposed where applicable), equal fits and iteration counts; numerically unstable instances are detected by perturbation and labelled, not judged.",
      _NOTE, "DESIGN.md section 4 C18")
claim("C19", "negative property testing: table of 179 (operation, stated precondition, violation generator) rows with deliberately coincidental violations; oracle = raises + bit-exact operand snapshot",
      "Each row applies exactly one violation of a precondition stated in the code or docstring (broadcastable mismatch, permuted same-count shape, vector sized for another mode, repeated mode, index equal to the bound, over-long permutation...) to otherwise valid generated operands; the call must raise and leave every operand bit-identical; valid control calls must be answered.",
      _NOTE, "DESIGN.md section 4 C19")
claim("C20", "property-based testing of generators and aggregating constructors vs direct NumPy / dictionary-aggregation oracles; enumeration of teneye orders and sizes",
      "tenones/tenzeros/tenrand/tendiag/sptendiag/teneye/from_function for every accepted shape form; sptenrand / sptensor.from_function return well-formed tensors with exactly the requested number of distinct nonzeros, reproducibly under the seed; from_aggregator equals dictionary aggregation with each reducer and drops zero results.",
      _NOTE, "DESIGN.md section 4 C20")
