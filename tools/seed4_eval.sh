#!/bin/bash
# evaluates seeded/pending4/Cxx/{a,b}.diff against the property's quick check; one summary line each.  usage: seed4_eval.sh [Cxx ...]
cd "$(dirname "$0")/.."
PROPS="${@:-C01 C02 C03 C04 C05 C06 C07 C08 C09 C10 C11 C12 C13 C14 C15 C16 C17 C18 C19 C20}"
for P in $PROPS; do for X in a b; do
  OUT=$(tools/try_patch.sh seeded/pending4/$P/$X.diff --demo seeded/pending4/$P/${X}_demo.py --suites $P 2>&1)
  echo "### $P $X | $(echo "$OUT" | grep -o 'unchanged tree: exit [0-9]') | $(echo "$OUT" | grep -o 'changed tree: exit [0-9]' | tail -1) | $(echo "$OUT" | grep -c 'passed') suites-ok | $(echo "$OUT" | grep '^== ')"
  echo "$OUT" | grep '^  C' | cut -c1-160 | head -3
done; done
