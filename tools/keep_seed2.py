#!/venv/bin/python
"""usage: keep_seed2.py <Cxx> <a|b> <first-run:caught|missed> "<needs>" "<detected by now>" [ported.diff]"""
import json, os, shutil, subprocess, sys
pid, x, first, needs, by = sys.argv[1:6]
ported = sys.argv[6] if len(sys.argv) > 6 else None
src = f"/verif/seeded/pending2/{pid}"
dst = f"/verif/seeded/{pid}-{x}2"
os.makedirs(dst, exist_ok=True)
if ported:
    shutil.copy(ported, f"{dst}/patch.diff"); shutil.copy(f"{src}/{x}.diff", f"{dst}/patch.orig.diff")
else:
    shutil.copy(f"{src}/{x}.diff", f"{dst}/patch.diff")
shutil.copy(f"{src}/{x}_demo.py", f"{dst}/demo.py")
if os.path.exists(f"{src}/notes.md"):
    shutil.copy(f"{src}/notes.md", f"{dst}/notes.md")
head = subprocess.run(["git", "-C", "/repo", "rev-parse", "--short", "HEAD"], capture_output=True, text=True).stdout.strip()
meta = dict(
    property=pid, round=2,
    origin="independent sub-agent (round 2) given only the property text, a list of the round-1 changes to avoid, and a scratch worktree of /repo at dd0c1ff",
    applies_to=f"/repo HEAD {head}" + (" (ported by hand: the original conflicts with a later fix: commit)" if ported else ""),
    needs_to_manifest=needs,
    confirmed=dict(pinned_doctests="208 passed with the change", functional_tests="tests/ (minus test_package.py): 593 passed with the change",
                   demo="exit 0 on unchanged tree, exit 1 with the change",
                   how=f"tools/try_patch.sh seeded/{pid}-{x}2/patch.diff --demo seeded/{pid}-{x}2/demo.py --suites {pid}"),
    detected_on_first_run=first,
    detected_by_checks="yes",
    detected_by=by,
)
json.dump(meta, open(f"{dst}/meta.json", "w"), indent=1)
