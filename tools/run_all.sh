#!/bin/bash
# usage: tools/run_all.sh <tier> [seed...]   -- runs every check, one line per check
TIER="${1:-quick}"; shift
SEEDS="${@:-1}"
cd "$(dirname "$0")/.."
for S in $SEEDS; do
for P in C01 C02 C03 C04 C05 C06 C07 C08 C09 C10 C11 C12 C13 C14 C15 C16 C17 C18 C19 C20; do
  T0=$(date +%s)
  OUT="$(VERIF_SEED=$S ./check $P --tier $TIER 2>&1)"; RC=$?
  T1=$(date +%s)
  echo "seed=$S $P rc=$RC wall=$((T1-T0))s viol=$(echo "$OUT" | grep -c '^VIOLATION') known=$(echo "$OUT" | grep -c '^KNOWN-FINDING:') notrepro=$(echo "$OUT" | grep -c 'NOT-REPRODUCED') harness=$(echo "$OUT" | grep -c 'HARNESS') incon=$(echo "$OUT" | grep -c 'INCONCLUSIVE') :: $(echo "$OUT" | tail -1 | cut -c1-120)"
  if [ $RC -ne 0 ]; then echo "$OUT" | grep -B1 '^VIOLATION\|HARNESS' | cut -c1-300 | head -20; fi
done; done
