"""Generate known_findings/C05.json and replays/known/C05-*.json from hand-minimised cases (dev tool)."""
import sys, json, os
sys.path.insert(0, '/verif')
from vf import core
from vf.props import c05

ALIAS = r"^(aliased|result-changed-by-write-to|operand-changed-by-write-to-result):%s$"
D1 = {"shape": [2], "data": [1.0, 2.0], "vkind": "int", "pattern": "all"}
K1 = {"shape": [2, 2], "rank": 1, "weights": [2.0], "factors": [[[1.0], [2.0]], [[3.0], [4.0]]], "vkind": "int", "wkind": "any"}
S1 = {"shape": [2], "subs": [[1]], "vals": [3.0], "vkind": "int", "pattern": "one", "order": "sorted"}
S2 = {"shape": [2, 2], "subs": [[0, 1]], "vals": [3.0], "vkind": "int", "pattern": "one", "order": "sorted"}
SUM1 = {"shape": [2], "parts": [{"kind": "tensor", "c": dict(D1)}]}

F = []
def add(id_, line, cell, detail, predicate, case, extra=None):
    F.append(dict(id=id_, line=line, cell=cell, detail=detail, predicate=predicate, case=case, extra=extra or []))

add("C05-permute-view", "tensor.permute returns a view of the receiver's data whenever the transposed array is already F-contiguous (identity order, 1-way tensors, only singleton modes moved)",
    "C05/tensor/permute", ALIAS % "self", "permute_keeps_relative_order_of_non_singleton_modes",
    dict(D1, perm=[0], form="array"))
add("C05-reshape-view", "tensor.reshape always returns a tensor that shares the receiver's data buffer",
    "C05/tensor/reshape", ALIAS % "self", None, dict(D1, new=[2], form="tuple"))
add("C05-tenfun-passthrough", "tensor.tenfun/tenfun_binary/tenfun_unary adopt (copy=False) the array returned by the function handle, so a handle that returns its argument makes the result share an operand's buffer",
    "C05/tensor/tenfun", ALIAS % "(self|other|input\\d)", "tenfun_passthrough",
    dict(D1, mode="unary", f="identity", via="tenfun"))
add("C05-setitem-key-rewritten", "tensor.__setitem__ with a linear-index ndarray key rewrites the negative entries of the caller's key array (tt_ind2sub)",
    "C05/tensor/setitem", r"^operand-mutated:key$", "key_is_negative_linear_array",
    dict(D1, key={"kind": "lin-arr", "v": [-1], "has_negative": True}, vkind_="scalar", vshape=[1], value=7.0))
add("C05-ktensor-ttv-shares-factors", "ktensor.ttv builds its result with copy=False from the receiver's remaining factor matrices (sumtensor.ttv inherits it through a Kruskal part)",
    "C05/ktensor/ttv", ALIAS % "self", "ttv_leaves_a_mode",
    dict(K1, single=True, d={"how": "dims", "dims": [0], "form": "int"}, full=False, vecs=[[1.0, 1.0], [1.0, 1.0]]),
    extra=[dict(cell="C05/sumtensor/ttv", kind="mismatch", detail=ALIAS % "self", predicate="sum_has_ktensor_part_and_ttv_leaves_a_mode")])
add("C05-ktensor-tolist-mutates", "ktensor.tolist(mode) normalises the receiver in place (weights absorbed into one factor) although it is a conversion",
    "C05/ktensor/tolist", r"^operand-mutated:self$", "tolist_mode_given", dict(K1, mode=0))
add("C05-ktensor-tolist-shares-factors", "ktensor.tolist returns the receiver's own factor matrices (shallow list copy) when a mode is given or all weights are 1",
    "C05/ktensor/tolist", ALIAS % "self", "tolist_mode_or_unit", dict(K1, weights=[1.0], wkind="unit", mode=None))
add("C05-fixsigns-normalises-other", "ktensor.fixsigns(other) normalises the reference tensor `other` in place",
    "C05/ktensor/fixsigns", r"^operand-mutated:other$", "fixsigns_with_other",
    dict(K1, with_other=True, other=dict(K1, weights=[3.0])))
add("C05-viz-changes-model", "ktensor.viz normalises/sorts the receiver in place and divides its weights by the largest weight (changes the tensor the object denotes)",
    "C05/ktensor/viz", r"^operand-mutated:self$", "viz_changes_model",
    dict(shape=[2, 2], rank=2, weights=[2.0, 3.0], factors=[[[1.0, 2.0], [2.0, 1.0]], [[3.0, 1.0], [4.0, 2.0]]], vkind="int", wkind="positive", normalize=True, rel_weights=True))
add("C05-sptensor-find-internal", "sptensor.find() returns the internal subs and vals arrays themselves",
    "C05/sptensor/find", ALIAS % "self", None, dict(S1))
add("C05-sptensor-setitem-adopts-vals", "S[region] = V (V an sptensor) stores V.vals itself in S when nothing of S survives outside the region",
    "C05/sptensor/setitem", ALIAS % "value", "setitem_region_covers_all_stored",
    dict(shape=[2], subs=[], vals=[], vkind="int", pattern="none", order="sorted", skind="region-sptensor",
         key={"kind": "region", "v": [{"t": "slice", "v": [None, None, None]}]}, vform="sptensor",
         value={"shape": [2], "subs": [[1]], "vals": [3.0], "pattern": "one"}))
add("C05-coo-shares-vals", "sptensor.spmatrix() and sptenmat.double() build the scipy coo_matrix on top of the object's own vals buffer",
    "C05/sptensor/spmatrix", ALIAS % "self", None, dict(S2),
    extra=[dict(cell="C05/sptenmat/double", kind="mismatch", detail=ALIAS % "self", predicate=None)])
add("C05-sumtensor-add-shares-parts", "sumtensor.__add__/__radd__ (also reached from tensor/sptensor/ktensor + sumtensor) put the operands' own part objects into the new sumtensor (copy=False)",
    "C05/sumtensor/add", ALIAS % "(self|other)", None,
    dict(SUM1, okind="tensor", other=dict(D1), right=False),
    extra=[dict(cell="C05/tensor/add", kind="mismatch", detail=ALIAS % "(self|other)", predicate="other_is_sumtensor"),
           dict(cell="C05/sptensor/add", kind="mismatch", detail=ALIAS % "(self|other)", predicate="other_is_sumtensor"),
           dict(cell="C05/ktensor/add", kind="mismatch", detail=ALIAS % "(self|other)", predicate="other_is_sumtensor")])
add("C05-tenmat-getitem-view", "tenmat.__getitem__ with a basic (int/slice) key returns a NumPy view into the tenmat's data",
    "C05/tenmat/getitem", ALIAS % "self", "tenmat_key_is_basic_slice",
    dict(shape=[2], data=[1.0, 2.0], vkind="int", pattern="all", rdims=[0], cdims=[],
         key={"kind": "region", "v": [{"t": "slice", "v": [None, None, None]}, {"t": "slice", "v": [None, None, None]}]}))
APR = dict(shape=[2, 2], dkind="tensor", counts=[1.0, 2.0, 0.0, 3.0], rank=1, init="ktensor",
           init_k=dict(shape=[2, 2], rank=1, weights=[1.0], factors=[[[0.0], [1.0]], [[1.0], [2.0]]]), zero_rows=1,
           maxiters=1, maxinneriters=1, printitn=0, precompinds=True, np_seed=0)
add("C05-cp_apr-writes-init", "cp_apr with algorithm pdnr/pqnr writes 1e-8 into the all-zero rows of the caller's initial guess",
    "C05/alg/cp_apr-p[dq]nr", r"^operand-mutated:init$", "apr_init_has_zero_row", APR)
GCP = dict(shape=[2, 2], dkind="tensor", objective="GAUSSIAN", vals=[1.0, 2.0, 0.0, 3.0], optimizer="LBFGSB", mask=None, rank=1,
           init="ktensor", init_k=dict(shape=[2, 2], rank=1, weights=[2.0], factors=[[[1.0], [2.0]], [[1.0], [3.0]]]), np_seed=0)
add("C05-gcp_opt-normalises-init", "gcp_opt normalises the caller's ktensor initial guess in place (normalize('all'))",
    "C05/alg/gcp_opt", r"^operand-mutated:init$", "gcp_init_is_ktensor", GCP)
add("C05-hosvd-writes-ranks", "hosvd writes the ranks it computes into the caller's `ranks` array (entries given as 0)",
    "C05/alg/hosvd", r"^operand-mutated:ranks$", "hosvd_ranks_array_with_zero",
    dict(shape=[2, 2], data=[1.0, 2.0, 3.0, 5.0], vkind="float", pattern="all", tol=0.001, dimorder=None,
         ranks={"v": [0, 1], "form": "array"}, sequential=True, verbosity=0))
ALS = dict(shape=[2, 2], dkind="tensor", data=dict(shape=[2, 2], data=[1.0, 2.0, 3.0, 5.0], vkind="float", pattern="all"), rank=1,
           init="random", dimorder={"v": [0, 1], "form": "array"}, optdims=None, maxiters=1, printitn=0, fixsigns=False, np_seed=0)
add("C05-info-params-view-order-arrays", "cp_als and tucker_als store views of the caller's dimorder/optdims arrays in the returned info['params']",
    "C05/alg/cp_als", ALIAS % "(dimorder|optdims)", "order_array_given", ALS,
    extra=[dict(cell="C05/alg/tucker_als", kind="mismatch", detail=ALIAS % "dimorder", predicate="order_array_given")])
ALS2 = dict(ALS, dimorder=None, init="ktensor", init_k=dict(shape=[2, 2], rank=1, weights=[1.0], factors=[[[1.0], [2.0]], [[1.0], [3.0]]]))
add("C05-init-echo-is-callers-object", "cp_als, cp_apr, tucker_als and gcp_opt return the caller's own initial-guess object as their second result (no copy)",
    "C05/alg/*", r"^init-echo-aliases-init$", "caller_supplied_init_object", ALS2)

out = []
for f in F:
    cellname = f["cell"] if "*" not in f["cell"] and "[" not in f["cell"] else None
    if f["id"] == "C05-cp_apr-writes-init": cellname = "C05/alg/cp_apr-pdnr"
    if f["id"] == "C05-init-echo-is-callers-object": cellname = "C05/alg/cp_als"
    c = core.CELLS[cellname]
    ctx = core.evaluate(c, f["case"], "quick")
    assert ctx.harness_error is None, (f["id"], ctx.harness_error)
    import re
    hits = [(k, d, i) for k, d, i in ctx.violations if re.search(f["detail"], d)]
    assert hits, (f["id"], ctx.violations, ctx.labels, ctx.notes)
    assert f["predicate"] is None or c05.PREDICATES[f["predicate"]](f["case"]), f["id"]
    rp = f"replays/known/{f['id']}.json"
    with open(os.path.join('/verif', rp), 'w') as fh:
        json.dump(dict(property="C05", cell=cellname, kind=hits[0][0], detail=hits[0][1], info=hits[0][2], case=f["case"]), fh, indent=1)
    e = dict(id=f["id"], property="C05", status="open", line=f["line"], cell=f["cell"], kind="mismatch", detail=f["detail"],
             predicate=f["predicate"], replay=rp)
    if f["extra"]:
        e["extra_matchers"] = f["extra"]
    out.append(e)
    print(f["id"], [d for _, d, _ in ctx.violations])
with open('/verif/known_findings/C05.json', 'w') as fh:
    json.dump(out, fh, indent=1)
