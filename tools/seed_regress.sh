#!/bin/bash
# usage: tools/seed_regress.sh [dir-glob]   -- runs each seeded change (seeded/Cxx-*/patch.diff) against its property's quick check
cd "$(dirname "$0")/.."
for D in seeded/${1:-C*}; do
  [ -f "$D/patch.diff" ] || continue
  P=$(python3 -c "import json;print(json.load(open('$D/meta.json'))['property'])")
  A=$(python3 -c "import json;print(json.load(open('$D/meta.json'))['applies_to'][:12])")
  if [[ "$A" == 971cc91* || "$A" == cdc9716\ only* ]]; then echo "$D  base-only (neutralised on HEAD)"; continue; fi
  OUT=$(tools/try_patch.sh "$D/patch.diff" --demo "$D/demo.py" $P 2>&1)
  echo "$D  $(echo "$OUT" | grep -o 'demo on changed tree: exit [0-9]') | $(echo "$OUT" | grep '^== ' | tr '\n' ' ')"
done
