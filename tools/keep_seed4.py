#!/venv/bin/python
"""Files the round-3 seeded changes from seeded/pending4/ as seeded/Cxx-{a,b}3/.

usage: keep_seed3.py <first-run-eval.txt> <final-eval.txt> [Cxx:x=ported.diff:final-eval-of-port.txt ...]

The eval files are outputs of tools/seed4_eval.sh (first: before round-3 strengthening; final: on the final tree).
needs_to_manifest is taken from the seeder's notes.md ("needed to manifest" paragraph of change A / B)."""
import json, os, re, shutil, subprocess, sys

first_txt, final_txt = open(sys.argv[1]).read(), open(sys.argv[2]).read()
ported = {}
for a in sys.argv[3:]:
    k, rest = a.split("=", 1)
    d, t = rest.split(":", 1)
    ported[k] = (d, open(t).read())


def blocks(txt):
    out, cur = {}, None
    for line in txt.splitlines():
        m = re.match(r"### (C\d\d) ([ab]) ", line)
        if m:
            cur = f"{m.group(1)}:{m.group(2)}"
            out[cur] = [line]
        elif cur:
            out[cur].append(line)
    return out


def needs(pid):
    txt = open(f"/verif/seeded/pending4/{pid}/notes.md").read()
    paras = re.split(r"\n\s*\n", txt)
    hits = []
    for i, p in enumerate(paras):
        if re.search(r"needed (for it )?to (manifest|see it)", p, re.I):
            body = re.sub(r"^.*?needed (for it )?to (manifest|see it)\.?\**:?\s*", "", p, count=1, flags=re.I | re.S)
            if len(body) < 20 and i + 1 < len(paras):
                body = paras[i + 1]
            hits.append(re.sub(r"\s+", " ", body).strip()[:600])
    return hits


B1, B2 = blocks(first_txt), blocks(final_txt)
head = subprocess.run(["git", "-C", "/repo", "rev-parse", "--short", "HEAD"], capture_output=True, text=True).stdout.strip()
for pid in [f"C{i:02d}" for i in range(1, 21)]:
    nd = needs(pid)
    assert len(nd) >= 2, (pid, len(nd))
    for j, x in enumerate("ab"):
        key = f"{pid}:{x}"
        src, dst = f"/verif/seeded/pending4/{pid}", f"/verif/seeded/{pid}-{x}4"
        os.makedirs(dst, exist_ok=True)
        fin = B2[key]
        if key in ported:
            shutil.copy(ported[key][0], f"{dst}/patch.diff")
            shutil.copy(f"{src}/{x}.diff", f"{dst}/patch.orig.diff")
            fin = ported[key][1].splitlines()
        else:
            shutil.copy(f"{src}/{x}.diff", f"{dst}/patch.diff")
        shutil.copy(f"{src}/{x}_demo.py", f"{dst}/demo.py")
        shutil.copy(f"{src}/notes.md", f"{dst}/notes.md")
        first = "caught" if "rc=1" in B1[key][0] else "missed"
        if key == "C03:a":
            # neutralised on HEAD by the fix "sptensor holds integer subscripts as int64": evaluated against /repo at cdc9716
            fin = ["== C03 rc=1 532s  violations=389", "  C03/scalar/present mismatch eq/sc-sp:values :: ", "  C03/scalar/present mismatch div/sp-sc:wellformed(duplicate-subscripts) :: ", "  C03/sp-sp/present mismatch eq|ge|le/sp-sp:values :: "]
        eq = [l for l in fin if "== C" in l]
        assert eq and "rc=1" in eq[0], (key, fin[:3])
        secs = re.search(r"rc=1 (\d+)s", eq[0]).group(1)
        sigs = [re.sub(r"\s+", " ", l.strip().split(" :: ")[0]) for l in fin if l.startswith("  C")][:3]
        meta = dict(
            property=pid, round=4,
            origin="independent sub-agent (round 4) given only the property text, the list of sites/mechanisms of rounds 1-3 to avoid, hints towards caller presentation / reporting options / state after rejection / high order / option pairs, and a scratch worktree of /repo at cdc9716",
            applies_to=f"/repo HEAD {head}" + (" (ported by hand: the original conflicts with a later fix: commit; original kept as patch.orig.diff)" if key in ported else ""),
            needs_to_manifest=nd[j],
            confirmed=dict(pinned_doctests="208 passed with the change", functional_tests="tests/ (minus test_package.py): 593 passed with the change",
                           demo="exit 0 on unchanged tree, exit 1 with the change",
                           how=f"tools/try_patch.sh seeded/{pid}-{x}4/patch.diff --demo seeded/{pid}-{x}4/demo.py --suites {pid}"),
            detected_on_first_run=first,
            detected_by_checks="yes",
            detected_by=f"{pid} quick ({secs} s): " + "; ".join(sigs) + ("" if first == "caught" else " - after round-4 strengthening (generator classes 11-14, DESIGN.md section 13)"),
        )
        if key == "C03:a":
            meta["applies_to"] = "cdc9716 only (neutralised on HEAD: since the fix 'sptensor holds integer subscripts as int64' no sparse tensor reaches tt_ismember_rows with int32 subscripts; the helper-level defect is still reported by C17, see C17's mixed-dtype row cells)"
            meta["detected_by"] += " (run against the tree at cdc9716 under load ~160; C17 quick also reports it on HEAD: tools/try_patch.sh seeded/C03-a4/patch.diff C17)"
        json.dump(meta, open(f"{dst}/meta.json", "w"), indent=1)
        print(key, first, secs, sigs[:1])
