#!/venv/bin/python
"""Mark known findings as fixed: looks up the "fix:" commits on /repo's current branch by subject and rewrites
known_findings/<Cxx>.json (status, commit, line "fixed: property=<id> <commit> <what failed>").

Run after the fix commits are on /repo's main.  Idempotent.  Findings not listed stay as they are."""
import json
import os
import subprocess
import sys

HERE = os.path.dirname(os.path.dirname(os.path.abspath(__file__)))

# finding id -> list of substrings of the subjects of the commits that repair it
FIXMAP = {
    "C01-K1": ["ktensor.full of a 1-way"],
    "C01-K2": ["sptenmat.to_sptensor works when the row or column"],
    "C01-K3": ["sptenmat.full of a matrix without stored nonzeros"],
    "C01-K4": ["sptenmat.from_array pairs values"],
    "C02-KF01": ["ktensor.ttv accepts a vector of length one"],
    "C02-KF02": ["sptenmat.to_sptensor works when the row or column"],
    "C02-KF03": ["ttensor.mttkrp applies the weights"],
    "C02-KF04": ["tensor.mttkrps applies the weights"],
    "C02-KF05": ["sptensor.innerprod works when a sparse operand stores exactly one"],
    "C02-KF06": ["sptensor.scale works for a sparse tensor with one or no"],
    "C02-KF07": ["sptensor.scale works for a sparse tensor with one or no"],
    "C02-KF08": ["sptensor.contract works for a sparse tensor without"],
    "C02-KF09": ["sptensor.collapse over all modes works"],
    "C02-KF10": ["sptensor.from_aggregator with a single entry"],
    "C02-KF11": ["sptensor.mask places each extracted value", "sptensor.mask handles a mask or a data tensor without"],
    "C02-KF12": ["ktensor.mask handles a sparse mask without nonzeros"],
    "C03-K01-intersect-pairs-by-position": ["row-set helpers return consistent indices"],
    "C03-K02-eq-ne-scalar-value-count": ["sptensor == and != with a scalar"],
    "C03-K03-ne-zero-on-empty": ["sptensor == and != with a scalar"],
    "C03-K05-spdiv-both-empty-float-subs": ["sptensor / sptensor returns integer subscripts"],
    "C03-K06-dense-gather-one-stored": ["sptensor *, / and == with a dense tensor work when", "sptensor.logical_and with a dense tensor is false"],
    "C03-K07-dense-gather-none-stored": ["sptensor *, / and == with a dense tensor work when", "sptensor.logical_and with a dense tensor is false"],
    "C03-K08-logical-and-dense-zero": ["sptensor.logical_and with a dense tensor is false"],
    "C03-K09-logical-one-operand-empty": ["sptensor logical_and/or/xor of two sparse tensors work when one"],
    "C03-K10-div-zero-empty": ["sptensor / 0 works"],
    "C03-K11-eq-dense-one-zero": ["sptensor == dense tensor works when the dense tensor has exactly one zero"],
    "C03-K12-ne-dense-float-subs": ["sptensor != dense tensor returns integer subscripts"],
    "C04-D2": ["open slice on a mode of extent 1"],
    "C04-D3": ["single subscript row or a single linear index"],
    "C04-S1": ["decides change / delete / insert per entry"],
    "C04-S2": ["removes the addressed stored entries"],
    "C04-S3": ["pads the stored subscripts with 0"],
    "C04-S4": ["sparse region read accepts an index list given as a numpy array"],
    "C04-S5": ["region assignment keeps integer subscripts"],
    "C04-S6": ["advances through the right-hand side's modes"],
    "C04-S7": ["accepts numpy integer subscripts"],
    "C05-permute-view": ["tensor.permute never returns a view"],
    "C05-reshape-view": ["tensor.reshape returns a tensor that does not share"],
    "C05-tenfun-passthrough": ["tensor.tenfun copies when the handle returns"],
    "C05-setitem-key-rewritten": ["tt_ind2sub no longer rewrites negative entries"],
    "C05-ktensor-ttv-shares-factors": ["ktensor.ttv returns a ktensor that does not share"],
    "C05-ktensor-tolist-mutates": ["ktensor.tolist neither renormalises"],
    "C05-ktensor-tolist-shares-factors": ["ktensor.tolist neither renormalises"],
    "C05-fixsigns-normalises-other": ["ktensor.fixsigns(other) no longer normalises the reference"],
    "C05-viz-changes-model": ["ktensor.viz no longer normalises"],
    "C05-sptensor-find-internal": ["sptensor.find returns copies"],
    "C05-sptensor-setitem-adopts-vals": ["sptensor region assignment copies the assigned values"],
    "C05-coo-shares-vals": ["sptensor.spmatrix and sptenmat.double return matrices"],
    "C05-sumtensor-add-shares-parts": ["sumtensor addition copies the parts"],
    "C05-tenmat-getitem-view": ["tenmat.__getitem__ returns a copy"],
    "C05-cp_apr-writes-init": ["cp_apr (pdnr, pqnr) perturbs all-zero rows in its own copy"],
    "C05-hosvd-writes-ranks": ["hosvd does not write the computed ranks"],
    "C05-init-echo-is-callers-object": ["return a copy of the supplied initial guess"],
    "C06-K1": ["row-set helpers return consistent indices"],
    "C06-K3": ["sptensor == and != with a scalar"],
    "C06-K4": ["sptensor != dense tensor returns integer subscripts"],
    "C06-K5": ["sptensor.mask places each extracted value"],
    "C06-K6": ["does not store the entries whose product is zero"],
    "C08-K1": ["ktensor.fixsigns(other) flips signs in pairs"],
    "C08-K2": ["ktensor.arrange accepts a permutation given as a tuple"],
    "C11-F3": ["cp_apr (pdnr, pqnr) perturbs all-zero rows in its own copy"],
    "C12-F2": ["tensor.mttkrps applies the weights"],
    "C12-F3": ["sampled GCP gradient estimate of an empty sample"],
    "C13-F2": ["zero sampler handles a request for no samples"],
    "C13-F3": ["semi-stratified sampler accepts a request for no nonzero"],
    "C13-F4": ["report the trace entry of the last completed epoch"],
    "C13-F5": ["Adam starts every solve from fresh"],
    "C13-F6": ["Adagrad starts every solve from a fresh"],
    "C13-F7": ["uniform sampler returns the sampled values of a sparse tensor as a flat"],
    "C13-F8": ["sampled GCP gradient estimate of an empty sample"],
    "C13-F9": ["treat a NaN gradient or objective estimate as a failure"],
    "C14-K4": ["sptenmat.to_sptensor works when the row or column"],
    "C14-K5": ["sptensor.nvecs (iterative path) returns real eigenvectors"],
    "C15-K1": ["tensor.issymmetric compares entries with their class exemplars in F order"],
    "C15-K2": ["tensor.symmetrize accumulates entries in F order"],
    "C15-K3": ["tensor.issymmetric (original algorithm) handles groups"],
    "C17-F1": ["row-set helpers return consistent indices"],
    "C17-F2": ["row-set helpers return consistent indices"],
    "C17-F3": ["row-set helpers return consistent indices"],
    "C19-F1": ["tensor.permute rejects orders that are not a permutation"],
    "C19-F2": ["tensor.permute rejects orders that are not a permutation"],
    "C19-F3": ["tt_dimscheck rejects repeated modes"],
    "C19-F4": ["sptensor.innerprod checks the shapes also when the receiver has no nonzeros"],
    "C19-F5": ["sptenmat rejects a row or column index equal"],
    "C19-F6": ["sptensor +/- a dense tensor requires equal shapes", "logical_and/or/xor with a dense tensor require equal shapes"],
    "C19-F7": ["logical_and/or/xor with a dense tensor require equal shapes"],
    "C19-F8": ["gcp_opt validates optimizer, data and mask before"],
    "C20-F1": ["return the requested number of distinct nonzeros"],
    "C20-F2": ["sptenrand with density * size < 1"],
    "C20-F3": ["sptensor.from_aggregator with a single entry"],
}
FIXMAP.update(json.load(open(os.path.join(HERE, "tools", "fixmap_extra.json"))) if os.path.exists(os.path.join(HERE, "tools", "fixmap_extra.json")) else {})

log = subprocess.run(["git", "-C", "/repo", "log", "--format=%h %s"], capture_output=True, text=True).stdout.splitlines()
commits = [(l.split(" ", 1)[0], l.split(" ", 1)[1]) for l in log if " fix:" in " " + l.split(" ", 1)[1][:4] or l.split(" ", 1)[1].startswith("fix:")]


def find(sub):
    hits = [h for h, s in commits if sub in s]
    if len(hits) != 1:
        print(f"!! {len(hits)} commits match {sub!r}")
        return None
    return hits[0]


changed = 0
for fn in sorted(os.listdir(os.path.join(HERE, "known_findings"))):
    if not fn.endswith(".json"):
        continue
    path = os.path.join(HERE, "known_findings", fn)
    data = json.load(open(path))
    for e in data:
        subs = FIXMAP.get(e["id"])
        if not subs or (e["status"] == "fixed" and e.get("commit") != "PENDING"):
            continue
        hs = [find(s) for s in subs]
        if None in hs:
            continue
        what = e["line"]
        e["status"] = "fixed"
        e["commit"] = " ".join(hs)
        e["line"] = f"fixed: property={e['property']} {' '.join(hs)} {what}"
        changed += 1
    json.dump(data, open(path, "w"), indent=1)
print("marked fixed:", changed)
