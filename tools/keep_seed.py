#!/venv/bin/python
"""usage: keep_seed.py <Cxx> <a|b> <caught:yes|no|partial> "<needs>" "<detected by>"
Copies /tmp/seed/out/Cxx/{x}.diff and {x}_demo.py to /verif/seeded/Cxx-x/ and writes meta.json."""
import json, os, shutil, sys
pid, x, caught, needs, by = sys.argv[1:6]
src = f"/tmp/seed/out/{pid}"
dst = f"/verif/seeded/{pid}-{x}"
os.makedirs(dst, exist_ok=True)
shutil.copy(f"{src}/{x}.diff", f"{dst}/patch.diff")
shutil.copy(f"{src}/{x}_demo.py", f"{dst}/demo.py")
notes = open(f"{src}/notes.md").read() if os.path.exists(f"{src}/notes.md") else ""
open(f"{dst}/notes.md", "w").write(notes)
meta = dict(
    property=pid,
    origin="independent sub-agent given only the property text and a scratch worktree",
    needs_to_manifest=needs,
    confirmed=dict(
        pinned_doctests="208 passed with the change",
        functional_tests="tests/ (minus test_package.py) all passed with the change",
        demo="exit 0 on unchanged tree, exit 1 with the change",
        how="tools/try_patch.sh patch.diff --demo demo.py --suites " + pid,
    ),
    detected_by_checks=caught,
    detected_by=by,
)
json.dump(meta, open(f"{dst}/meta.json", "w"), indent=1)
print("kept", dst)
