#!/venv/bin/python
"""usage: keep_seed.py <Cxx> <a|b> <caught:yes|no|base-only> "<needs>" "<detected by>" [ported.diff]
Copies seeded/pending/Cxx/{x}.diff and {x}_demo.py to /verif/seeded/Cxx-x/ and writes meta.json.
With a ported diff: patch.diff is the port to the current /repo HEAD, patch.orig.diff the sub-agent's original."""
import json, os, shutil, subprocess, sys
pid, x, caught, needs, by = sys.argv[1:6]
ported = sys.argv[6] if len(sys.argv) > 6 else None
src = f"/verif/seeded/pending/{pid}"
dst = f"/verif/seeded/{pid}-{x}"
os.makedirs(dst, exist_ok=True)
if ported:
    shutil.copy(ported, f"{dst}/patch.diff")
    shutil.copy(f"{src}/{x}.diff", f"{dst}/patch.orig.diff")
else:
    shutil.copy(f"{src}/{x}.diff", f"{dst}/patch.diff")
shutil.copy(f"{src}/{x}_demo.py", f"{dst}/demo.py")
if os.path.exists(f"{src}/notes.md"):
    shutil.copy(f"{src}/notes.md", f"{dst}/notes.md")
head = subprocess.run(["git", "-C", "/repo", "rev-parse", "--short", "HEAD"], capture_output=True, text=True).stdout.strip()
meta = dict(
    property=pid,
    origin="independent sub-agent given only the property text and a scratch worktree of /repo at 971cc91 (before the fix: commits)",
    applies_to=("971cc91 only (see note)" if caught == "base-only" else f"/repo HEAD {head}" + (" (ported by hand from the original, which was written against 971cc91 and conflicts with a later fix: commit)" if ported else "")),
    needs_to_manifest=needs,
    confirmed=dict(
        pinned_doctests="208 passed with the change",
        functional_tests="tests/ (minus test_package.py): 593 passed with the change",
        demo="exit 0 on unchanged tree, exit 1 with the change",
        how=f"tools/try_patch.sh seeded/{pid}-{x}/patch.diff --demo seeded/{pid}-{x}/demo.py --suites {pid}",
    ),
    detected_by_checks=caught,
    detected_by=by,
)
json.dump(meta, open(f"{dst}/meta.json", "w"), indent=1)
print("kept", dst)
