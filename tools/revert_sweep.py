#!/venv/bin/python
"""Sensitivity sweep: revert each "fix:" commit of /repo in a scratch worktree and confirm that the checks of the
properties whose fixed findings cite that commit report a VIOLATION again (a fixed entry suppresses nothing).
Writes revert_sweep_results.json (cwd) and prints one line per commit."""
import glob, json, os, subprocess, sys, tempfile, shutil

HERE = os.path.dirname(os.path.dirname(os.path.abspath(__file__)))
by_commit = {}
for f in glob.glob(os.path.join(HERE, "known_findings", "C*.json")):
    for e in json.load(open(f)):
        if e["status"] == "fixed":
            for c in (e.get("commit") or "").split():
                by_commit.setdefault(c, set()).add(e["property"])
log = subprocess.run(["git", "-C", "/repo", "log", "--format=%h %s"], capture_output=True, text=True).stdout.splitlines()
fixes = [(l.split(" ", 1)[0], l.split(" ", 1)[1]) for l in log if l.split(" ", 1)[1].startswith("fix:")]
only = sys.argv[1:]  # optional list of commits
results = []
for h, subj in fixes:
    if only and h not in only:
        continue
    props = sorted(by_commit.get(h, []))
    wt = tempfile.mkdtemp(prefix="rev.", dir="/tmp")
    os.rmdir(wt)
    subprocess.run(["git", "-C", "/repo", "worktree", "add", "-q", "--detach", wt, "HEAD"], check=True)
    try:
        r = subprocess.run(["git", "-C", wt, "revert", "--no-commit", h], capture_output=True, text=True)
        if r.returncode != 0:
            results.append(dict(commit=h, subject=subj, props=props, status="revert-conflict"))
            print(f"{h} CONFLICT {subj[:80]}", flush=True)
            continue
        if not props:
            results.append(dict(commit=h, subject=subj, props=[], status="no-finding-cites-it"))
            print(f"{h} NOPROP {subj[:80]}", flush=True)
            continue
        per = {}
        for p in props:
            env = dict(os.environ, VERIF_REPO=wt)
            out = subprocess.run([os.path.join(HERE, "check"), p], capture_output=True, text=True, env=env, cwd=HERE)
            per[p] = dict(rc=out.returncode, violations=out.stdout.count("\nVIOLATION") + out.stdout.startswith("VIOLATION"))
        caught = any(v["rc"] == 1 for v in per.values())
        results.append(dict(commit=h, subject=subj, props=props, status="caught" if caught else "MISSED", per=per))
        print(f"{h} {'caught' if caught else 'MISSED'} {per} {subj[:70]}", flush=True)
    finally:
        subprocess.run(["git", "-C", "/repo", "worktree", "remove", "--force", wt], capture_output=True)
        shutil.rmtree(wt, ignore_errors=True)
json.dump(results, open("revert_sweep_results.json", "w"), indent=1)
print("caught", sum(r["status"] == "caught" for r in results), "missed", sum(r["status"] == "MISSED" for r in results),
      "conflict", sum(r["status"] == "revert-conflict" for r in results), "nocite", sum(r["status"] == "no-finding-cites-it" for r in results))
