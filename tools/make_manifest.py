#!/venv/bin/python
"""Regenerate /verif/MANIFEST.json from the property modules that exist under vf/props/.

A property is *claimed* iff vf/props/cNN.py exists and is listed in CLAIMED below
(so that a half-built module is not registered by accident).
"""
import json
import os
import sys

HERE = os.path.dirname(os.path.dirname(os.path.abspath(__file__)))

# property id -> (technique, level text, level note)
CLAIMED = {}


def claim(pid, technique, text, note, design_ref):
    CLAIMED[pid] = dict(technique=technique, text=text, note=note, design_ref=design_ref)


NOT_BUILT_REASON = "check not built yet in this round (property-based check designed in DESIGN.md section 4, not yet implemented)"

exec(open(os.path.join(HERE, "tools", "claims.py")).read())

props = [json.loads(l) for l in open(os.path.join(HERE, "properties.jsonl"))]
checks = []
na = []
for p in props:
    pid = p["id"]
    mod = os.path.join(HERE, "vf", "props", pid.lower() + ".py")
    if pid in CLAIMED and os.path.exists(mod):
        c = CLAIMED[pid]
        checks.append(
            dict(
                property_id=pid,
                quick_cmd=f"./check {pid} --tier quick",
                thorough_cmd=f"./check {pid} --tier thorough",
                evidence_file=f"evidence/{pid}.json",
                replay_cmd_template=f"./check {pid} --replay {{path}}",
                engine="vf",
                level_claimed=dict(category="exploration", text=c["text"], design_ref=c["design_ref"]),
                level_note=c["note"],
                technique=c["technique"],
            )
        )
    else:
        na.append(dict(property_id=pid, reason=NA_REASONS.get(pid, NOT_BUILT_REASON)))  # noqa: F821

manifest = dict(
    version=1,
    setup_cmd="./setup.sh",
    hooks=dict(
        guard="PYTTB_VERIF",
        enable="none needed: pure Python, checks import pyttb from /repo's working tree (sys.path[0]=/repo); no source hooks exist",
        baseline_off_cmd="cd /repo && /venv/bin/python -m pytest -ra -q -p no:cacheprovider --timeout=900 --continue-on-collection-errors",
        source_commits=[],
        add_only=True,
    ),
    engines=[
        dict(
            name="vf",
            path="vf/",
            serves_properties=[c["property_id"] for c in checks],
            kind_free_text="Hypothesis-driven property-based testing framework: cells (generator + NumPy oracle + "
            "non-triviality rule), collect-then-shrink driver sharded over 16 processes, known-findings matcher, "
            "JSON replay files",
        )
    ],
    checks=checks,
    not_applicable=na,
    notes="All checks: ./check <id> --tier quick|thorough ; replay: ./check <id> --replay <file>. Exit 0 held / 1 VIOLATION / 2 harness error. "
    "Known findings live in known_findings/<id>.json (never written at run time).",
)
with open(os.path.join(HERE, "MANIFEST.json"), "w") as f:
    json.dump(manifest, f, indent=1)
print("claimed:", [c["property_id"] for c in checks])
print("not_applicable:", [n["property_id"] for n in na])
