#!/bin/bash
# Offline setup: make sure hypothesis is importable next to the repository's packages.
HERE="$(cd "$(dirname "${BASH_SOURCE[0]}")" && pwd)"
PY=/venv/bin/python
if $PY -c 'import hypothesis' >/dev/null 2>&1; then echo "hypothesis already importable"; exit 0; fi
export PIP_NO_INDEX=1
/venv/bin/pip install --no-index --find-links /opt/veriftools/wheels hypothesis >/dev/null 2>&1 \
  || /venv/bin/pip install --no-index --find-links /opt/veriftools/wheels --target "$HERE/.deps" hypothesis
PYTHONPATH="$HERE/.deps" $PY -c 'import hypothesis; print("hypothesis", hypothesis.__version__)'
